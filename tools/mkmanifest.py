#!/usr/bin/env python3
import json, os, sys
ROOT = os.path.dirname(os.path.dirname(os.path.abspath(__file__)))
sys.path.insert(0, ROOT)
from checks.meta import CHECKS, NOT_YET
props = [json.loads(l) for l in open(os.path.join(ROOT, "properties.jsonl"))]
checks = []
na = []
for p in props:
    i = p["id"]
    if i in CHECKS:
        c = CHECKS[i]
        checks.append({
            "property_id": i,
            "quick_cmd": "bin/check %s --tier quick" % i,
            "thorough_cmd": "bin/check %s --tier thorough" % i,
            "evidence_file": "/verif/evidence/%s.json" % i,
            "replay_cmd_template": "bin/check %s --replay {path}" % i,
            "engine": "tlc",
            "level_claimed": {"category": c["category"], "text": c["text"], "design_ref": "DESIGN.md section " + c["design"]},
            "level_note": c["note"],
            "technique": c["technique"],
        })
    else:
        na.append({"property_id": i, "reason": NOT_YET.get(i, "check not built yet in this round (planned: see DESIGN.md section 4); not claimed until its TLA+ specification and conformance harness exist")})
m = {
    "version": 1,
    "setup_cmd": "bin/check --setup",
    "hooks": {"guard": "LIBA_VERIF", "enable": "harnesses compile /repo/src/*.c directly with -DLIBA_VERIF=1; no source hooks are needed (all observed state is public, a_alloc is a replaceable pointer)",
              "baseline_off_cmd": "cmake -G Ninja -B /repo/_build -S /repo -DBUILD_TESTING=ON >/dev/null && cmake --build /repo/_build >/dev/null && ctest --test-dir /repo/_build -j8 --timeout 900",
              "source_commits": [], "add_only": True},
    "engines": [{"name": "tlc", "path": "/opt/veriftools/tla/tla2tools.jar", "serves_properties": sorted(CHECKS), "kind_free_text": "TLA+ explicit-state model checker (design model checking, edge generation, trace validation)"},
                {"name": "apalache", "path": "/opt/veriftools/apalache", "serves_properties": [p for p in ["C12"] if p in CHECKS], "kind_free_text": "symbolic TLA+ checker, one-step action invariants over unbounded integers"}],
    "checks": checks,
    "not_applicable": na,
    "notes": "All checks: TLA+ specification (specs/) + TLC + conformance harness (harness/) built from /repo's working tree at check time. Exit 0 ok, 1 VIOLATION, 2 the check itself is broken.",
}
json.dump(m, open(os.path.join(ROOT, "MANIFEST.json"), "w"), indent=1)
print("MANIFEST.json: %d checks, %d not_applicable" % (len(checks), len(na)))
