#!/usr/bin/env python3
"""tools/mutate.py <PROP> [--max N] [--workers W] [--seed S] [--files f1,f2]

Mechanical mutation campaign against one property's check.

For the files the property is anchored in (properties.jsonl, anchors.files), single-token mutants are generated
(relational / logical / arithmetic operator swaps, off-by-one constants, left/right and next/prev swaps, dropped
assignment statements).  Each mutant is applied to a private worktree under /tmp/mw/<k> (never to /repo), built
incrementally and run through the repository's own test suite; only mutants that compile AND pass all 41 tests are
interesting ("passes the existing tests").  Those are handed to `VERIF_REPO=<worktree> bin/check <PROP>` (quick tier):
exit 1 = detected, exit 0 = survived (an equivalent mutant or a gap: to be read by a person), exit 2 = the check broke.

Results: /verif/mutation/<PROP>.jsonl (one line per mutant) and a summary line on stdout.
"""
import sys, os, re, json, random, subprocess, shutil, time, argparse, threading, queue

VERIF = os.path.dirname(os.path.dirname(os.path.abspath(__file__)))
REPO = "/repo"
ap = argparse.ArgumentParser()
ap.add_argument("prop")
ap.add_argument("--max", type=int, default=25)
ap.add_argument("--workers", type=int, default=3)
ap.add_argument("--seed", type=int, default=1)
ap.add_argument("--files", default="")
ap.add_argument("--check-killed", action="store_true", help="also run the check on mutants the test suite kills")
ap.add_argument("--rerun", default="", help="re-run the recorded mutants with these statuses (comma separated) and replace their records")
args = ap.parse_args()


def sh(cmd, timeout=None, env=None):
    try:
        p = subprocess.run(cmd, shell=True, stdout=subprocess.PIPE, stderr=subprocess.STDOUT, text=True, errors="replace", timeout=timeout, env=env)
        return p.returncode, p.stdout
    except subprocess.TimeoutExpired as e:
        return 124, (e.stdout or b"").decode(errors="replace") if isinstance(e.stdout, bytes) else (e.stdout or "")


RANGES = {}
FIRST = {}


def anchored_files(prop):
    """files of the property; RANGES[file] = line ranges named by anchors.mechanism (the property's own code in shared files)"""
    for line in open(os.path.join(VERIF, "properties.jsonl")):
        d = json.loads(line)
        if d["id"] == prop:
            fs = [f for f in d["anchors"]["files"] if os.path.isfile(os.path.join(REPO, f)) and re.search(r"\.(c|h)$", f)]
            for m in d["anchors"]["mechanism"]:
                cur = None
                for tok in re.split(r",\s*", m["where"]):
                    mm = re.match(r"^(\S+\.[ch]):(\d+)(?:-(\d+))?", tok)
                    if mm:
                        cur = mm.group(1)
                        RANGES.setdefault(cur, []).append((int(mm.group(2)), int(mm.group(3) or mm.group(2))))
                    else:
                        mm = re.match(r"^(\d+)-(\d+)", tok)
                        if mm and cur:
                            RANGES[cur].append((int(mm.group(1)), int(mm.group(2))))
            keep = []
            for f in fs:
                base = os.path.basename(f)
                if f in RANGES or base not in ("a.h", "a.c", "math.h", "math.c", "str.c"):
                    keep.append(f)
            return keep
    raise SystemExit("unknown property")


def in_ranges(path, line1):
    rs = RANGES.get(path)
    if not rs:
        return True
    return any(lo - 6 <= line1 <= hi + 12 for lo, hi in rs)


RULES = [
    ("rel", r"(?<![<>=!\-])<=(?!=)", "<"), ("rel", r"(?<![<>=!\-])>=(?!=)", ">"),
    ("rel", r"(?<![<>=!\-+*/&|^%])<(?![<=])", "<="), ("rel", r"(?<![<>=!\-+*/&|^%\-])>(?![>=])", ">="),
    ("eq", r"==", "!="), ("eq", r"!=", "=="),
    ("logic", r"&&", "||"), ("logic", r"\|\|", "&&"),
    ("arith", r"(?<=[\w\)\]]) \+ (?=[\w\(])", " - "), ("arith", r"(?<=[\w\)\]]) - (?=[\w\(])", " + "),
    ("arith", r"(?<=[\w\)\]]) \* (?=[\w\(])", " / "),
    ("one", r"\+ 1\b", "+ 2"), ("one", r"- 1\b", "- 2"), ("one", r"\+ 1\b", ""), ("one", r" - 1\b", ""),
    ("const", r"\b0\b(?![.xX])", "1"), ("const", r"\b1\b(?![.xX])", "0"), ("const", r"\b2\b(?![.xX])", "3"),
    ("dir", r"\bleft\b", "right"), ("dir", r"\bright\b", "left"), ("dir", r"\bnext\b", "prev"), ("dir", r"\bprev\b", "next"),
    ("dir", r"\bfore\b", "back"), ("dir", r"\breal\b", "imag"), ("dir", r"\bimag\b", "real"),
    ("incdec", r"\+\+", "--"), ("incdec", r"--", "++"),
    ("asg", r"\+=", "-="), ("asg", r"-=", "+="), ("asg", r"\*=", "/="),
    ("neg", r"if \(!", "if ("), ("neg", r"\bif \((?!!)", "if (!("),
]


def candidates(path):
    src = open(os.path.join(REPO, path), errors="replace").read().split("\n")
    out = []
    in_comment = False
    depth = 0
    for i, ln in enumerate(src):
        s = ln.strip()
        if in_comment:
            if "*/" in s:
                in_comment = False
            continue
        if s.startswith("/*") and "*/" not in s:
            in_comment = True
            continue
        if not s or s.startswith("//") or s.startswith("/*") or s.startswith("*") or s.startswith("#"):
            # preprocessor lines: only function-like macro bodies are code; leave them alone
            continue
        code = re.sub(r"/\*.*?\*/", lambda m: " " * len(m.group(0)), ln)
        code = re.sub(r"//.*$", "", code)
        code = re.sub(r'"(\\.|[^"\\])*"', lambda m: '"' + "_" * (len(m.group(0)) - 2) + '"', code)
        opens, closes = code.count("{"), code.count("}")
        inside = depth > 0 or (path.endswith(".h") and ("A_INTERN" in "".join(src[max(0, i - 6):i + 1])))
        depth += opens - closes
        if depth < 0:
            depth = 0
        if not inside and not path.endswith(".h"):
            continue
        if re.match(r"\s*(typedef|struct|union|enum|extern|A_EXTERN|A_HIDDEN|A_PUBLIC)\b", code):
            continue
        for kind, pat, rep in RULES:
            for m in re.finditer(pat, code):
                new = ln[:m.start()] + rep + ln[m.end():]
                if kind == "neg" and rep == "if (!(":
                    # if (X) ...  ->  if (!(X)) ...: only when the condition closes on this line with a single pair
                    mm = re.match(r"^(\s*(?:else )?if \()(.*)(\)\s*(\{.*|[^)]*;)?\s*)$", ln)
                    if not mm or mm.group(2).count("(") != mm.group(2).count(")"):
                        continue
                    new = mm.group(1) + "!(" + mm.group(2) + ")" + mm.group(3)
                if new != ln:
                    out.append((path, i, kind, ln, new))
        # dropped statement: a plain assignment / call on its own line
        if re.match(r"^\s*[\w\->\.\[\]\*\(\) ]+\s*(=|\+=|-=)\s*[^=].*;\s*$", code) and "for (" not in code and not re.match(r"^\s*(a_\w+|int|unsigned|char|double|float|void|struct|const|register)\b.*\b\w+\s*=", code):
            out.append((path, i, "drop", ln, re.match(r"^\s*", ln).group(0) + ";"))
    return out


def prepare_worker(k):
    wt = "/tmp/mw/%d" % k
    if os.path.isdir(wt):
        sh("git -C %s worktree remove --force %s" % (REPO, wt))
        shutil.rmtree(wt, ignore_errors=True)
    os.makedirs("/tmp/mw", exist_ok=True)
    rc, out = sh("git -C %s worktree add --detach %s HEAD" % (REPO, wt))
    if rc:
        raise SystemExit(out)
    rc, out = sh("cd %s && cmake -G Ninja -B _build -DBUILD_TESTING=ON -DCMAKE_BUILD_TYPE=RelWithDebInfo -DCMAKE_C_FLAGS=-Wno-error -DLIBA_CXX=ON >/dev/null 2>&1 && cmake --build _build 2>&1 | tail -2" % wt, timeout=1800)
    return wt


def run_mutant(wt, mut):
    path, lineno, kind, old, new = mut
    full = os.path.join(wt, path)
    orig = open(full, errors="replace").read()
    lines = orig.split("\n")
    assert lines[lineno] == old
    lines[lineno] = new
    rec = {"prop": args.prop, "file": path, "line": lineno + 1, "kind": kind, "old": old.strip(), "new": new.strip()}
    t0 = time.time()
    try:
        open(full, "w").write("\n".join(lines))
        rc, out = sh("cd %s && cmake --build _build 2>&1 | tail -5" % wt, timeout=1800)
        if rc or "error:" in out or "FAILED" in out:
            rec["status"] = "noncompiling"
            return rec
        rc, out = sh("cd %s && ctest --test-dir _build -j4 --timeout 120 2>&1 | tail -6" % wt, timeout=1800)
        m = re.search(r"(\d+)% tests passed, (\d+) tests failed out of (\d+)", out)
        passed = m is not None and m.group(2) == "0" and m.group(3) == "41"
        rec["ctest"] = "pass" if passed else "fail"
        if not passed and not args.check_killed:
            rec["status"] = "killed-by-tests"
            return rec
        env = dict(os.environ, VERIF_REPO=wt, VERIF_EVIDENCE_DIR=os.path.join(wt, "_ev"))
        rc, out = sh("cd %s && bin/check %s --tier quick 2>&1" % (VERIF, args.prop), timeout=2400, env=env)
        out = out[-8000:]
        keys = sorted(set(re.findall(r"^violation key=([^:]+(?::[^: ]+){0,3})", out, re.M)))
        rec["check_rc"] = rc
        rec["keys"] = keys[:6]
        if rc == 1 and "VIOLATION property=%s" % args.prop in out:
            rec["status"] = "detected" if passed else "killed-by-tests+detected"
        elif rc == 0:
            rec["status"] = "survived" if passed else "killed-by-tests+survived"
        else:
            rec["status"] = "check-broken"
            rec["tail"] = out[-600:]
            rec["broken"] = [ln[:400] for ln in out.splitlines() if "BROKEN" in ln or "Broken" in ln][:3]
        return rec
    finally:
        open(full, "w").write(orig)
        rec["wall_s"] = round(time.time() - t0, 1)


def main():
    files = [f for f in args.files.split(",") if f] or anchored_files(args.prop)
    cands = []
    for f in files:
        cands += [c for c in candidates(f) if in_ranges(c[0], c[1] + 1)]
    rnd = random.Random(args.seed)
    rnd.shuffle(cands)
    # spread over kinds and files: round-robin by (file, kind)
    buckets = {}
    for c in cands:
        buckets.setdefault((c[0], c[2]), []).append(c)
    order = []
    keys = sorted(buckets)
    rnd.shuffle(keys)
    while len(order) < args.max and any(buckets.values()):
        for k in keys:
            if buckets[k]:
                order.append(buckets[k].pop())
                if len(order) >= args.max:
                    break
    outdir = os.path.join(VERIF, "mutation")
    os.makedirs(outdir, exist_ok=True)
    outpath = os.path.join(outdir, args.prop + ".jsonl")
    done = set()
    if os.path.isfile(outpath):
        for ln in open(outpath):
            d = json.loads(ln)
            done.add((d["file"], d["line"], d["new"]))
    todo = [c for c in order if (c[0], c[1] + 1, c[4].strip()) not in done]
    replaced = set()
    if args.rerun:
        want = set(args.rerun.split(","))
        todo = []
        for ln in open(outpath):
            d = json.loads(ln)
            if d["status"] in want:
                src = open(os.path.join(REPO, d["file"]), errors="replace").read().split("\n")
                cur = src[d["line"] - 1]
                if cur.strip() != d["old"]:
                    print("skip (source moved):", d["file"], d["line"])
                    continue
                indent = re.match(r"^\s*", cur).group(0)
                todo.append((d["file"], d["line"] - 1, d["kind"], cur, indent + d["new"]))
                replaced.add((d["file"], d["line"], d["new"]))
                FIRST[(d["file"], d["line"], d["new"])] = d.get("first_status", d["status"])
        keep = [ln for ln in open(outpath) if (lambda d: (d["file"], d["line"], d["new"]) not in replaced)(json.loads(ln))]
        with open(outpath, "w") as fh:
            fh.writelines(keep)
    q = queue.Queue()
    for c in todo:
        q.put(c)
    lock = threading.Lock()
    counts = {}

    def worker(k):
        wt = prepare_worker(k)
        try:
            while True:
                try:
                    c = q.get_nowait()
                except queue.Empty:
                    return
                rec = run_mutant(wt, c)
                if args.rerun:
                    rec["rerun"] = True
                    rec["first_status"] = FIRST.get((rec["file"], rec["line"], rec["new"]), rec["status"])
                with lock:
                    counts[rec["status"]] = counts.get(rec["status"], 0) + 1
                    with open(outpath, "a") as fh:
                        fh.write(json.dumps(rec) + "\n")
                    print(rec["status"], rec["file"], rec["line"], rec["kind"], "|", rec["new"][:90], flush=True)
        finally:
            sh("git -C %s worktree remove --force %s" % (REPO, wt))
            shutil.rmtree(wt, ignore_errors=True)
            sh("git -C %s worktree prune" % REPO)

    base = int(os.environ.get("MUT_BASE", "0"))
    ths = [threading.Thread(target=worker, args=(base + k,)) for k in range(args.workers)]
    for t in ths:
        t.start()
    for t in ths:
        t.join()
    print("SUMMARY", args.prop, "candidates=%d run=%d" % (len(cands), len(todo)), counts)


main()
