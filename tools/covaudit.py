#!/usr/bin/env python3
"""tools/covaudit.py [IDs...]  -  line-coverage audit of the harnesses (a gap finder, not a check).

Runs the quick tier of the given checks (default: all) with the harnesses built with --coverage and their scratch
directories kept under /tmp/cov, merges the counters with lcov, and lists - per property - the executable lines of the
anchored line ranges (properties.jsonl, anchors.mechanism) that no harness executed.  Output: mutation/coverage_<ID>.txt
and a summary on stdout.  Lines behind the preprocessor that were not compiled do not appear at all (they have no
counters): the report also lists #else / #elif branches inside the anchored ranges."""
import sys, os, re, json, subprocess, shutil, glob
VERIF = os.path.dirname(os.path.dirname(os.path.abspath(__file__)))
REPO = os.environ.get("VERIF_REPO", "/repo")
ids = sys.argv[1:] or ["C%02d" % i for i in range(1, 20)]
base = "/tmp/cov"
shutil.rmtree(base, ignore_errors=True)
os.makedirs(base)
props = {}
for ln in open(os.path.join(VERIF, "properties.jsonl")):
    d = json.loads(ln)
    rs = {}
    for m in d["anchors"]["mechanism"]:
        cur = None
        for tok in re.split(r",\s*", m["where"]):
            mm = re.match(r"^(\S+\.[ch]):(\d+)(?:-(\d+))?", tok)
            if mm:
                cur = mm.group(1); rs.setdefault(cur, []).append((int(mm.group(2)), int(mm.group(3) or mm.group(2))))
            else:
                mm = re.match(r"^(\d+)-(\d+)", tok)
                if mm and cur:
                    rs[cur].append((int(mm.group(1)), int(mm.group(2))))
    props[d["id"]] = rs
for P in ids:
    env = dict(os.environ, VERIF_COV="1", VERIF_KEEP="1", VERIF_TMP=os.path.join(base, P), VERIF_EVIDENCE_DIR=os.path.join(base, P, "_ev"))
    os.makedirs(env["VERIF_TMP"], exist_ok=True)
    r = subprocess.run([os.path.join(VERIF, "bin", "check"), P, "--tier", "quick"], env=env, stdout=subprocess.PIPE, stderr=subprocess.STDOUT, text=True)
    info = os.path.join(base, P + ".info")
    subprocess.run(["lcov", "--capture", "--directory", env["VERIF_TMP"], "--output-file", info, "--quiet", "--rc", "lcov_branch_coverage=0"],
                   stdout=subprocess.PIPE, stderr=subprocess.STDOUT, text=True)
    hits = {}
    cur = None
    if os.path.exists(info):
        for ln in open(info):
            if ln.startswith("SF:"):
                cur = ln[3:].strip()
            elif ln.startswith("DA:") and cur:
                a, b = ln[3:].strip().split(",")[:2]
                k = (cur, int(a))
                hits[k] = hits.get(k, 0) + int(b)
    out = []
    nline = nmiss = 0
    for f, ranges in sorted(props[P].items()):
        full = os.path.join(REPO, f)
        if not os.path.exists(full):
            continue
        src = open(full, errors="replace").read().split("\n")
        for lo, hi in ranges:
            for i in range(max(1, lo - 6), min(len(src), hi + 12) + 1):
                k = (full, i)
                if k in hits:
                    nline += 1
                    if hits[k] == 0:
                        nmiss += 1
                        out.append("%s:%d: never executed: %s" % (f, i, src[i - 1].strip()))
                elif re.match(r"\s*#\s*(else|elif)", src[i - 1]):
                    out.append("%s:%d: preprocessor branch: %s" % (f, i, src[i - 1].strip()))
    os.makedirs(os.path.join(VERIF, "mutation"), exist_ok=True)
    with open(os.path.join(VERIF, "mutation", "coverage_%s.txt" % P), "w") as fh:
        fh.write("\n".join(out) + "\n")
    print("%s check_rc=%d anchored executable lines=%d never executed=%d" % (P, r.returncode, nline, nmiss), flush=True)
    shutil.rmtree(env["VERIF_TMP"], ignore_errors=True)
