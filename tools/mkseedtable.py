#!/usr/bin/env python3
"""Regenerate the seeded-change table of DESIGN.md section 11.5 from seeded/*/meta.json (between the SEEDED-TABLE markers)."""
import json, glob, os, re
ROOT = os.path.dirname(os.path.dirname(os.path.abspath(__file__)))
rows = ["| change | what it changes (author's own words, first line) | detected by | violation keys |", "|---|---|---|---|"]
for d in sorted(glob.glob(os.path.join(ROOT, "seeded", "*", "meta.json"))):
    m = json.load(open(d))
    need = (m.get("needs") or "").strip().split("\n")[0][:140].replace("|", "/")
    det = [r for r in m["ran"] if r["rc"] == 1]
    keys = sorted(set(k for r in det for k in r.get("violation_keys", [])))[:3]
    by = ", ".join("`%s` %.0f s" % (r["cmd"].replace(" --tier quick", ""), r["wall_s"]) for r in det) or "NOT DETECTED"
    rows.append("| %s | %s | %s | %s |" % (m["name"], need, by, ", ".join(keys)))
p = os.path.join(ROOT, "DESIGN.md")
s = open(p).read()
a = s.index("<!-- SEEDED-TABLE -->"); b = s.index("<!-- /SEEDED-TABLE -->")
s = s[:a] + "<!-- SEEDED-TABLE -->\n" + "\n".join(rows) + "\n" + s[b:]
open(p, "w").write(s)
print(len(rows) - 2, "rows")
