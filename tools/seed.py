#!/usr/bin/env python3
"""tools/seed.py <PROP> <srcdir> [name]  -- confirm a seeded change and run the checks against it.

1. scratch worktree of /repo: demo passes on the unchanged tree;
2. patch applies, library builds, ctest 41/41, demo fails;
3. patch applied to a second scratch worktree, `VERIF_REPO=<worktree> bin/check <PROP> --tier quick` run;
4. kept under /verif/seeded/<name>/ with meta.json.
"""
import sys, os, subprocess, json, shutil, time, re, glob
from shlex import quote as shquote
VERIF = os.path.dirname(os.path.dirname(os.path.abspath(__file__)))
prop, src = sys.argv[1], sys.argv[2].rstrip("/")
name = sys.argv[3] if len(sys.argv) > 3 else "%s-%s" % (prop, os.path.basename(src))
checks = sys.argv[4].split(",") if len(sys.argv) > 4 else [prop]
wt = "/tmp/wt/confirm-" + name


def sh(cmd, **kw):
    return subprocess.run(cmd, shell=True, stdout=subprocess.PIPE, stderr=subprocess.STDOUT, text=True, errors="replace", **kw)


def build_and_test():
    r = sh("cd %s && cmake -G Ninja -B _build -DBUILD_TESTING=ON -DCMAKE_BUILD_TYPE=RelWithDebInfo -DCMAKE_C_FLAGS=-Wno-error -DLIBA_CXX=ON >/dev/null 2>&1 && cmake --build _build 2>&1 | tail -3 && ctest --test-dir _build -j8 --timeout 900 2>&1 | tail -4" % wt)
    m = re.search(r"(\d+)% tests passed, (\d+) tests failed out of (\d+)", r.stdout)
    return (m is not None and m.group(2) == "0" and m.group(3) == "41"), r.stdout[-400:]


def header_command(d):
    """the compile+run command the author put at the top of the demo, re-targeted at the confirmation worktree"""
    top = open(d, errors="replace").read(6000)
    lines = top.splitlines()
    for i, ln in enumerate(lines):
        if re.search(r"(^|[\s;&(])(cc|gcc|g\+\+|c\+\+|clang|clang\+\+)\s", ln) and "-o" in " ".join(lines[i:i + 6]):
            j = i
            # include a leading "cd ... && \" line
            if i > 0 and re.search(r"cd\s+\S+.*(&&\s*\\?|\\)\s*$", lines[i - 1]):
                i -= 1
            cmd = []
            k = i
            while k < len(lines):
                t = re.sub(r"^\s*(//+|\*+)?\s*", "", lines[k]).rstrip()
                cmd.append(t.rstrip("\\").strip())
                if not (t.endswith("\\") or t.endswith("&&")):
                    break
                k += 1
            c = " ".join(cmd)
            c = re.sub(r"/tmp/wt\d?/C\d\d", wt, c)
            c = re.sub(r";\s*echo .*$", "", c)
            return c
    return None


def demo():
    d = glob.glob(os.path.join(src, "demo.c*")) + glob.glob(os.path.join(src, "demo.rs"))
    if not d:
        return None, "no demo"
    d = d[0]
    exe = os.path.join(wt, "_demo")
    if d.endswith(".rs"):
        return None, "rust demo: run manually"
    cc = "g++ -std=gnu++17" if d.endswith("pp") else "gcc"
    extra = ""
    top = open(d, errors="replace").read(3000)
    if "fsanitize" in top:
        extra = "-fsanitize=address,undefined -fno-sanitize-recover=all"
    r = sh("%s -w -g -O1 %s -I%s/include -I%s/_build -DA_HAVE_H='\"a.cmake.h\"' -DA_EXPORTS %s %s/src/*.c -lm -o %s" % (cc, extra, wt, wt, d, wt, exe))
    if r.returncode:
        return None, "demo build failed: " + r.stdout[-800:]
    r = sh("timeout 120 " + exe)
    return r.returncode, r.stdout[-600:]


def demo_header():
    d = (glob.glob(os.path.join(src, "demo.c*")) + [None])[0]
    c = header_command(d) if d else None
    if not c:
        return None, "no header command"
    r = sh("cd %s && timeout 300 bash -c %s" % (os.path.dirname(d), shquote(c)))
    return r.returncode, (c + "\n" + r.stdout)[-900:]


meta = {"property": prop, "name": name, "source": "independent sub-agent given only the property text", "ran": []}
sh("git -C /repo worktree remove --force %s" % wt)
sh("git -C /repo worktree add --detach %s HEAD" % wt)
try:
    ok, out = build_and_test(); meta["unchanged_ctest_ok"] = ok
    rc0, out0 = demo(); meta["demo_rc_unchanged"] = rc0
    r = sh("git -C %s apply %s/patch.diff" % (wt, src))
    meta["patch_applies"] = r.returncode == 0
    ok, out = build_and_test(); meta["patched_ctest_ok"] = ok; meta["patched_ctest_tail"] = out
    rc1, out1 = demo(); meta["demo_rc_patched"] = rc1; meta["demo_out_patched"] = out1
    if not (rc0 == 0 and rc1 not in (0, None)):
        # configuration-specific demo: use the author's own command (worktree is patched now; then unpatched)
        rc1b, out1b = demo_header()
        sh("git -C %s apply -R %s/patch.diff" % (wt, src))
        ok0, _ = build_and_test()
        rc0b, out0b = demo_header()
        meta["demo_header_cmd"] = {"rc_unchanged": rc0b, "rc_patched": rc1b, "out_patched": out1b}
        if rc0b == 0 and rc1b not in (0, None):
            rc0, rc1 = rc0b, rc1b
            meta["demo_rc_unchanged"], meta["demo_rc_patched"], meta["demo_out_patched"] = rc0, rc1, out1b
            meta["confirmed_with"] = "the compile command in the demo's header (configuration-specific build)"
finally:
    sh("git -C /repo worktree remove --force %s" % wt)
meta["confirmed"] = bool(meta.get("unchanged_ctest_ok") and meta.get("patched_ctest_ok") and meta.get("patch_applies") and rc0 == 0 and rc1 not in (0, None))
print(json.dumps({k: v for k, v in meta.items() if k not in ("patched_ctest_tail",)}, indent=1))
# run checks against it: in a private worktree (VERIF_REPO), /repo itself is never modified
wt2 = "/tmp/wt/run-" + name
sh("git -C /repo worktree remove --force %s" % wt2)
sh("git -C /repo worktree add --detach %s HEAD" % wt2)
r = sh("git -C %s apply %s/patch.diff" % (wt2, src))
try:
    for c in checks:
        t0 = time.time()
        rr = sh("cd %s && VERIF_REPO=%s VERIF_EVIDENCE_DIR=%s/_evidence timeout 3000 bin/check %s --tier quick" % (VERIF, wt2, wt2, c))
        lines = [l for l in rr.stdout.splitlines() if l.startswith(("VIOLATION", "OK ", "KNOWN", "BROKEN"))]
        meta["ran"].append({"cmd": "bin/check %s --tier quick" % c, "rc": rr.returncode, "wall_s": round(time.time() - t0, 1), "lines": lines[:6],
                            "violation_keys": re.findall(r"violation key=(\S+):", rr.stdout)[:6]})
        print(c, "rc=", rr.returncode, lines[:4]); 
        if rr.returncode != 1:
            print(rr.stdout[-1500:])
finally:
    sh("git -C /repo worktree remove --force %s" % wt2)
meta["detected"] = any(x["rc"] == 1 for x in meta["ran"])
dst = os.path.join(VERIF, "seeded", name)
os.makedirs(dst, exist_ok=True)
for f in os.listdir(src):
    if f.startswith(("patch.diff", "demo.", "README")):
        shutil.copy(os.path.join(src, f), dst)
try:
    meta["needs"] = open(os.path.join(src, "README.txt"), errors="replace").read()[:1500]
except OSError:
    pass
json.dump(meta, open(os.path.join(dst, "meta.json"), "w"), indent=1)
print("confirmed=%s detected=%s -> %s" % (meta["confirmed"], meta["detected"], dst))
