#!/usr/bin/env python3
"""Re-run every seeded change in /verif/seeded against the current /repo tree and the current checks.
usage: tools/reseed.py [name-prefix ...]   -> seeded/REPORT.md, exit 1 if a seeded change is no longer detected"""
import glob, json, os, re, subprocess, sys, time
ROOT = os.path.dirname(os.path.dirname(os.path.abspath(__file__)))
def sh(c, **k): return subprocess.run(c, shell=True, stdout=subprocess.PIPE, stderr=subprocess.STDOUT, text=True, **k)
WT = "/tmp/wt/reseed"
rows, bad = [], 0
for d in sorted(glob.glob(os.path.join(ROOT, "seeded", "C*"))):
    name = os.path.basename(d)
    if sys.argv[1:] and not any(name.startswith(a) for a in sys.argv[1:]):
        continue
    prop = name.split("-")[0]
    patch = os.path.join(d, "patch.diff")
    sh("git -C /repo worktree remove --force %s" % WT)
    sh("git -C /repo worktree add --detach %s HEAD" % WT)
    r = sh("git -C %s apply --check %s" % (WT, patch))
    if r.returncode != 0:
        rows.append((name, "patch does not apply to the current tree", "", "")); bad += 1
        continue
    sh("git -C %s apply %s" % (WT, patch))
    try:
        t = time.time(); r = sh("cd %s && VERIF_REPO=%s VERIF_EVIDENCE_DIR=%s/_evidence bin/check %s --tier quick" % (ROOT, WT, WT, prop), timeout=3600); w = time.time() - t
    finally:
        sh("git -C /repo worktree remove --force %s" % WT)
    keys = sorted(set(re.findall(r"^violation key=(\S+?):? ", r.stdout, re.M)))
    ok = r.returncode == 1 and "VIOLATION property=%s" % prop in r.stdout
    bad += 0 if ok else 1
    rows.append((name, "detected" if ok else "NOT DETECTED (rc %d)" % r.returncode, ", ".join(keys[:4]), "%.0f s" % w))
    print(rows[-1], flush=True)
with open(os.path.join(ROOT, "seeded", "REPORT.md"), "w") as f:
    f.write("| seeded change | result | violation keys | wall |\n|---|---|---|---|\n")
    for r in rows:
        f.write("| %s | %s | %s | %s |\n" % r)
sys.exit(1 if bad else 0)
