#!/usr/bin/env python3
"""tools/mkmuttable.py - regenerate the mutation-campaign tables of DESIGN.md (between <!-- MUTATION-TABLE --> markers)
from /verif/mutation/*.jsonl and /verif/mutation/dispositions.json."""
import json, glob, os, collections, re
VERIF = os.path.dirname(os.path.dirname(os.path.abspath(__file__)))
disp = json.load(open(os.path.join(VERIF, "mutation", "dispositions.json")))


def klass(txt):
    t = txt.lower()
    if t.startswith("gap"):
        return "gap, closed"
    if t.startswith("equivalent"):
        return "equivalent"
    if t.startswith("belongs to"):
        return "other property's code"
    if t.startswith("outside") or t.startswith("property still holds") or t.startswith("accepted by design"):
        return "property holds"
    return "check could not judge"


rows = []
surv = []
tot = collections.Counter()
for p in sorted(glob.glob(os.path.join(VERIF, "mutation", "C*.jsonl"))):
    P = os.path.basename(p)[:3]
    c = collections.Counter()
    first = {}
    for ln in open(p):
        d = json.loads(ln)
        st = d["status"]
        # the first verdict of a mutant (before the extensions it prompted) is what the table counts
        c[d.get("first_status", st)] += 1
        if d.get("first_status", st) in ("survived", "check-broken"):
            key = "%s:%d" % (d["file"], d["line"])
            surv.append((P, d.get("first_status", st), key, d["old"], d["new"], disp.get(key, "(not yet read)"), st if d.get("rerun") else ""))
    rows.append((P, c))
    tot.update(c)
L = ["| property | mutants run | do not compile | killed by the 41 tests | detected by the check | survived | check exited 2 |", "|---|---|---|---|---|---|---|"]
for P, c in rows + [("all", tot)]:
    n = sum(c.values())
    L.append("| %s | %d | %d | %d | %d | %d | %d |" % (P, n, c["noncompiling"], c["killed-by-tests"], c["detected"], c["survived"], c["check-broken"]))
L.append("")
kl = collections.Counter(klass(s[5]) for s in surv)
L.append("Survivors and broken runs by disposition: " + ", ".join("%s %d" % (k, v) for k, v in sorted(kl.items())) + ".")
L.append("")
L.append("| property | site | change | first verdict | disposition | verdict of the re-run against the extended checks |")
L.append("|---|---|---|---|---|---|")
for P, st, key, old, new, dtxt, re_st in surv:
    esc = lambda x: x.replace("|", "\\|")[:70]
    L.append("| %s | `%s` | `%s` -> `%s` | %s | %s | %s |" % (P, key, esc(old), esc(new), st, dtxt.replace("|", "\\|"), re_st))
text = "\n".join(L)
dp = os.path.join(VERIF, "DESIGN.md")
s = open(dp).read()
a, b = "<!-- MUTATION-TABLE -->", "<!-- /MUTATION-TABLE -->"
if a in s and b in s:
    s = s[:s.index(a) + len(a)] + "\n" + text + "\n" + s[s.index(b):]
    open(dp, "w").write(s)
    print("table written:", len(surv), "survivor rows")
else:
    print(text)
