/* Harness for the polynomial-fitting extension (specs/ext/PolyFit*.tla): 1616161 [m, n, x.., y..]. */
#include <stdio.h>
#include <stdlib.h>
#include <string.h>
#include "a/poly.h"
static int parse_ints(char const *s, long *o, int max)
{
    int n = 0;
    while (*s && n < max)
    {
        if ((*s >= '0' && *s <= '9') || (*s == '-' && s[1] >= '0' && s[1] <= '9')) { char *e; o[n++] = strtol(s, &e, 10); s = e; }
        else { ++s; }
    }
    return n;
}
static long as_int(a_real v) { long z = (long)v; return ((a_real)z == v && z > -90000000 && z < 90000000) ? z : 99999999; }
int main(int argc, char **argv)
{
    if (argc < 3) { return 2; }
    FILE *fi = fopen(argv[1], "r"), *f = fopen(argv[2], "w");
    if (!fi || !f) { return 3; }
    static char line[4096];
    long v[64], n_events = 0;
    while (fgets(line, sizeof(line), fi))
    {
        if (!strstr(line, "1616161")) { continue; }
        int cnt = parse_ints(line, v, 64);
        int m = (int)v[1], n = (int)v[2];
        if (cnt != 3 + 2 * m) { fprintf(stderr, "bad line\n"); return 3; }
        a_real *x = (a_real *)malloc(sizeof(a_real) * (size_t)(m ? m : 1)), *y = (a_real *)malloc(sizeof(a_real) * (size_t)(m ? m : 1));
        for (int i = 0; i < m; ++i) { x[i] = (a_real)v[3 + i]; y[i] = (a_real)v[3 + m + i]; }
        a_real *A = (a_real *)malloc(sizeof(a_real) * (size_t)(n * n + 2)), *b = (a_real *)malloc(sizeof(a_real) * (size_t)(n + 2));
        for (int i = 0; i < n * n + 2; ++i) { A[i] = (a_real)-777.5; }
        for (int i = 0; i < n + 2; ++i) { b[i] = (a_real)-777.5; }
        a_poly_xTx((a_uint)m, x, (a_uint)n, A + 1);
        a_poly_xTy((a_uint)m, x, y, (a_uint)n, b + 1);
        int guard = A[0] == (a_real)-777.5 && A[n * n + 1] == (a_real)-777.5 && b[0] == (a_real)-777.5 && b[n + 1] == (a_real)-777.5;
        fprintf(f, "{\"m\":%d,\"n\":%d,\"x\":[", m, n);
        for (int i = 0; i < m; ++i) { fprintf(f, i ? ",%ld" : "%ld", v[3 + i]); }
        fputs("],\"y\":[", f);
        for (int i = 0; i < m; ++i) { fprintf(f, i ? ",%ld" : "%ld", v[3 + m + i]); }
        fputs("],\"xtx\":[", f);
        for (int i = 0; i < n * n; ++i) { fprintf(f, i ? ",%ld" : "%ld", as_int(A[1 + i])); }
        fputs("],\"xty\":[", f);
        for (int i = 0; i < n; ++i) { fprintf(f, i ? ",%ld" : "%ld", as_int(b[1 + i])); }
        fprintf(f, "],\"guard\":%d}\n", guard);
        free(x); free(y); free(A); free(b);
        ++n_events;
    }
    fclose(f);
    printf("SUMMARY {\"events\":%ld}\n", n_events);
    return 0;
}
