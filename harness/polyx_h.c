/* Precision harness for C15 (all three real widths): polynomial evaluation must be carried out in the element type.
 * Coefficients are A_i + m_i * 2^-K with small integers A_i, m_i and K a few bits below the mantissa width of a_real
 * (float 16, double 45, long double 56); evaluation points are small integers.  Every Horner intermediate is then
 * exactly representable in a_real - but not in a narrower type - and the exact result is H + M * 2^-K with the two
 * integer Horner values H (of the A_i) and M (of the m_i), which the trace specification recomputes.
 * The same for position/velocity of a cubic trajectory at its start (documented as exact at time zero). */
#include <stdio.h>
#include <math.h>
#include "a/poly.h"
#include "a/trajpoly3.h"
#include "a/trajpoly5.h"
#include "a/trajpoly7.h"

#if A_SIZE_REAL == 4
#define K 16
#elif A_SIZE_REAL == 8
#define K 45
#else
#define K 56
#endif

static FILE *f;
static void put_split(char const *name, a_real v)
{
    long double lv = (long double)v, h = roundl(lv), m = ldexpl(lv - h, K);
    int exact = (m == roundl(m)) && fabsl(m) < 1e9L && fabsl(h) < 1e9L;
    fprintf(f, ",\"%s\":[%ld,%ld,%d]", name, (long)h, (long)roundl(m), exact);
}

int main(int argc, char **argv)
{
    if (argc < 2) { return 2; }
    f = fopen(argv[1], "w");
    if (!f) { return 3; }
    static int const vals[] = {-1, 0, 1};
    static int const xs[] = {-1, 1, 2};
    long n = 0;
    /* all coefficient vectors of length 1..3 over A, m in {-1,0,1} (A and m chosen independently per position) */
    for (int len = 1; len <= 3; ++len)
    {
        int total = 1;
        for (int i = 0; i < 2 * len; ++i) { total *= 3; }
        for (int code = 0; code < total; ++code)
        {
            int A[3], m[3], c = code;
            for (int i = 0; i < len; ++i) { A[i] = vals[c % 3]; c /= 3; m[i] = vals[c % 3]; c /= 3; }
            a_real a[3];
            for (int i = 0; i < len; ++i) { a[i] = (a_real)A[i] + (a_real)ldexpl((long double)m[i], -K); }
            for (int xi = 0; xi < 3; ++xi)
            {
                fprintf(f, "{\"f\":\"polyx\",\"width\":%d,\"K\":%d,\"A\":[", (int)sizeof(a_real), K);
                for (int i = 0; i < len; ++i) { fprintf(f, i ? ",%d" : "%d", A[i]); }
                fputs("],\"m\":[", f);
                for (int i = 0; i < len; ++i) { fprintf(f, i ? ",%d" : "%d", m[i]); }
                fprintf(f, "],\"x\":%d", xs[xi]);
                put_split("eval", a_poly_eval(a, (a_size)len, (a_real)xs[xi]));
                put_split("evar", a_poly_evar(a, (a_size)len, (a_real)xs[xi]));
                fputs("}\n", f);
                ++n;
            }
        }
    }
    /* a cubic trajectory over a duration of one: position and velocity at the start are the requested p0 and v0 exactly */
    for (int pa = -1; pa <= 1; ++pa) for (int pm = -1; pm <= 1; ++pm) for (int va = -1; va <= 1; ++va) for (int vm = -1; vm <= 1; ++vm)
    {
        a_trajpoly3 t;
        a_real p0 = (a_real)pa + (a_real)ldexpl((long double)pm, -K), v0 = (a_real)va + (a_real)ldexpl((long double)vm, -K);
        a_trajpoly3_gen(&t, 1, p0, 3, v0, -2);
        fprintf(f, "{\"f\":\"trajx\",\"width\":%d,\"K\":%d,\"p\":[%d,%d],\"v\":[%d,%d]", (int)sizeof(a_real), K, pa, pm, va, vm);
        put_split("pos0", a_trajpoly3_pos(&t, 0));
        put_split("vel0", a_trajpoly3_vel(&t, 0));
        fputs("}\n", f);
        ++n;
    }
    /* very short durations 2^-e (far below the machine epsilon, reciprocals far from overflow) with rest-to-rest integer
       positions: every intermediate of the cubic and the quintic is an exact power-of-two multiple, so the end position is
       p1 and the end velocity (and acceleration) zero exactly; the septic divides by six and is held to a few units of 2^-K */
    {
        static int const pp[][2] = {{0, 1}, {2, -1}, {-3, 0}, {1, 3}};
        for (int deg = 3; deg <= 7; deg += 2) for (int ei = 0; ei < 2; ++ei) for (int pi = 0; pi < 4; ++pi)
        {
            int const e = sizeof(a_real) == 4 ? (deg == 3 ? 30 - 5 * ei : deg == 5 ? 22 - ei : 16 - ei) : (ei ? 100 : 60);
            a_real const ts = (a_real)ldexpl(1.0L, -e), p0 = (a_real)pp[pi][0], p1 = (a_real)pp[pi][1];
            a_real posT, velT, accT, pos0;
            if (deg == 3) { a_trajpoly3 t; a_trajpoly3_gen(&t, ts, p0, p1, 0, 0); posT = a_trajpoly3_pos(&t, ts); velT = a_trajpoly3_vel(&t, ts); accT = 0; pos0 = a_trajpoly3_pos(&t, 0); }
            else if (deg == 5) { a_trajpoly5 t; a_trajpoly5_gen(&t, ts, p0, p1, 0, 0, 0, 0); posT = a_trajpoly5_pos(&t, ts); velT = a_trajpoly5_vel(&t, ts); accT = a_trajpoly5_acc(&t, ts); pos0 = a_trajpoly5_pos(&t, 0); }
            else { a_trajpoly7 t; a_trajpoly7_gen(&t, ts, p0, p1, 0, 0, 0, 0, 0, 0); posT = a_trajpoly7_pos(&t, ts); velT = 0; accT = 0; pos0 = a_trajpoly7_pos(&t, 0); }
            fprintf(f, "{\"f\":\"trajtiny\",\"width\":%d,\"K\":%d,\"deg\":%d,\"e\":%d,\"p\":[%d,%d]", (int)sizeof(a_real), K, deg, e, pp[pi][0], pp[pi][1]);
            put_split("posT", posT);
            put_split("velT", velT);
            put_split("accT", accT);
            put_split("pos0", pos0);
            fputs("}\n", f);
            ++n;
        }
    }
    fclose(f);
    printf("SUMMARY {\"events\":%ld}\n", n);
    return 0;
}
