/* Conformance harness for C09 (matrix kernels).  Input: MatKernels output (3030303: kernel code, dims,
 * expected array).  Inputs are rebuilt from the same index coding; outputs live in exactly-sized heap
 * blocks (ASan) with guard cells inside a larger block to detect in-bounds-but-wrong writes too. */
#include <stdio.h>
#include <stdlib.h>
#include <string.h>
#include "a/linalg.h"

static long n_events, n_mismatch;
static FILE *fo[64];
static int nb;
static FILE *out(void) { return fo[(n_events++ / 16) % nb]; }
static int parse_ints(char const *s, long *o, int max)
{
    int n = 0;
    while (*s && n < max)
    {
        if ((*s >= '0' && *s <= '9') || (*s == '-' && s[1] >= '0' && s[1] <= '9'))
        {
            char *e;
            o[n++] = strtol(s, &e, 10);
            s = e;
        }
        else { ++s; }
    }
    return n;
}
static double cx(int v, int r, int c)
{
    switch (v)
    {
    case 1: return 2 + 7 * r + c;
    case 2: return 13 * c - 5 * r - 1;
    case 3: return (r + 2 * c) % 3 == 0 ? 0 : 1 + r + 4 * c;
    default: return c == 0 ? 0 : 5 * r - c - 2;
    }
}
static double cy(int v, int r, int c)
{
    switch (v)
    {
    case 1: return 3 + 2 * r + 11 * c;
    case 2: return 4 - 3 * r + 2 * c;
    case 3: return (2 * r + c) % 3 == 1 ? 0 : 2 + 3 * r - c;
    default: return r == 0 ? 0 : r + c;
    }
}
static double cv(int v, int i)
{
    switch (v)
    {
    case 1: return 5 + 3 * i;
    case 2: return 7 - 4 * i;
    case 3: return i % 2 == 0 ? 0 : i;
    default: return i - 2;
    }
}
/* contents are multiplied by `scale`: 1, or - in the float / long double builds, for the kernels that only move data -
   1 + 2^-20 resp. 1 + 2^-60, so that every element needs the full mantissa of the element type */
static a_real scale = 1;
static long n_scaled;
static a_real *mat(int m, int n, int v, int which)
{
    a_real *p = (a_real *)malloc(sizeof(a_real) * (size_t)(m * n ? m * n : 1));
    for (int r = 0; r < m; ++r)
    {
        for (int c = 0; c < n; ++c) { p[r * n + c] = (a_real)(which ? cy(v, r, c) : cx(v, r, c)) * scale; }
    }
    return p;
}
#define GUARD 8
#define GVAL ((a_real)-77777.25)

int main(int argc, char **argv)
{
    if (argc < 4) { fprintf(stderr, "usage: %s <tlc-output> <out-prefix> <batches>\n", argv[0]); return 2; }
    FILE *fi = fopen(argv[1], "r");
    if (!fi) { perror(argv[1]); return 3; }
    nb = atoi(argv[3]);
    if (nb > 64) { nb = 64; }
    char name[512];
    for (int i = 0; i < nb; ++i)
    {
        snprintf(name, sizeof(name), "%s-%04d.ndjson", argv[2], i);
        fo[i] = fopen(name, "w");
        if (!fo[i]) { perror(name); return 3; }
    }
    static char line[1 << 14];
    static long v[2048];
    while (fgets(line, sizeof(line), fi))
    {
        if (!strstr(line, "3030303")) { continue; }
        int n = parse_ints(line, v, 2048);
        int k = (int)v[1], a = (int)v[2], b = (int)v[3], c = (int)v[4], var = (int)v[5], ne = (int)v[6];
        if (n != 7 + ne) { fprintf(stderr, "bad line\n"); return 3; }
        long const *exp = v + 7;
        /* kernels that only move data (transposes, diagonal and triangular extraction / construction without unit entries) */
        int const moves = k == 5 || k == 6 || k == 11 || k == 12 || k == 13 || k == 14 || k == 16 || k == 17 || k == 19;
        scale = (moves && sizeof(a_real) != 8) ? (a_real)1 + (a_real)ldexpl(1.0L, sizeof(a_real) == 4 ? -20 : -60) : (a_real)1;
        a_real *X = NULL, *Y = NULL;
        /* result array: guard cells on both sides inside the block, and the block itself exactly sized */
        a_real *blk = (a_real *)malloc(sizeof(a_real) * (size_t)(ne + 2 * GUARD));
        a_real *Z = blk + GUARD;
        for (int i = 0; i < ne + 2 * GUARD; ++i) { blk[i] = GVAL; }
        a_real *vec = NULL;
        switch (k)
        {
        case 1: X = mat(a, b, var, 0); Y = mat(b, c, var, 1); a_real_mulmm((a_uint)a, (a_uint)b, (a_uint)c, X, Y, Z); break;
        case 2: X = mat(a, b, var, 0); Y = mat(a, c, var, 1); a_real_mulTm((a_uint)a, (a_uint)b, (a_uint)c, X, Y, Z); break;
        case 3: X = mat(a, c, var, 0); Y = mat(b, c, var, 1); a_real_mulmT((a_uint)a, (a_uint)b, (a_uint)c, X, Y, Z); break;
        case 4: X = mat(b, a, var, 0); Y = mat(c, b, var, 1); a_real_mulTT((a_uint)a, (a_uint)b, (a_uint)c, X, Y, Z); break;
        case 5: X = mat(a, a, var, 0); memcpy(Z, X, sizeof(a_real) * (size_t)(a * a)); a_real_T1((a_uint)a, Z); break;
        case 6: X = mat(a, b, var, 0); a_real_T2((a_uint)a, (a_uint)b, X, Z); break;
        case 7: a_real_eye1((a_uint)a, Z); break;
        case 8: a_real_eye2((a_uint)a, (a_uint)b, Z); break;
        case 9: a_real_tri1((a_uint)a, Z); break;
        case 10: a_real_tri2((a_uint)a, (a_uint)b, Z); break;
        case 11:
            vec = (a_real *)malloc(sizeof(a_real) * (size_t)a);
            for (int i = 0; i < a; ++i) { vec[i] = (a_real)cv(var, i + 1) * scale; }
            a_real_diag((a_uint)a, vec, Z);
            break;
        case 12: X = mat(a, a, var, 0); a_real_diag1((a_uint)a, X, Z); break;
        case 13: X = mat(a, b, var, 0); a_real_diag2((a_uint)a, (a_uint)b, X, Z); break;
        case 14: X = mat(a, a, var, 0); a_real_triL((a_uint)a, X, Z); break;
        case 15: X = mat(a, a, var, 0); a_real_triL1((a_uint)a, X, Z); break;
        case 16: X = mat(a, b, var, 0); a_real_triL2((a_uint)a, (a_uint)b, X, Z); break;
        case 17: X = mat(a, a, var, 0); a_real_triU((a_uint)a, X, Z); break;
        case 18: X = mat(a, a, var, 0); a_real_triU1((a_uint)a, X, Z); break;
        case 19: X = mat(a, b, var, 0); a_real_triU2((a_uint)a, (a_uint)b, X, Z); break;
        default: fprintf(stderr, "unknown kernel\n"); return 3;
        }
        int guard = 1;
        for (int i = 0; i < GUARD; ++i)
        {
            if (blk[i] != GVAL || blk[GUARD + ne + i] != GVAL) { guard = 0; }
        }
        int ok = guard;
        FILE *f = out();
        fprintf(f, "{\"k\":%d,\"dims\":[%d,%d,%d,%d],\"guard\":%d,\"out\":[", k, a, b, c, var, guard);
        for (int i = 0; i < ne; ++i)
        {
            a_real z = Z[i];
            /* the value in units of `scale` (an integer for every correct result) */
            long zi = (long)roundl((long double)z / (long double)scale);
            if ((a_real)zi * scale != z || zi > 100000000 || zi < -100000000) { zi = 99999999; } /* not a multiple: cannot equal the definition */
            fprintf(f, i ? ",%ld" : "%ld", zi);
            if (z != (a_real)exp[i] * scale) { ok = 0; }
        }
        fputs("]}\n", f);
        if (!ok)
        {
            if (n_mismatch++ < 10) { printf("MISMATCH {\"k\":%d,\"dims\":[%d,%d,%d,%d],\"guard\":%d}\n", k, a, b, c, var, guard); }
        }
        /* products again with one operand scaled by 2^-70 and the other by 2^70 (exact in every element type): the
           mathematical product is the same array, whatever the magnitudes of the factors */
        if (k <= 4)
        {
            for (int pass = 1; pass <= 2; ++pass)
            {
                a_real const sx = (a_real)ldexpl(1.0L, pass == 1 ? -70 : 70), sy = (a_real)ldexpl(1.0L, pass == 1 ? 70 : -70);
                size_t const nx = (size_t)(a * b ? a * b : 1), ny = (size_t)(b * c ? b * c : 1);
                size_t const nX = k == 1 ? nx : k == 2 ? (size_t)(a * b ? a * b : 1) : k == 3 ? (size_t)(a * c ? a * c : 1) : nx;
                size_t const nY = k == 1 ? ny : k == 2 ? (size_t)(a * c ? a * c : 1) : k == 3 ? (size_t)(b * c ? b * c : 1) : ny;
                for (size_t i = 0; i < nX; ++i) { X[i] *= sx; if (pass == 2) { X[i] *= sx; } }
                for (size_t i = 0; i < nY; ++i) { Y[i] *= sy; if (pass == 2) { Y[i] *= sy; } }
                for (int i = 0; i < ne + 2 * GUARD; ++i) { blk[i] = GVAL; }
                switch (k)
                {
                case 1: a_real_mulmm((a_uint)a, (a_uint)b, (a_uint)c, X, Y, Z); break;
                case 2: a_real_mulTm((a_uint)a, (a_uint)b, (a_uint)c, X, Y, Z); break;
                case 3: a_real_mulmT((a_uint)a, (a_uint)b, (a_uint)c, X, Y, Z); break;
                default: a_real_mulTT((a_uint)a, (a_uint)b, (a_uint)c, X, Y, Z); break;
                }
                int ok2 = 1;
                for (int i = 0; i < ne; ++i) { if (Z[i] != (a_real)exp[i]) { ok2 = 0; } }
                for (int i = 0; i < GUARD; ++i) { if (blk[i] != GVAL || blk[GUARD + ne + i] != GVAL) { ok2 = 0; } }
                if (!ok2 && n_mismatch++ < 10) { printf("MISMATCH {\"k\":%d,\"dims\":[%d,%d,%d,%d],\"guard\":%d,\"scaled_pass\":%d}\n", k, a, b, c, var, guard, pass); }
                ++n_scaled;
            }
        }
        free(X); free(Y); free(vec); free(blk);
    }
    for (int i = 0; i < nb; ++i) { fclose(fo[i]); }
    printf("SUMMARY {\"events\":%ld,\"mismatch\":%ld,\"scaled\":%ld}\n", n_events, n_mismatch, n_scaled);
    return 0;
}
