/* Conformance harness for C13 (membership functions, fuzzy operators, gain scheduling) and the fuzzy /
 * single-neuron parts of C12.  Input: FuzzyMC output (4040404 membership cases).  Emits ndjson. */
#include <stdio.h>
#include <stdlib.h>
#include <string.h>
#include "a/mf.h"
#include "a/fuzzy.h"
#include "a/pid_fuzzy.h"
#include "a/pid_neuro.h"
#include "num.h"

static long n_events, n_mf, n_opr, n_ctl;
static FILE *fo[64];
static int nb;
static FILE *out(void) { return fo[(n_events++ / 64) % nb]; }
static int parse_ints(char const *s, long *o, int max)
{
    int n = 0;
    while (*s && n < max)
    {
        if ((*s >= '0' && *s <= '9') || (*s == '-' && s[1] >= '0' && s[1] <= '9'))
        {
            char *e;
            o[n++] = strtol(s, &e, 10);
            s = e;
        }
        else { ++s; }
    }
    return n;
}
static char const *kname[] = {"?", "tri", "trap", "lins", "linz", "s", "z", "pi"};
static unsigned int kenum[] = {0, A_MF_TRI, A_MF_TRAP, A_MF_LINS, A_MF_LINZ, A_MF_S, A_MF_Z, A_MF_PI};
static double mf_direct(int k, double x, double const *p)
{
    switch (k)
    {
    case 1: return a_mf_tri(x, p[0], p[1], p[2]);
    case 2: return a_mf_trap(x, p[0], p[1], p[2], p[3]);
    case 3: return a_mf_lins(x, p[0], p[1]);
    case 4: return a_mf_linz(x, p[0], p[1]);
    case 5: return a_mf_s(x, p[0], p[1]);
    case 6: return a_mf_z(x, p[0], p[1]);
    default: return a_mf_pi(x, p[0], p[1], p[2], p[3]);
    }
}
static void put_ords(FILE *f, double const *v, int n)
{
    fputc('[', f);
    for (int i = 0; i < n; ++i)
    {
        if (i) { fputc(',', f); }
        put_ordered(f, v[i]);
    }
    fputc(']', f);
}

/* smooth families: a sweep over an increasing grid, judged relationally */
static void sweep(char const *kind, unsigned int e, double const *p, int np, double lo, double hi, int pk1, int pk2)
{
    double xs[41], ys[41], ds[41];
    for (int i = 0; i <= 40; ++i)
    {
        xs[i] = lo + (hi - lo) * i / 40.0;
        ds[i] = a_mf(e, xs[i], p);
        switch (e)
        {
        case A_MF_GAUSS: ys[i] = a_mf_gauss(xs[i], p[0], p[1]); break;
        case A_MF_GAUSS2: ys[i] = a_mf_gauss2(xs[i], p[0], p[1], p[2], p[3]); break;
        case A_MF_GBELL: ys[i] = a_mf_gbell(xs[i], p[0], p[1], p[2]); break;
        case A_MF_SIG: ys[i] = a_mf_sig(xs[i], p[0], p[1]); break;
        case A_MF_DSIG: ys[i] = a_mf_dsig(xs[i], p[0], p[1], p[2], p[3]); break;
        default: ys[i] = a_mf_psig(xs[i], p[0], p[1], p[2], p[3]); break;
        }
    }
    FILE *f = out();
    fprintf(f, "{\"f\":\"sweep\",\"kind\":\"%s\",\"peak\":[%d,%d],\"p\":", kind, pk1, pk2);
    put_dyadics(f, p, np);
    fputs(",\"xs\":", f);
    put_ords(f, xs, 41);
    fputs(",\"ys\":", f);
    put_ords(f, ys, 41);
    fputs(",\"disp\":", f);
    put_ords(f, ds, 41);
    fputs("}\n", f);
}

/* fuzzy PID scenario: 3 triangular sets on e and ec, integer rule tables, scratch buffer between canaries */
static a_real const me3[] = {A_MF_TRI, -4, -2, 0, A_MF_TRI, -2, 0, 2, A_MF_TRI, 0, 2, 4};
static a_real const mkp3[] = {1, 2, 3, 2, 4, -1, 0, -2, 5};
static a_real const mki3[] = {0, 1, 0, 1, 2, 1, 0, 1, 3};
static a_real const mkd3[] = {2, 0, -2, 0, 1, 0, -2, 0, 2};
static unsigned int const oprs[] = {A_PID_FUZZY_EQU, A_PID_FUZZY_CAP, A_PID_FUZZY_CAP_ALGEBRA, A_PID_FUZZY_CAP_BOUNDED, A_PID_FUZZY_CUP, A_PID_FUZZY_CUP_ALGEBRA, A_PID_FUZZY_CUP_BOUNDED};

static void fuzzy_scenario(int oi, int mode, int const *sets, int const *fdbs, int n)
{
    a_pid_fuzzy ctx;
    unsigned char raw[64 + A_PID_FUZZY_BFUZZ(2) + 64];
    memset(raw, 0xC3, sizeof(raw));
    memset(&ctx, 0, sizeof(ctx));
    ctx.pid.summax = 6; ctx.pid.summin = -6; ctx.pid.outmax = 10; ctx.pid.outmin = -10;
    a_pid_fuzzy_set_opr(&ctx, oprs[oi]);
    a_pid_fuzzy_set_rule(&ctx, 3, me3, me3, mkp3, mki3, mkd3);
    a_pid_fuzzy_set_kpid(&ctx, 2, 1, 1);
    a_pid_fuzzy_set_bfuzz(&ctx, raw + 64, 2);
    a_pid_fuzzy_zero(&ctx);
    FILE *f = out();
    fprintf(f, "{\"f\":\"fpid\",\"width\":%d,\"opr\":%d,\"mode\":%d,\"base\":[2,1,1],\"lim\":[-6,6,-10,10],\"steps\":[", (int)sizeof(a_real), oi, mode);
    double outs[16], outs2[16];
    for (int pass = 0; pass < 2; ++pass)
    {
        for (int i = 0; i < n; ++i)
        {
            double set = sets[i] / 2.0, fdb = fdbs[i] / 2.0, o;
            o = mode == 0 ? a_pid_fuzzy_run(&ctx, set, fdb) : mode == 1 ? a_pid_fuzzy_pos(&ctx, set, fdb) : a_pid_fuzzy_inc(&ctx, set, fdb);
            if (pass == 0)
            {
                outs[i] = o;
                fprintf(f, i ? ",{\"set\":" : "{\"set\":");
                put_dyadic(f, set);
                fputs(",\"fdb\":", f);
                put_dyadic(f, fdb);
                fputs(",\"kp\":", f);
                put_value(f, ctx.pid.kp);
                fputs(",\"ki\":", f);
                put_value(f, ctx.pid.ki);
                fputs(",\"kd\":", f);
                put_value(f, ctx.pid.kd);
                fputs(",\"out\":", f);
                put_ordered(f, o);
                fputs(",\"sum\":", f);
                put_ordered(f, ctx.pid.sum);
                fputc('}', f);
            }
            else { outs2[i] = o; }
        }
        if (pass == 0) { a_pid_fuzzy_zero(&ctx); }
    }
    int canary = 1;
    for (int i = 0; i < 64; ++i)
    {
        if (raw[i] != 0xC3 || raw[64 + A_PID_FUZZY_BFUZZ(2) + i] != 0xC3) { canary = 0; }
    }
    fputs("],\"outs\":", f);
    put_ords(f, outs, n);
    fputs(",\"outs_after_zero\":", f);
    put_ords(f, outs2, n);
    fputs(",\"lim_codes\":[", f);
    put_ordered(f, -10.0);
    fputc(',', f);
    put_ordered(f, 10.0);
    fprintf(f, "],\"canary\":%d}\n", canary);
    ++n_ctl;
}

/* membership-table scenario: every kind of set as the FIRST entry of a table, followed by two triangles.
 * Parameters are steep and the inputs (0, 1, 3, 4) sit where every membership is an exact dyadic number
 * (0 / inactive, 1/4, 1/2 or 1), so the scheduled gains have exact rational expectations computed from the
 * memberships the public dispatcher a_mf reports for each table entry. */
typedef struct { int kind; int np; a_real p[4]; } setdef;
static setdef const kinds[] = {
    {A_MF_GAUSS, 2, {0.0625, 0}}, {A_MF_GAUSS2, 4, {0.125, -1, 0.125, 1}}, {A_MF_GBELL, 3, {0.01, 8, 0}}, {A_MF_SIG, 2, {40, 0}},
    {A_MF_DSIG, 4, {40, -1, 40, 1}}, {A_MF_PSIG, 4, {40, -1, -40, 1}}, {A_MF_TRAP, 4, {-1, -0.5, 0.5, 1}}, {A_MF_TRI, 3, {-1, 0, 1}},
    {A_MF_LINS, 2, {-1, 1}}, {A_MF_LINZ, 2, {-1, 1}}, {A_MF_S, 2, {-1, 1}}, {A_MF_Z, 2, {-1, 1}}, {A_MF_PI, 4, {-2, -1, 1, 2}},
};
#define NKINDS ((int)(sizeof(kinds) / sizeof(kinds[0])))
static int build_table(a_real *t, setdef const *first)
{
    int n = 0;
    t[n++] = (a_real)first->kind;
    for (int i = 0; i < first->np; ++i) { t[n++] = first->p[i]; }
    t[n++] = A_MF_TRI; t[n++] = 0; t[n++] = 2; t[n++] = 4;
    t[n++] = A_MF_TRI; t[n++] = 2; t[n++] = 4; t[n++] = 6;
    return n;
}
/* membership of entry i of such a table, through the public dispatcher; "inactive" (<= epsilon) reported as 0 */
static double table_mu(setdef const *first, int i, double x)
{
    static a_real const t1[] = {0, 2, 4}, t2[] = {2, 4, 6};
    double y = i == 0 ? (double)a_mf((unsigned int)first->kind, (a_real)x, first->p) : (double)a_mf(A_MF_TRI, (a_real)x, i == 1 ? t1 : t2);
    return y > (double)A_REAL_EPSILON ? y : 0;
}
/* tiny = 1: the error sits a hair inside the foot of the first set (membership 2^-12 for float, 2^-27 otherwise:
   active, and in the float and double builds the product of two such grades is below machine epsilon; a grade small enough
   for that in the long double build has no 32-bit rational code) and stays there */
static void table_scenario_(int oi, int mode, int ke, int kec, int tiny)
{
    static double const sets0[] = {0, 3, 3, 0, 1, 1, 4, 4};
    double sets[8];
    int const n = tiny == 1 ? 2 : 8;
    /* tiny = 2: half-integer errors on both flanks of the first set (piecewise-polynomial kinds only: their grades there
       are exact dyadic numbers) */
    static double const sets2[] = {-2.5, -1.5, -0.5, 0.5, 1.5, 2.5, 1.5, 0.5};
    for (int i = 0; i < 8; ++i) { sets[i] = tiny == 2 ? sets2[i] : tiny ? -1 + ldexp(1.0, sizeof(a_real) == 4 ? -12 : -27) : sets0[i]; }
    a_pid_fuzzy ctx;
    a_real te[16], tec[16];
    unsigned char raw[64 + A_PID_FUZZY_BFUZZ(3) + 64];
    memset(raw, 0xC3, sizeof(raw));
    memset(&ctx, 0, sizeof(ctx));
    build_table(te, &kinds[ke]);
    build_table(tec, &kinds[kec]);
    ctx.pid.summax = 6; ctx.pid.summin = -6; ctx.pid.outmax = 10; ctx.pid.outmin = -10;
    a_pid_fuzzy_set_opr(&ctx, oprs[oi]);
    a_pid_fuzzy_set_rule(&ctx, 3, te, tec, mkp3, mki3, mkd3);
    a_pid_fuzzy_set_kpid(&ctx, 2, 1, 1);
    a_pid_fuzzy_set_bfuzz(&ctx, raw + 64, 3);
    a_pid_fuzzy_zero(&ctx);
    FILE *f = out();
    fprintf(f, "{\"f\":\"fpidk\",\"width\":%d,\"opr\":%d,\"mode\":%d,\"ke\":%d,\"kec\":%d,\"base\":[2,1,1],\"steps\":[", (int)sizeof(a_real), oi, mode, kinds[ke].kind, kinds[kec].kind);
    double prev = 0;
    for (int i = 0; i < n; ++i)
    {
        double set = sets[i], e = set, ec = e - prev, o;
        prev = e;
        o = mode == 1 ? a_pid_fuzzy_pos(&ctx, (a_real)set, 0) : a_pid_fuzzy_inc(&ctx, (a_real)set, 0);
        fprintf(f, i ? ",{\"mue\":[" : "{\"mue\":[");
        for (int k = 0; k < 3; ++k) { if (k) { fputc(',', f); } put_dyadic(f, table_mu(&kinds[ke], k, e)); }
        fputs("],\"muec\":[", f);
        for (int k = 0; k < 3; ++k) { if (k) { fputc(',', f); } put_dyadic(f, table_mu(&kinds[kec], k, ec)); }
        fputs("],\"kp\":", f); put_value(f, ctx.pid.kp);
        fputs(",\"ki\":", f); put_value(f, ctx.pid.ki);
        fputs(",\"kd\":", f); put_value(f, ctx.pid.kd);
        fputs(",\"out\":", f); put_ordered(f, o);
        fputc('}', f);
    }
    int canary = 1;
    for (int i = 0; i < 64; ++i)
    {
        if (raw[i] != 0xC3 || raw[64 + A_PID_FUZZY_BFUZZ(3) + i] != 0xC3) { canary = 0; }
    }
    if (a_pid_fuzzy_bfuzz(&ctx) != (void *)(raw + 64)) { canary = 0; } /* the getter reports the buffer that was set */
    fprintf(f, "],\"canary\":%d,\"lim_codes\":[", canary);
    put_ordered(f, -10.0);
    fputc(',', f);
    put_ordered(f, 10.0);
    fputs("]}\n", f);
    ++n_ctl;
}
static void table_scenario(int oi, int mode, int ke, int kec) { table_scenario_(oi, mode, ke, kec, 0); }

static void neuro_scenario(int mode, int wset, int const *sets, int const *fdbs, int n)
{
    a_pid_neuro ctx, fresh;
    memset(&ctx, 0, sizeof(ctx));
    ctx.pid.summax = 6; ctx.pid.summin = -6; ctx.pid.outmax = 10; ctx.pid.outmin = -10;
    a_pid_neuro_set_kpid(&ctx, 4, 1, 0.5, 0.25);
    /* weight sets: ordinary, all zero ("learn from scratch": the normalisation divides by |wp|+|wi|+|wd|), mixed signs */
    if (wset == 0) { a_pid_neuro_set_wpid(&ctx, 0.5, 0.25, 0.125); }
    else if (wset == 1) { a_pid_neuro_set_wpid(&ctx, 0, 0, 0); }
    else { a_pid_neuro_set_wpid(&ctx, -0.5, 0.25, 0); }
    a_pid_neuro_zero(&ctx);
    double outs[16], outs2[16], outs3[16], st[16][3];
    for (int i = 0; i < n; ++i)
    {
        outs[i] = mode == 0 ? a_pid_neuro_run(&ctx, sets[i] / 2.0, fdbs[i] / 2.0) : a_pid_neuro_inc(&ctx, sets[i] / 2.0, fdbs[i] / 2.0);
        st[i][0] = ctx.wp; st[i][1] = ctx.wi; st[i][2] = ctx.wd;
    }
    a_pid_neuro_zero(&ctx);
    fresh = ctx; /* a freshly initialised controller with the same (learned) weights */
    fresh.pid.sum = 0;
    fresh.pid.out = fresh.pid.var = fresh.pid.fdb = fresh.pid.err = 0;
    fresh.ec = 0;
    for (int i = 0; i < n; ++i)
    {
        outs2[i] = mode == 0 ? a_pid_neuro_run(&ctx, sets[i] / 2.0, fdbs[i] / 2.0) : a_pid_neuro_inc(&ctx, sets[i] / 2.0, fdbs[i] / 2.0);
        outs3[i] = mode == 0 ? a_pid_neuro_run(&fresh, sets[i] / 2.0, fdbs[i] / 2.0) : a_pid_neuro_inc(&fresh, sets[i] / 2.0, fdbs[i] / 2.0);
    }
    FILE *f = out();
    fprintf(f, "{\"f\":\"npid\",\"mode\":%d,\"wset\":%d,\"lim\":[-10,10],\"outs\":", mode, wset);
    put_ords(f, outs, n);
    fputs(",\"weights\":[", f);
    for (int i = 0; i < n; ++i)
    {
        if (i) { fputc(',', f); }
        put_ords(f, st[i], 3);
    }
    fputs("],\"outs_after_zero\":", f);
    put_ords(f, outs2, n);
    fputs(",\"outs_fresh\":", f);
    put_ords(f, outs3, n);
    fputs(",\"lim_codes\":[", f);
    put_ordered(f, -10.0);
    fputc(',', f);
    put_ordered(f, 10.0);
    fputs("]}\n", f);
    ++n_ctl;
}

/* the single-neuron controller with its learning rates at zero (constant weights whose magnitudes add up to a power of
   two) and dyadic inputs: every quantity of the documented output equation
   u(k) = u(k-1) + K (wp xp + wi xi + wd xd) / (|wp| + |wi| + |wd|), clamped to the output limits, is exact */
static long n_learn, n_learn_inrange;
static void neuro_exact(int kset, int wset, int const *sets, int const *fdbs, int n)
{
    static double const ks[] = {1, 0.5, 2};
    static double const ws[][3] = {{0.5, 0.25, 0.25}, {-0.5, 0.25, 0.25}, {0.25, -0.5, -0.25}, {1, -2, 1}, {-1, -0.5, -0.5}, {0.125, 0.125, -0.25}};
    a_pid_neuro ctx;
    memset(&ctx, 0, sizeof(ctx));
    ctx.pid.summax = 6; ctx.pid.summin = -6; ctx.pid.outmax = 10; ctx.pid.outmin = -10;
    a_pid_neuro_set_kpid(&ctx, (a_real)ks[kset], 0, 0, 0);
    a_pid_neuro_set_wpid(&ctx, (a_real)ws[wset][0], (a_real)ws[wset][1], (a_real)ws[wset][2]);
    a_pid_neuro_zero(&ctx);
    FILE *f = out();
    fprintf(f, "{\"f\":\"npidx\",\"width\":%d,\"k\":", (int)sizeof(a_real));
    put_dyadic(f, ks[kset]);
    fputs(",\"w\":[", f);
    for (int i = 0; i < 3; ++i) { if (i) { fputc(',', f); } put_dyadic(f, ws[wset][i]); }
    fputs("],\"lim\":[-10,10],\"steps\":[", f);
    for (int i = 0; i < n; ++i)
    {
        double o = (double)a_pid_neuro_inc(&ctx, (a_real)(sets[i] / 2.0), (a_real)(fdbs[i] / 2.0));
        fprintf(f, i ? ",{\"set\":" : "{\"set\":");
        put_dyadic(f, sets[i] / 2.0);
        fputs(",\"fdb\":", f); put_dyadic(f, fdbs[i] / 2.0);
        fputs(",\"out\":", f); put_dyadic(f, o);
        fputs(",\"w\":[", f);
        put_dyadic(f, (double)ctx.wp); fputc(',', f); put_dyadic(f, (double)ctx.wi); fputc(',', f); put_dyadic(f, (double)ctx.wd);
        fputs("]}", f);
    }
    fputs("]}\n", f);
    ++n_ctl;
}

/* the single-neuron controller with learning switched on (rates 1/32, 1/64, 1/64, K = 1, limits +-4, inputs in halves):
   outputs and weights are logged in units of 1/256 (rounded), and the trace specification re-derives every step from the
   logged values of the step before within the rounding of that unit:
     w(k) = w(k-1) + eta e(k) u(k-1) x(k-1)      (x = the three inputs as they stood after the previous step)
     u(k) = clamp(u(k-1) + K (wp xp + wi xi + wd xd)(k) / (|wp|+|wi|+|wd|)(k)) */
static void neuro_learn(int wset, int const *sets, int const *fdbs, int n)
{
    static double const ws[][3] = {{0.5, 0.25, 0.125}, {-0.5, 0.25, 0.5}, {0.25, -0.75, 0.25}, {1, 1, -1}};
    a_pid_neuro ctx;
    memset(&ctx, 0, sizeof(ctx));
    ctx.pid.summax = 6; ctx.pid.summin = -6; ctx.pid.outmax = 4; ctx.pid.outmin = -4;
    a_pid_neuro_set_kpid(&ctx, 1, (a_real)(1.0 / 32), (a_real)(1.0 / 64), (a_real)(1.0 / 64));
    a_pid_neuro_set_wpid(&ctx, (a_real)ws[wset][0], (a_real)ws[wset][1], (a_real)ws[wset][2]);
    a_pid_neuro_zero(&ctx);
    FILE *f = out();
    int inrange = 1;
    fprintf(f, "{\"f\":\"npidl\",\"width\":%d,\"sh\":[5,6,6],\"lim\":4,\"w0\":[%ld,%ld,%ld],\"steps\":[", (int)sizeof(a_real),
            lround(ws[wset][0] * 256), lround(ws[wset][1] * 256), lround(ws[wset][2] * 256));
    for (int i = 0; i < n; ++i)
    {
        double o = (double)a_pid_neuro_inc(&ctx, (a_real)(sets[i] / 2.0), (a_real)(fdbs[i] / 2.0));
        double w[3] = {(double)ctx.wp, (double)ctx.wi, (double)ctx.wd};
        if (!(fabs(w[0]) < 60) || !(fabs(w[1]) < 60) || !(fabs(w[2]) < 60)) { inrange = 0; }
        /* the output is logged in any case (clipped to +-100 for the integer code; not finite = 30000): the limits are judged always */
        fprintf(f, "%s{\"e2\":%d,\"u\":%ld,\"w\":[%ld,%ld,%ld]}", i ? "," : "", sets[i] - fdbs[i], !isfinite(o) ? 30000L : lround((o > 100 ? 100 : o < -100 ? -100 : o) * 256),
                inrange ? lround(w[0] * 256) : 0, inrange ? lround(w[1] * 256) : 0, inrange ? lround(w[2] * 256) : 0);
    }
    fprintf(f, "],\"inrange\":%d}\n", inrange);
    ++n_ctl;
    n_learn_inrange += inrange;
    ++n_learn;
}

int main(int argc, char **argv)
{
    if (argc < 5) { fprintf(stderr, "usage: %s <tlc-output> <out-prefix> <batches> <seed>\n", argv[0]); return 2; }
    FILE *fi = fopen(argv[1], "r");
    if (!fi) { perror(argv[1]); return 3; }
    nb = atoi(argv[3]);
    if (nb > 64) { nb = 64; }
    char name[512];
    for (int i = 0; i < nb; ++i)
    {
        snprintf(name, sizeof(name), "%s-%04d.ndjson", argv[2], i);
        fo[i] = fopen(name, "w");
        if (!fo[i]) { perror(name); return 3; }
    }
    static char line[1 << 12];
    long v[64];
    /* other real widths: controller scenarios only (membership cases and operators are judged with exact expectations
       in the default width) */
    if (sizeof(a_real) != sizeof(double)) { goto controllers; }
    while (fgets(line, sizeof(line), fi))
    {
        if (!strstr(line, "4040404")) { continue; }
        int n = parse_ints(line, v, 64);
        int k = (int)v[1], np = (int)v[3];
        if (n != 4 + np + 2 || k < 1 || k > 7) { fprintf(stderr, "bad mf line\n"); return 3; }
        double p[4], x = (double)v[2] / 4.0;
        for (int i = 0; i < np; ++i) { p[i] = (double)v[4 + i]; }
        FILE *f = out();
        fprintf(f, "{\"f\":\"mf\",\"kind\":\"%s\",\"xi\":%ld,\"p\":[", kname[k], v[2]);
        for (int i = 0; i < np; ++i) { fprintf(f, i ? ",%ld" : "%ld", v[4 + i]); }
        fputs("],\"y\":", f);
        put_value(f, mf_direct(k, x, p));
        fputs(",\"disp\":", f);
        put_value(f, a_mf(kenum[k], x, p));
        fputs("}\n", f);
        ++n_mf;
    }
    /* operators on the grid of eighths */
    for (int a = 0; a <= 8; ++a)
    {
        for (int b = 0; b <= 8; ++b)
        {
            double x = a / 8.0, y = b / 8.0;
            double r[7] = {a_fuzzy_cap(x, y), a_fuzzy_cap_algebra(x, y), a_fuzzy_cap_bounded(x, y), a_fuzzy_cup(x, y), a_fuzzy_cup_algebra(x, y), a_fuzzy_cup_bounded(x, y), a_fuzzy_equ(x, y)};
            double rr = a_fuzzy_equ(y, x), rn = a_fuzzy_not(x);
            FILE *f = out();
            fprintf(f, "{\"f\":\"opr\",\"a\":%d,\"b\":%d,\"r\":", a, b);
            put_dyadics(f, r, 6);
            fputs(",\"equ\":", f);
            put_ordered(f, r[6]);
            fputs(",\"equ_swapped\":", f);
            put_ordered(f, rr);
            fputs(",\"equ_next_a\":", f);
            put_ordered(f, a < 8 ? a_fuzzy_equ((a + 1) / 8.0, y) : 1.0);
            fputs(",\"not\":", f);
            put_dyadic(f, rn);
            /* the equilibrium operator with an explicit weight: gamma = 0 is the algebraic product, gamma = 1 the algebraic sum,
               in between it lies between the two and grows with gamma */
            fputs(",\"equg\":[", f);
            put_value(f, a_fuzzy_equ_(0, x, y)); fputc(',', f); put_value(f, a_fuzzy_equ_(1, x, y));
            fputs("],\"equg_mid\":[", f);
            put_ordered(f, a_fuzzy_equ_(0, x, y)); fputc(',', f); put_ordered(f, a_fuzzy_equ_(0.25, x, y)); fputc(',', f);
            put_ordered(f, a_fuzzy_equ_(0.5, x, y)); fputc(',', f); put_ordered(f, a_fuzzy_equ_(0.75, x, y)); fputc(',', f);
            put_ordered(f, a_fuzzy_equ_(1, x, y));
            fputs("]}\n", f);
            ++n_opr;
        }
    }
    /* smooth families */
    {
        double g1[] = {1, 2}, g2[] = {0.5, -1}, gg[] = {1, 0, 2, 3}, b1[] = {2, 1, 0}, b2[] = {1, 3, 2}, s1[] = {2, 1}, s2[] = {-1, 0}, d1[] = {3, -2, 3, 2}, p1[] = {2, -1, -2, 3};
        /* grids are chosen so that centres fall on grid points (1-based indices given to the trace spec) */
        sweep("gauss", A_MF_GAUSS, g1, 2, -6, 10, 21, 21);
        sweep("gauss", A_MF_GAUSS, g2, 2, -5, 3, 21, 21);
        sweep("gauss2", A_MF_GAUSS2, gg, 4, -6, 14, 13, 19);
        sweep("gbell", A_MF_GBELL, b1, 3, -8, 8, 21, 21);
        sweep("gbell", A_MF_GBELL, b2, 3, -4, 8, 21, 21);
        {
            double b3[] = {2, 1.5, 0}, b4[] = {1, 0.75, 2};   /* 2b odd / fractional: both flanks must still be in [0,1] */
            sweep("gbell", A_MF_GBELL, b3, 3, -8, 8, 21, 21);
            sweep("gbell", A_MF_GBELL, b4, 3, -4, 8, 21, 21);
        }
        sweep("sig", A_MF_SIG, s1, 2, -7, 9, 41, 41);   /* increasing */
        sweep("sig", A_MF_SIG, s2, 2, -8, 8, 1, 1);     /* decreasing */
        sweep("dsig", A_MF_DSIG, d1, 4, -8, 8, 0, 0);
        sweep("psig", A_MF_PSIG, p1, 4, -8, 8, 0, 0);
        /* far tails (the exponentials inside overflow / underflow there): still in [0,1], monotone, finite */
        {
            double ggf[] = {1, 0, 2, 300};
            sweep("gauss", A_MF_GAUSS, g1, 2, -3998, 4002, 21, 21);
            sweep("gauss2", A_MF_GAUSS2, ggf, 4, -6000, 6000, 21, 22);
            sweep("gbell", A_MF_GBELL, b1, 3, -4000, 4000, 21, 21);
            sweep("sig", A_MF_SIG, s1, 2, -3999, 4001, 41, 41);
            sweep("sig", A_MF_SIG, s2, 2, -4000, 4000, 1, 1);
            sweep("dsig", A_MF_DSIG, d1, 4, -4000, 4000, 0, 0);
            sweep("psig", A_MF_PSIG, p1, 4, -4000, 4000, 0, 0);
        }
    }
controllers:;
    /* controller scenarios: short histories in halves, all operators and modes */
    uint64_t s = 0x9E3779B97F4A7C15ull ^ (strtoull(argv[4], 0, 10) * 1000003ull);
    int const mult = argc > 5 ? atoi(argv[5]) : 1; /* number of seeded scenarios per operator / mode */
    static int const fixed_sets[][4] = {{1, 1, 1, 1}, {2, 2, -2, -2}, {6, 6, 6, 6}, {0, 1, 4, 1}, {3, -3, 3, -3}, {1, 0, 0, 0}};
    static int const fixed_fdbs[][4] = {{0, 0, 0, 0}, {0, 1, 0, -1}, {0, 0, 0, 0}, {0, 0, 0, 0}, {1, 1, -1, -1}, {0, -1, 0, 1}};
    for (int oi = 0; oi < 7; ++oi)
    {
        for (int mode = 0; mode < 3; ++mode)
        {
            for (int c = 0; c < 6; ++c) { fuzzy_scenario(oi, mode, fixed_sets[c], fixed_fdbs[c], 4); }
            for (int c = 0; c < 12 * mult; ++c)
            {
                int st[6], fb[6];
                for (int i = 0; i < 6; ++i)
                {
                    s ^= s << 13; s ^= s >> 7; s ^= s << 17;
                    st[i] = (int)(s % 13) - 6;
                    fb[i] = (int)((s >> 20) % 9) - 4;
                }
                fuzzy_scenario(oi, mode, st, fb, 6);
            }
        }
    }
    /* membership tables: every kind first in the e-table (with the next kind first in the ec-table), all operators */
    for (int oi = 0; oi < 7; ++oi)
    {
        for (int k = 0; k < NKINDS; ++k) { table_scenario(oi, 1 + (k + oi) % 2, k, (k + 1) % NKINDS); }
        /* joint memberships far below machine epsilon: triangle (index 7) for both inputs, a single rule fires */
        table_scenario_(oi, 1, 7, 7, 1);
        table_scenario_(oi, 2, 7, 7, 1);
        /* both flanks of the piecewise-polynomial kinds (trapezoid, triangle, linear S / Z, S, Z, Pi: indices 6..12) */
        for (int k = 6; k < NKINDS; ++k) { table_scenario_(oi, 1 + (k + oi) % 2, k, 6 + (k - 6 + 3) % (NKINDS - 6), 2); }
    }
    for (int mode = 0; mode < 2; ++mode)
    {
        for (int c = 0; c < 6; ++c) { for (int w = 0; w < 3; ++w) { neuro_scenario(mode, w, fixed_sets[c], fixed_fdbs[c], 4); } }
        for (int c = 0; c < 30 * mult; ++c)
        {
            int st[8], fb[8];
            for (int i = 0; i < 8; ++i)
            {
                s ^= s << 13; s ^= s >> 7; s ^= s << 17;
                st[i] = (int)(s % 13) - 6;
                fb[i] = (int)((s >> 20) % 9) - 4;
            }
            neuro_scenario(mode, c % 3, st, fb, 8);
            if (mode == 1) { neuro_exact(c % 3, c % 6, st, fb, 8); neuro_exact((c + 1) % 3, (c / 3) % 6, st, fb, 8); neuro_learn(c % 4, st, fb, 8); }
        }
    }
    for (int i = 0; i < nb; ++i) { fclose(fo[i]); }
    printf("SUMMARY {\"events\":%ld,\"mf\":%ld,\"opr\":%ld,\"controllers\":%ld,\"learn\":%ld,\"learn_inrange\":%ld}\n", n_events, n_mf, n_opr, n_ctl, n_learn, n_learn_inrange);
    return 0;
}
