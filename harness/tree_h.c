/* Conformance harness for the AVL (default) and red-black (-DRBT) containers.
 *
 * Generation direction: replays every transition emitted by TLC (AvlMC/RbtMC)
 * into the real code: materialise the pre-state in real nodes, call the real
 * function, project the result, compare the abstract projection and the return
 * value natively, and log the full concrete pre/post structures as ndjson for
 * the validation direction (AvlTrace/RbtTrace evaluate the property invariants
 * on what the real code produced).
 *
 * Also: seeded random long histories (mode "random"), logged the same way.
 *
 * No oracle in here beyond equality with what the specification said.
 */
#include <stdio.h>
#include <signal.h>
#include <unistd.h>
#include <stdlib.h>
#include <string.h>
#include <stdint.h>
#ifdef RBT
#include "a/rbt.h"
#define NODE a_rbt_node
#define ROOT a_rbt
#define T_INSERT a_rbt_insert
#define T_REMOVE a_rbt_remove
#define T_SEARCH a_rbt_search
#define T_PARENT a_rbt_parent
#define TAGMASK 1u
#define TAG_ENC(t) ((a_uptr)(t))
#define TAG_DEC(p) ((int)((p)&1u))
#define KIND "rbt"
#define SPLIT_TAG color
#define T_HEAD a_rbt_head
#define T_TAIL a_rbt_tail
#define T_NEXT a_rbt_next
#define T_PREV a_rbt_prev
#define T_PRE_NEXT a_rbt_pre_next
#define T_PRE_PREV a_rbt_pre_prev
#define T_POST_NEXT a_rbt_post_next
#define T_POST_PREV a_rbt_post_prev
#define T_TEAR a_rbt_tear
#define FOREACH(c, r) A_RBT_FOREACH(c, r)
#define FOREACH_REVERSE(c, r) A_RBT_FOREACH_REVERSE(c, r)
#define PRE_FOREACH(c, r) A_RBT_PRE_FOREACH(c, r)
#define PRE_FOREACH_REVERSE(c, r) A_RBT_PRE_FOREACH_REVERSE(c, r)
#define POST_FOREACH(c, r) A_RBT_POST_FOREACH(c, r)
#define POST_FOREACH_REVERSE(c, r) A_RBT_POST_FOREACH_REVERSE(c, r)
#define LC(x) a_rbt_##x
#define UC_FORTEAR(c, n, r) A_RBT_FORTEAR(c, n, r)
#else
#include "a/avl.h"
#define NODE a_avl_node
#define ROOT a_avl
#define T_INSERT a_avl_insert
#define T_REMOVE a_avl_remove
#define T_SEARCH a_avl_search
#define T_PARENT a_avl_parent
#define TAGMASK 3u
#define TAG_ENC(t) ((a_uptr)((t) + 1))
#define TAG_DEC(p) ((int)((p)&3u) - 1)
#define KIND "avl"
#define SPLIT_TAG factor
#define T_HEAD a_avl_head
#define T_TAIL a_avl_tail
#define T_NEXT a_avl_next
#define T_PREV a_avl_prev
#define T_PRE_NEXT a_avl_pre_next
#define T_PRE_PREV a_avl_pre_prev
#define T_POST_NEXT a_avl_post_next
#define T_POST_PREV a_avl_post_prev
#define T_TEAR a_avl_tear
#define FOREACH(c, r) A_AVL_FOREACH(c, r)
#define FOREACH_REVERSE(c, r) A_AVL_FOREACH_REVERSE(c, r)
#define PRE_FOREACH(c, r) A_AVL_PRE_FOREACH(c, r)
#define PRE_FOREACH_REVERSE(c, r) A_AVL_PRE_FOREACH_REVERSE(c, r)
#define POST_FOREACH(c, r) A_AVL_POST_FOREACH(c, r)
#define POST_FOREACH_REVERSE(c, r) A_AVL_POST_FOREACH_REVERSE(c, r)
#define LC(x) a_avl_##x
#define UC_FORTEAR(c, n, r) A_AVL_FORTEAR(c, n, r)
#endif
#if defined(__SANITIZE_ADDRESS__)
#include <sanitizer/asan_interface.h>
#define POISON(p, n) ASAN_POISON_MEMORY_REGION(p, n)
#define UNPOISON(p, n) ASAN_UNPOISON_MEMORY_REGION(p, n)
#else
#define POISON(p, n) ((void)0)
#define UNPOISON(p, n) ((void)0)
#endif

#define MAXN 64
typedef struct
{
    NODE node;
    int key;
} ent;

static ent nd[MAXN + 2]; /* nd[k] holds key k; nd[0] unused */
static ROOT root;
static int N;

static int cmp_nodes(void const *l, void const *r)
{
    int a = ((ent const *)l)->key, b = ((ent const *)r)->key;
    return (a > b) - (a < b);
}
static int cmp_key(void const *l, void const *r)
{
    int a = *(int const *)l, b = ((ent const *)r)->key;
    return (a > b) - (a < b);
}

static int id_of(NODE const *p)
{
    if (!p) { return 0; }
    ptrdiff_t d = (char const *)p - (char const *)nd;
    if (d < 0 || d % (ptrdiff_t)sizeof(ent) || d / (ptrdiff_t)sizeof(ent) > N || d == 0) { return 99; }
    return (int)(d / (ptrdiff_t)sizeof(ent));
}
static NODE *ptr_of(int id) { return id ? &nd[id].node : NULL; }

typedef struct
{
    int root, left[MAXN + 1], right[MAXN + 1], par[MAXN + 1], tag[MAXN + 1];
} proj;

static void materialise(proj const *p)
{
    memset(nd, 0, sizeof(nd));
    for (int k = 1; k <= N; ++k) { nd[k].key = k; }
    /* a node is linked iff it is the root or has a parent */
    for (int k = 1; k <= N; ++k)
    {
        nd[k].node.left = ptr_of(p->left[k]);
        nd[k].node.right = ptr_of(p->right[k]);
#ifdef SPLIT_LAYOUT /* separate parent / tag fields (small-pointer targets; forced with -DA_SIZE_POINTER=1) */
        nd[k].node.parent = ptr_of(p->par[k]);
        nd[k].node.SPLIT_TAG = (p->root == k || p->par[k]) ? p->tag[k] : 0;
#else
        nd[k].node.parent_ = (a_uptr)ptr_of(p->par[k]) | (a_uptr)(p->root == k || p->par[k] ? TAG_ENC(p->tag[k]) : 0);
#endif
    }
    root.node = ptr_of(p->root);
}

/* project: members[k] says whether node k is expected to be linked (stale nodes
 * that were removed keep garbage in their fields; the code never promises to clear them) */
static void project(proj *p, unsigned char const *member)
{
    memset(p, 0, sizeof(*p));
    p->root = id_of(root.node);
    for (int k = 1; k <= N; ++k)
    {
        if (!member[k]) { continue; }
        p->left[k] = id_of(nd[k].node.left);
        p->right[k] = id_of(nd[k].node.right);
        p->par[k] = id_of(T_PARENT(&nd[k].node));
#ifdef SPLIT_LAYOUT
        p->tag[k] = (int)nd[k].node.SPLIT_TAG;
#else
        p->tag[k] = TAG_DEC(nd[k].node.parent_);
#endif
    }
}

/* bounded in-order walk of a projection: returns count, -1 if not a finite tree */
static int inorder(proj const *p, int n, int *out, int cnt, int fuel)
{
    if (n == 0) { return cnt; }
    if (n > N || fuel == 0) { return -1; }
    cnt = inorder(p, p->left[n], out, cnt, fuel - 1);
    if (cnt < 0 || cnt > N) { return -1; }
    out[cnt++] = n;
    return inorder(p, p->right[n], out, cnt, fuel - 1);
}

static void put_arr(FILE *f, int const *a)
{
    fputc('[', f);
    for (int k = 1; k <= N; ++k) { fprintf(f, k == 1 ? "%d" : ",%d", a[k]); }
    fputc(']', f);
}
static void put_proj(FILE *f, char const *name, proj const *p)
{
    fprintf(f, "\"%s\":{\"root\":%d,\"left\":", name, p->root);
    put_arr(f, p->left);
    fputs(",\"right\":", f);
    put_arr(f, p->right);
    fputs(",\"par\":", f);
    put_arr(f, p->par);
    fputs(",\"tag\":", f);
    put_arr(f, p->tag);
    fputc('}', f);
}

static long n_edges, n_mismatch, n_drift, n_events;
static long case_cnt[32];
static long n_nontrivial;
static int mismatch_printed;
static FILE *summary;

static void mismatch(char const *what, int op, int k, proj const *pre, proj const *post, int ret, int eret)
{
    ++n_mismatch;
    if (mismatch_printed++ < 10)
    {
        fprintf(summary, "MISMATCH {\"what\":\"%s\",\"op\":%d,\"k\":%d,\"ret\":%d,\"expected_ret\":%d,\"n\":%d,", what, op, k, ret, eret, N);
        put_proj(summary, "pre", pre);
        fputc(',', summary);
        put_proj(summary, "post", post);
        fputs("}\n", summary);
    }
}

/* apply one operation on the current real structure; member = expected membership before */
static int apply(int op, int k, unsigned char *member, proj *post)
{
    int ret = 0;
    if (op == 1)
    {
        if (member[k])
        {
            /* duplicate: insert a *different* node carrying the same key, as a user would */
            nd[N + 1].key = k;
            memset(&nd[N + 1].node, 0x5a, sizeof(NODE));
            NODE *r = T_INSERT(&root, &nd[N + 1].node, cmp_nodes);
            ret = r == &nd[N + 1].node ? 98 : (r ? id_of(r) : 0);
            /* if the code wrongly linked the extra node, id_of() reports 99 in the projection */
            /* ... and the resident object itself handed in again ("insert or get" with the same object): also a duplicate */
            if (ret == k)
            {
                NODE *r2 = T_INSERT(&root, &nd[k].node, cmp_nodes);
                if (r2 != &nd[k].node) { ret = r2 ? 97 : 0; }
            }
        }
        else
        {
            NODE *r = T_INSERT(&root, &nd[k].node, cmp_nodes);
            ret = id_of(r);
            member[k] = 1;
        }
    }
    else if (op == 2)
    {
        T_REMOVE(&root, &nd[k].node);
        member[k] = 0;
    }
    else
    {
        ret = id_of(T_SEARCH(&root, &k, cmp_key));
    }
    project(post, member);
    return ret;
}

static void log_event(FILE *f, int op, int k, int ret, int chain, proj const *pre, proj const *post)
{
    fprintf(f, "{\"op\":%d,\"k\":%d,\"ret\":%d,\"chain\":%d,\"n\":%d,", op, k, ret, chain, N);
    put_proj(f, "pre", pre);
    fputc(',', f);
    put_proj(f, "post", post);
    fputs("}\n", f);
    ++n_events;
}

static int check_abstract(int op, int k, int ret, unsigned char const *member_pre, proj const *pre, proj const *post)
{
    /* expected abstract result, straight from the specification's abstract layer:
       ins: S' = S + {k}, ret = k if k in S else 0;  rem: S' = S - {k};  get: S' = S, ret = k iff k in S */
    unsigned char exp[MAXN + 2];
    memcpy(exp, member_pre, sizeof(exp));
    int eret = 0;
    if (op == 1)
    {
        eret = member_pre[k] ? k : 0;
        exp[k] = 1;
    }
    else if (op == 2) { exp[k] = 0; }
    else { eret = member_pre[k] ? k : 0; }
    int seq[MAXN + 2], cnt = inorder(post, post->root, seq, 0, N + 1), ok = 1, want = 0;
    for (int i = 1; i <= N; ++i) { want += exp[i]; }
    if (cnt != want) { ok = 0; }
    for (int i = 0; ok && i < cnt; ++i)
    {
        if (!exp[seq[i]] || (i && seq[i - 1] >= seq[i])) { ok = 0; }
    }
    if (!ok) { mismatch("contents", op, k, pre, post, ret, eret); return 0; }
    if (ret != eret) { mismatch("return", op, k, pre, post, ret, eret); return 0; }
    if (op == 3 || (op == 1 && member_pre[k]))
    {
        if (memcmp(pre, post, sizeof(*pre))) { mismatch("changed", op, k, pre, post, ret, eret); return 0; }
    }
    return 1;
}

/* parse all integers in a line */
static int parse_ints(char const *s, int *out, int max)
{
    int n = 0;
    while (*s && n < max)
    {
        if ((*s >= '0' && *s <= '9') || (*s == '-' && s[1] >= '0' && s[1] <= '9'))
        {
            char *e;
            out[n++] = (int)strtol(s, &e, 10);
            s = e;
        }
        else { ++s; }
    }
    return n;
}

static int read_proj(int const *v, proj *p)
{
    memset(p, 0, sizeof(*p));
    p->root = v[0];
    for (int k = 1; k <= N; ++k)
    {
        p->left[k] = v[k];
        p->right[k] = v[N + k];
        p->par[k] = v[2 * N + k];
        p->tag[k] = v[3 * N + k];
    }
    return 1 + 4 * N;
}

static int do_edges(char const *in, char const *prefix, int nb)
{
    FILE *fi = fopen(in, "r");
    if (!fi) { perror(in); return 3; }
    FILE *fo[64];
    char name[512];
    if (nb > 64) { nb = 64; }
    for (int i = 0; i < nb; ++i)
    {
        snprintf(name, sizeof(name), "%s-%04d.ndjson", prefix, i);
        fo[i] = fopen(name, "w");
        if (!fo[i]) { perror(name); return 3; }
    }
    static char line[1 << 16];
    static int v[8192];
    while (fgets(line, sizeof(line), fi))
    {
        if (!strstr(line, "7777777")) { continue; }
        alarm(60); /* watchdog: one transition (real calls, walks, projection) never takes that long */
        int n = parse_ints(line, v, 8192);
        if (v[0] != 7777777 || (n - 26) % 8) { fprintf(stderr, "bad edge line (%d ints)\n", n); return 3; }
        N = (n - 26) / 8;
        if (N > MAXN) { return 3; }
        int op = v[1], k = v[2], eret = v[3];
        proj pre, epost, post;
        int off = 4;
        off += read_proj(v + off, &pre);
        off += read_proj(v + off, &epost);
        int nontriv = 0;
        for (int i = 0; i < 20; ++i)
        {
            if (v[off + i])
            {
                case_cnt[i + 1]++;
#ifdef RBT
                if ((i + 1 >= 4 && i + 1 <= 8) || i + 1 >= 13) { nontriv = 1; }
#else
                if (i + 1 == 6 || i + 1 == 7 || (i + 1 >= 16 && i + 1 <= 19)) { nontriv = 1; }
#endif
            }
        }
        n_nontrivial += nontriv;
        unsigned char member[MAXN + 2];
        memset(member, 0, sizeof(member));
        for (int i = 1; i <= N; ++i) { member[i] = (pre.root == i || pre.par[i]) ? 1 : 0; }
        unsigned char member_pre[MAXN + 2];
        memcpy(member_pre, member, sizeof(member));
        materialise(&pre);
        /* sanity: the materialised state projects back to the specification's state */
        proj back;
        project(&back, member);
        if (memcmp(&back, &pre, sizeof(pre))) { fprintf(stderr, "harness: materialise/project mismatch\n"); return 3; }
        int ret = apply(op, k, member, &post);
        ++n_edges;
        if (check_abstract(op, k, ret, member_pre, &pre, &post))
        {
            if (ret != eret) { mismatch("return-vs-model", op, k, &pre, &post, ret, eret); }
            else if (memcmp(&post, &epost, sizeof(post))) { ++n_drift; }
        }
        log_event(fo[(n_edges / 512) % nb], op, k, ret, 0, &pre, &post);
    }
    for (int i = 0; i < nb; ++i) { fclose(fo[i]); }
    fclose(fi);
    return 0;
}


/* ------------------------------------------------------------------ C03: iterators and tear-down */
static void put_seq(FILE *f, char const *name, int const *a, int n)
{
    fprintf(f, "\"%s\":[", name);
    for (int i = 0; i < n; ++i) { fprintf(f, i ? ",%d" : "%d", a[i]); }
    fputc(']', f);
}

#define COLLECT(MACRO, name)                                              \
    do {                                                                  \
        int cnt = 0;                                                      \
        NODE *cur;                                                        \
        MACRO(cur, &root)                                                 \
        {                                                                 \
            if (cnt > N + 1) { break; }                                   \
            seq[cnt++] = id_of(cur);                                      \
        }                                                                 \
        put_seq(f, name, seq, cnt);                                       \
        fputc(',', f);                                                    \
    } while (0)

/* the lower-case spelling of the same macros declares its own cursor */
#define COLLECT_LC(MACRO, name)                                           \
    do {                                                                  \
        int cnt = 0;                                                      \
        MACRO(cur, &root)                                                 \
        {                                                                 \
            if (cnt > N + 1) { break; }                                   \
            seq[cnt++] = id_of(cur);                                      \
        }                                                                 \
        put_seq(f, name, seq, cnt);                                       \
        fputc(',', f);                                                    \
    } while (0)

#define STEPS(FN, name)                                                   \
    do {                                                                  \
        for (int k = 1; k <= N; ++k) { seq[k - 1] = id_of(FN(&nd[k].node)); } \
        put_seq(f, name, seq, N);                                         \
        fputc(',', f);                                                    \
    } while (0)

static void put_rest(FILE *f, unsigned char const *member)
{
    proj p;
    project(&p, member);
    fprintf(f, "{\"root\":%d,\"left\":", p.root);
    put_arr(f, p.left);
    fputs(",\"right\":", f);
    put_arr(f, p.right);
    fputs(",\"par\":", f);
    put_arr(f, p.par);
    fputc('}', f);
}

/* one tear-down run on a fresh copy of the shape: start node `start` (0 = from the root),
 * after `restart` steps (>= 0) the cursor is reset to null, as after an interruption.
 * handed-out nodes are poisoned: a read after hand-out aborts under ASan. */
static void tear_run(FILE *f, proj const *shape, int start, int restart, int with_rests)
{
    unsigned char member[MAXN + 2];
    int order[MAXN + 4], cnt = 0;
    materialise(shape);
    memset(member, 0, sizeof(member));
    for (int i = 1; i <= N; ++i) { member[i] = 1; }
    NODE *next = ptr_of(start), *cur;
    fprintf(f, "{\"start\":%d,\"restart\":%d,\"rests\":[", start, restart);
    while ((cur = T_TEAR(&root, &next)) != NULL)
    {
        int id = id_of(cur);
        order[cnt++] = id;
        if (id >= 1 && id <= N)
        {
            member[id] = 0;
            POISON(&nd[id].node, sizeof(NODE));
        }
        if (with_rests)
        {
            if (cnt > 1) { fputc(',', f); }
            put_rest(f, member);
        }
        if (cnt == restart) { next = NULL; }
        if (cnt > N + 1) { break; }
    }
    int final_root = id_of(root.node), final_next = id_of(next);
    int extra = id_of(T_TEAR(&root, &next));
    for (int i = 1; i <= N; ++i) { UNPOISON(&nd[i].node, sizeof(NODE)); }
    fputs("],", f);
    put_seq(f, "order", order, cnt);
    fprintf(f, ",\"final_root\":%d,\"final_next\":%d,\"extra\":%d}", final_root, final_next, extra);
}

static void iter_shape(FILE *f, proj const *shape)
{
    int seq[MAXN + 4];
    materialise(shape);
    fprintf(f, "{\"kind\":\"%s\",\"n\":%d,", KIND, N);
    put_proj(f, "shape", shape);
    fputc(',', f);
    COLLECT(FOREACH, "fwd");
    COLLECT(FOREACH_REVERSE, "rev");
    COLLECT(PRE_FOREACH, "pre");
    COLLECT(PRE_FOREACH_REVERSE, "prerev");
    COLLECT(POST_FOREACH, "post");
    COLLECT(POST_FOREACH_REVERSE, "postrev");
    COLLECT_LC(LC(foreach), "fwd2");
    COLLECT_LC(LC(foreach_reverse), "rev2");
    COLLECT_LC(LC(pre_foreach), "pre2");
    COLLECT_LC(LC(pre_foreach_reverse), "prerev2");
    COLLECT_LC(LC(post_foreach), "post2");
    COLLECT_LC(LC(post_foreach_reverse), "postrev2");
    {
        /* the tear-down loop macros (both spellings) on fresh copies: hand out every node once */
        int cnt = 0;
        NODE *cur, *nxt;
        materialise(shape);
        UC_FORTEAR(cur, nxt, &root) { if (cnt > N + 1) { break; } seq[cnt++] = id_of(cur); }
        put_seq(f, "fortear", seq, cnt); fputc(',', f);
        cnt = 0;
        materialise(shape);
        LC(fortear)(c2, n2, &root) { if (cnt > N + 1) { break; } seq[cnt++] = id_of(c2); }
        put_seq(f, "fortear2", seq, cnt); fputc(',', f);
        materialise(shape);
    }
    STEPS(T_NEXT, "next");
    STEPS(T_PREV, "prev");
    STEPS(T_PRE_NEXT, "pnext");
    STEPS(T_PRE_PREV, "pprev");
    STEPS(T_POST_NEXT, "qnext");
    STEPS(T_POST_PREV, "qprev");
    fputs("\"tears\":[", f);
    tear_run(f, shape, 0, -1, 1);
    for (int s = 1; s <= N; ++s)
    {
        fputc(',', f);
        tear_run(f, shape, s, -1, 0);
    }
    for (int k = 1; k < N; ++k)
    {
        fputc(',', f);
        tear_run(f, shape, 0, k, 0);
    }
    fputs("]}\n", f);
    ++n_events;
}

/* canonical form of a linked structure: present keys renumbered by rank */
static int canon(proj const *in, proj *out)
{
    int rank[MAXN + 2], m = 0;
    memset(rank, 0, sizeof(rank));
    for (int k = 1; k <= N; ++k)
    {
        if (in->root == k || in->par[k]) { rank[k] = ++m; }
    }
    memset(out, 0, sizeof(*out));
    out->root = rank[in->root];
    for (int k = 1; k <= N; ++k)
    {
        if (!rank[k]) { continue; }
        out->left[rank[k]] = rank[in->left[k]];
        out->right[rank[k]] = rank[in->right[k]];
        out->par[rank[k]] = rank[in->par[k]];
        out->tag[rank[k]] = in->tag[k];
    }
    return m;
}

typedef struct shape_ent
{
    struct shape_ent *nextp;
    int m;
    proj p;
} shape_ent;
#define HSIZE (1 << 16)
static shape_ent *htab[HSIZE];
static long n_shapes;

static int shape_seen(proj const *p, int m)
{
    uint64_t h = 1469598103934665603ull;
    unsigned char const *b = (unsigned char const *)p;
    for (size_t i = 0; i < sizeof(*p); ++i) { h = (h ^ b[i]) * 1099511628211ull; }
    h ^= (uint64_t)m;
    shape_ent **slot = &htab[h % HSIZE];
    for (shape_ent *e = *slot; e; e = e->nextp)
    {
        if (e->m == m && !memcmp(&e->p, p, sizeof(*p))) { return 1; }
    }
    shape_ent *e = (shape_ent *)malloc(sizeof(*e));
    e->m = m;
    e->p = *p;
    e->nextp = *slot;
    *slot = e;
    ++n_shapes;
    return 0;
}

static int do_iter(char const *in, char const *prefix, int nb, int maxnodes)
{
    FILE *fi = fopen(in, "r");
    if (!fi) { perror(in); return 3; }
    FILE *fo[64];
    char name[512];
    if (nb > 64) { nb = 64; }
    for (int i = 0; i < nb; ++i)
    {
        snprintf(name, sizeof(name), "%s-%04d.ndjson", prefix, i);
        fo[i] = fopen(name, "w");
        if (!fo[i]) { perror(name); return 3; }
    }
    static char line[1 << 16];
    static int v[8192];
    while (fgets(line, sizeof(line), fi))
    {
        if (!strstr(line, "7777777")) { continue; }
        alarm(60); /* watchdog: one transition (real calls, walks, projection) never takes that long */
        int n = parse_ints(line, v, 8192);
        if (v[0] != 7777777 || (n - 26) % 8) { fprintf(stderr, "bad edge line (%d ints)\n", n); return 3; }
        int fullN = (n - 26) / 8;
        proj st[2], c;
        N = fullN;
        int off = 4;
        off += read_proj(v + off, &st[0]);
        off += read_proj(v + off, &st[1]);
        {
            /* the second shape is what the REAL operation makes of the pre-state (identical to the
               model's post-state unless the code deviates): iterators are also run on structures
               the real insert/remove produced */
            unsigned char member[MAXN + 2];
            memset(member, 0, sizeof(member));
            for (int i = 1; i <= N; ++i) { member[i] = (st[0].root == i || st[0].par[i]) ? 1 : 0; }
            materialise(&st[0]);
            apply(v[1], v[2], member, &st[1]);
            /* the live structure the real operation left behind, walked in both directions: exactly the member keys, ascending */
            {
                int cnt = 0, okf = 1, prevk = 0, want = 0;
                NODE *cur;
                for (int i = 1; i <= N; ++i) { want += member[i] ? 1 : 0; }
                FOREACH(cur, &root)
                {
                    int id = id_of(cur);
                    if (++cnt > N + 1) { break; }
                    if (id < 1 || id > N || !member[id] || id <= prevk) { okf = 0; }
                    prevk = id;
                }
                if (cnt != want) { okf = 0; }
                cnt = 0; prevk = N + 1;
                FOREACH_REVERSE(cur, &root)
                {
                    int id = id_of(cur);
                    if (++cnt > N + 1) { break; }
                    if (id < 1 || id > N || !member[id] || id >= prevk) { okf = 0; }
                    prevk = id;
                }
                if (cnt != want) { okf = 0; }
                if (!okf && n_mismatch++ < 10) { printf("MISMATCH {\"what\":\"live-iteration\",\"op\":%d,\"k\":%d,\"visited\":%d,\"members\":%d}\n", v[1], v[2], cnt, want); }
            }
        }
        for (int w = 0; w < 2; ++w)
        {
            N = fullN;
            int m = canon(&st[w], &c);
            if (m > maxnodes) { continue; }
            if (shape_seen(&c, m)) { continue; }
            N = m;
            iter_shape(fo[n_shapes % nb], &c);
            ++n_edges;
            n_nontrivial += m >= 3;
        }
    }
    for (int i = 0; i < nb; ++i) { fclose(fo[i]); }
    fclose(fi);
    return 0;
}

static uint64_t rng_s;
static uint32_t rnd(void)
{
    rng_s ^= rng_s << 13;
    rng_s ^= rng_s >> 7;
    rng_s ^= rng_s << 17;
    return (uint32_t)(rng_s >> 11);
}

static int do_random(unsigned seed, int nhist, int nkeys, int nops, char const *prefix, int nb)
{
    char name[512];
    N = nkeys;
    if (N > MAXN) { return 3; }
    for (int h = 0; h < nhist; ++h)
    {
        alarm(120);
        snprintf(name, sizeof(name), "%s-%04d.ndjson", prefix, h % nb);
        FILE *fo = fopen(name, "a");
        if (!fo) { perror(name); return 3; }
        rng_s = 0x9E3779B97F4A7C15ull ^ ((uint64_t)seed * 1000003u + (uint64_t)h);
        rnd();
        unsigned char member[MAXN + 2];
        memset(member, 0, sizeof(member));
        memset(nd, 0, sizeof(nd));
        for (int k = 1; k <= N; ++k) { nd[k].key = k; }
        root.node = NULL;
        proj pre, post;
        project(&pre, member);
        /* phases: fill-biased, churn, drain-biased: exercises re-insertion of residents and deep rebalancing */
        for (int i = 0; i < nops; ++i)
        {
            int phase = (3 * i) / nops;
            int k = 1 + (int)(rnd() % (unsigned)N);
            unsigned r = rnd() % 100;
            int op;
            if (phase == 0) { op = r < 70 ? 1 : (r < 85 ? 2 : 3); }
            else if (phase == 1) { op = r < 45 ? 1 : (r < 90 ? 2 : 3); }
            else { op = r < 20 ? 1 : (r < 90 ? 2 : 3); }
            if (op == 2 && !member[k])
            {
                /* remove needs a resident element: pick the next resident, else insert */
                int j;
                for (j = 0; j < N && !member[1 + (k - 1 + j) % N]; ++j) {}
                if (j == N) { op = 1; }
                else { k = 1 + (k - 1 + j) % N; }
            }
            unsigned char member_pre[MAXN + 2];
            memcpy(member_pre, member, sizeof(member));
            int ret = apply(op, k, member, &post);
            ++n_edges;
            int good = check_abstract(op, k, ret, member_pre, &pre, &post);
            log_event(fo, op, k, ret, i ? 1 : 0, &pre, &post);
            if (!good) { break; } /* later states would be garbage */
            pre = post;
        }
        fclose(fo);
    }
    return 0;
}

static void on_alarm(int sig)
{
    (void)sig;
    static char const msg[] = "TIMEOUT: a library call or a walk of the tree it left did not finish within 60 s\n";
    if (write(2, msg, sizeof(msg) - 1)) {}
    _exit(95);
}
int main(int argc, char **argv)
{
    signal(SIGALRM, on_alarm);
    summary = stdout;
    int rc = 2;
    if (argc >= 5 && !strcmp(argv[1], "edges")) { rc = do_edges(argv[2], argv[3], atoi(argv[4])); }
    else if (argc >= 6 && !strcmp(argv[1], "iter")) { rc = do_iter(argv[2], argv[3], atoi(argv[4]), atoi(argv[5])); }
    else if (argc >= 8 && !strcmp(argv[1], "random"))
    {
        rc = do_random((unsigned)strtoul(argv[2], 0, 10), atoi(argv[3]), atoi(argv[4]), atoi(argv[5]), argv[6], atoi(argv[7]));
    }
    else
    {
        fprintf(stderr, "usage: %s edges <tlc-output> <out-prefix> <batches> | random <seed> <nhist> <nkeys> <nops> <out-prefix> <batches>\n", argv[0]);
        return 2;
    }
    printf("SUMMARY {\"kind\":\"%s\",\"edges\":%ld,\"events\":%ld,\"mismatch\":%ld,\"drift\":%ld,\"nontrivial\":%ld,\"cases\":[", KIND, n_edges, n_events,
           n_mismatch, n_drift, n_nontrivial);
    for (int i = 1; i <= 20; ++i) { printf(i == 1 ? "%ld" : ",%ld", case_cnt[i]); }
    printf("]}\n");
    return rc;
}
