/* Conformance harness for a_list (list.h), a_slist (slist.h) and a_que (que.c) - property C05.
 * Replays the transitions emitted by TLC (ListMC 5555555, SlistMC 4444444, QueMC 6666666) into the
 * real code, compares the abstract projection natively and logs the concrete structures as ndjson
 * for TLC trace validation (ListTrace / SlistTrace / QueTrace).
 */
#include <stdio.h>
#include <stdlib.h>
#include <string.h>
#include <stdint.h>
#include <signal.h>
#include <unistd.h>
#include "a/list.h"
#include "a/slist.h"
#include "a/que.h"
#include "fault.h"

#define MAXID 16
#define HUGE_M 1000000
static long n_edges, n_events, n_mismatch, n_drift, n_nontrivial, skip_until;
static long op_cnt[3][32];
static int mismatch_printed;
static char cur_desc[512];
void __sanitizer_set_death_callback(void (*cb)(void));
static void on_death(void)
{
    fprintf(stdout, "CRASH {\"edge\":%ld,%s}\n", n_edges, cur_desc);
    fflush(stdout);
}
static void on_abort(int sig)
{
    (void)sig;
    on_death(); /* UBSan (abort_on_error=1) raises SIGABRT without running the death callback */
    _exit(97);
}

static int parse_ints(char const *s, int *out, int max)
{
    int n = 0;
    while (*s && n < max)
    {
        if ((*s >= '0' && *s <= '9') || (*s == '-' && s[1] >= '0' && s[1] <= '9'))
        {
            char *e;
            out[n++] = (int)strtol(s, &e, 10);
            s = e;
        }
        else { ++s; }
    }
    return n;
}
static void put_seq(FILE *f, int const *a, int n)
{
    fputc('[', f);
    for (int i = 0; i < n; ++i) { fprintf(f, i ? ",%d" : "%d", a[i]); }
    fputc(']', f);
}
static void mismatch_hdr(char const *fam, char const *op, char const *what)
{
    ++n_mismatch;
    if (mismatch_printed < 12) { printf("MISMATCH {\"kind\":\"%s\",\"op\":\"%s\",\"what\":\"%s\",%s}\n", fam, op, what, cur_desc); }
    ++mismatch_printed;
}

/* ------------------------------------------------------------------ a_list */
static char const *lop[] = {"?", "add_next", "add_node", "add_", "add_prev", "del_node", "del_", "del_next", "del_prev", "set_node", "set_",
                            "mov_next", "mov_prev", "rot_next", "rot_prev", "swap_node", "swap_"};
static a_list ln[MAXID];
static int lid(a_list const *p)
{
    ptrdiff_t d = p - ln;
    return (d >= 1 && d < MAXID && p == &ln[d]) ? (int)d : 99;
}
/* the raw linking primitives on three nodes X (1), Y (2), Z (3) whose four fields all point at Z beforehand:
   fields reported as <<X.next, X.prev, Y.next, Y.prev>> (node numbers; 0 = null) */
static void do_prims(FILE *fo)
{
    a_list n[4];
    a_slist_node sn[4];
    a_slist sl;
#define RESET() do { for (int i = 1; i <= 3; ++i) { n[i].next = n[i].prev = &n[3]; sn[i].next = &sn[3]; } } while (0)
#define ID(p) ((p) == NULL ? 0 : (int)((p) - n))
#define FIELDS() fprintf(fo, "[%d,%d,%d,%d]", ID(n[1].next), ID(n[1].prev), ID(n[2].next), ID(n[2].prev))
    fputs("{\"prims\":1,\"link\":", fo);
    RESET(); a_list_link(&n[1], &n[2]); FIELDS();
    fputs(",\"loop\":", fo);
    RESET(); a_list_loop(&n[1], &n[2]); FIELDS();
    fputs(",\"ctor\":", fo);
    RESET(); a_list_ctor(&n[1]); FIELDS();
    fputs(",\"dtor\":", fo);
    RESET(); a_list_dtor(&n[2]); FIELDS();
    fputs(",\"init\":", fo);
    RESET(); a_list_init(&n[1]); FIELDS();
    RESET(); a_slist_link(&sn[1], &sn[2]);
    fprintf(fo, ",\"slink\":[%d,%d]", (int)(sn[1].next - sn), (int)(sn[2].next - sn));
    memset(&sl, 0x5A, sizeof(sl)); a_slist_ctor(&sl);
    fprintf(fo, ",\"sctor\":[%d,%d]", sl.head.next == NULL, sl.tail == &sl.head);
    memset(&sl, 0x5A, sizeof(sl)); a_slist_dtor(&sl);
    fprintf(fo, ",\"sdtor\":[%d,%d]", sl.head.next == NULL, sl.tail == &sl.head);
    memset(&sl, 0x5A, sizeof(sl)); a_slist_init(&sl);
    fprintf(fo, ",\"sinit\":[%d,%d]", sl.head.next == NULL, sl.tail == &sl.head);
    fputs(",\"post\":{}}\n", fo);
    ++n_events;
#undef RESET
#undef ID
#undef FIELDS
}
static int do_list(int const *v, int n, FILE *fo)
{
    int op = v[1], K = v[2], M = K + 2;
    int const *a = v + 3, *nx = v + 7, *pv = nx + M, *nx2 = pv + M, *pv2 = nx2 + M;
    int n1 = pv2[M], n2 = pv2[M + 1];
    int const *L1 = pv2 + M + 2, *L2 = L1 + n1;
    if (n != 7 + 4 * M + 2 + n1 + n2 || op < 1 || op > 16) { fprintf(stderr, "bad list edge\n"); return 3; }
    snprintf(cur_desc, sizeof(cur_desc), "\"kind\":\"list\",\"op\":\"%s\",\"a\":[%d,%d,%d,%d],\"K\":%d", lop[op], a[0], a[1], a[2], a[3], K);
    op_cnt[0][op]++;
    for (int i = 1; i <= M; ++i)
    {
        ln[i].next = &ln[nx[i - 1]];
        ln[i].prev = &ln[pv[i - 1]];
    }
#define P(i) (&ln[a[i]])
    switch (op)
    {
    case 1: a_list_add_next(P(0), P(1)); break;
    case 2: a_list_add_node(P(0)->next, P(0), P(1)); break;
    case 3: a_list_add_(P(0)->next, P(0), P(1), P(2)); break;
    case 4: a_list_add_prev(P(0), P(1)); break;
    case 5: a_list_del_node(P(0)); break;
    case 6: a_list_del_(P(0), P(1)); break;
    case 7: a_list_del_next(P(0)); break;
    case 8: a_list_del_prev(P(0)); break;
    case 9: a_list_set_node(P(0), P(2)); break;
    case 10: a_list_set_(P(0), P(1), P(2), P(3)); break;
    case 11: a_list_mov_next(P(0), P(1)); a_list_init(P(1)); break;
    case 12: a_list_mov_prev(P(0), P(1)); a_list_init(P(1)); break;
    case 13: a_list_rot_next(P(0)); break;
    case 14: a_list_rot_prev(P(0)); break;
    case 15: a_list_swap_node(P(0), P(2)); break;
    case 16: a_list_swap_(P(0), P(1), P(2), P(3)); break;
    }
#undef P
    int rn[MAXID], rp[MAXID];
    for (int i = 1; i <= M; ++i)
    {
        rn[i - 1] = lid(ln[i].next);
        rp[i - 1] = lid(ln[i].prev);
    }
    /* native comparison: forward and backward walk from each head */
    int ok = 1;
    for (int q = 1; q <= 2 && ok; ++q)
    {
        int h = K + q, cnt = q == 1 ? n1 : n2;
        int const *L = q == 1 ? L1 : L2;
        int c = rn[h - 1];
        for (int i = 0; i < cnt && ok; ++i)
        {
            if (c != L[i]) { ok = 0; }
            else { c = rn[c - 1]; }
        }
        if (ok && c != h) { ok = 0; }
        c = rp[h - 1];
        for (int i = cnt - 1; i >= 0 && ok; --i)
        {
            if (c != L[i]) { ok = 0; }
            else { c = rp[c - 1]; }
        }
        if (ok && c != h) { ok = 0; }
    }
    if (!ok) { mismatch_hdr("list", lop[op], "ring-walk"); }
    else if (memcmp(rn, nx2, sizeof(int) * (size_t)M) || memcmp(rp, pv2, sizeof(int) * (size_t)M)) { ++n_drift; }
    n_nontrivial += (op == 3 || op == 6 || op >= 9);
    fprintf(fo, "{\"op\":\"%s\",\"K\":%d,\"a\":[%d,%d,%d,%d],\"pre\":{\"next\":", lop[op], K, a[0], a[1], a[2], a[3]);
    put_seq(fo, nx, M);
    fputs(",\"prev\":", fo);
    put_seq(fo, pv, M);
    fputs("},\"post\":{\"next\":", fo);
    put_seq(fo, rn, M);
    fputs(",\"prev\":", fo);
    put_seq(fo, rp, M);
    fputs("},\"L1\":", fo);
    put_seq(fo, L1, n1);
    fputs(",\"L2\":", fo);
    put_seq(fo, L2, n2);
    /* what the traversal macros (both spellings, plain and removal-safe) visit from each head */
    fputs(",\"mac\":[", fo);
    for (int q = 1; q <= 2; ++q)
    {
        int vis[8][MAXID + 2], nv[8] = {0, 0, 0, 0, 0, 0, 0, 0};
        a_list *it, *at, *hd = &ln[K + q];
#define VISIT(k, x) do { if (nv[k] <= MAXID) { vis[k][nv[k]++] = lid(x); } else { goto done##k; } } while (0)
        A_LIST_FOREACH_NEXT(it, hd) { VISIT(0, it); } done0:;
        A_LIST_FOREACH_PREV(it, hd) { VISIT(1, it); } done1:;
        a_list_foreach_next(jt, hd) { VISIT(2, jt); } done2:;
        a_list_foreach_prev(jt, hd) { VISIT(3, jt); } done3:;
        A_LIST_FORSAFE_NEXT(it, at, hd) { VISIT(4, it); } done4:;
        A_LIST_FORSAFE_PREV(it, at, hd) { VISIT(5, it); } done5:;
        a_list_forsafe_next(kt, lt, hd) { VISIT(6, kt); } done6:;
        a_list_forsafe_prev(kt, lt, hd) { VISIT(7, kt); } done7:;
#undef VISIT
        for (int k = 0; k < 8; ++k)
        {
            fputs(q == 1 && k == 0 ? "" : ",", fo);
            put_seq(fo, vis[k], nv[k]);
        }
    }
    fputs("]}\n", fo);
    ++n_events;
    return 0;
}

/* ------------------------------------------------------------------ a_slist */
static char const *sop[] = {"?", "add", "add_head", "add_tail", "del", "del_head", "mov", "rot"};
static a_slist sl[3];
static a_slist_node sn[MAXID];
static a_slist_node *sptr(int id, int K)
{
    if (id == 0) { return NULL; }
    if (id == K + 1) { return &sl[1].head; }
    if (id == K + 2) { return &sl[2].head; }
    return &sn[id];
}
static int sid(a_slist_node const *p, int K)
{
    if (!p) { return 0; }
    if (p == &sl[1].head) { return K + 1; }
    if (p == &sl[2].head) { return K + 2; }
    ptrdiff_t d = p - sn;
    return (d >= 1 && d <= K) ? (int)d : 99;
}
static int do_slist(int const *v, int n, FILE *fo)
{
    int op = v[1], K = v[2], q = v[3], a1 = v[4], a2 = v[5], M = K + 2;
    int const *nx = v + 6, *tl = nx + M, *nx2 = tl + 2, *tl2 = nx2 + M;
    int n1 = tl2[2], n2 = tl2[3];
    int const *L1 = tl2 + 4, *L2 = L1 + n1;
    if (n != 6 + 2 * M + 4 + 2 + n1 + n2 || op < 1 || op > 7) { fprintf(stderr, "bad slist edge\n"); return 3; }
    snprintf(cur_desc, sizeof(cur_desc), "\"kind\":\"slist\",\"op\":\"%s\",\"q\":%d,\"a\":[%d,%d],\"K\":%d", sop[op], q, a1, a2, K);
    op_cnt[1][op]++;
    for (int i = 1; i <= M; ++i) { sptr(i, K)->next = sptr(nx[i - 1], K); }
    sl[1].tail = sptr(tl[0], K);
    sl[2].tail = sptr(tl[1], K);
    switch (op)
    {
    case 1: a_slist_add(&sl[q], sptr(a1, K), sptr(a2, K)); break;
    case 2: a_slist_add_head(&sl[q], sptr(a1, K)); break;
    case 3: a_slist_add_tail(&sl[q], sptr(a1, K)); break;
    case 4: a_slist_del(&sl[q], sptr(a1, K)); break;
    case 5: a_slist_del_head(&sl[q]); break;
    case 6: a_slist_mov(&sl[q], &sl[3 - q], sptr(a1, K)); a_slist_init(&sl[q]); break;
    case 7: a_slist_rot(&sl[q]); break;
    }
    int rn[MAXID], rt[2];
    for (int i = 1; i <= M; ++i) { rn[i - 1] = sid(sptr(i, K)->next, K); }
    rt[0] = sid(sl[1].tail, K);
    rt[1] = sid(sl[2].tail, K);
    int ok = 1;
    for (int w = 1; w <= 2 && ok; ++w)
    {
        int cnt = w == 1 ? n1 : n2;
        int const *L = w == 1 ? L1 : L2;
        int c = rn[K + w - 1], lastn = K + w;
        for (int i = 0; i < cnt && ok; ++i)
        {
            if (c != L[i]) { ok = 0; }
            else { lastn = c; c = rn[c - 1]; }
        }
        if (ok && c != 0) { ok = 0; }
        if (ok && rt[w - 1] != lastn) { ok = 2; }
    }
    if (ok == 0) { mismatch_hdr("slist", sop[op], "walk"); }
    else if (ok == 2) { mismatch_hdr("slist", sop[op], "tail"); }
    else if (memcmp(rn, nx2, sizeof(int) * (size_t)M) || rt[0] != tl2[0] || rt[1] != tl2[1]) { ++n_drift; }
    n_nontrivial += (op == 6 || op == 7 || op == 4);
    fprintf(fo, "{\"op\":\"%s\",\"K\":%d,\"q\":%d,\"a\":[%d,%d],\"post\":{\"next\":", sop[op], K, q, a1, a2);
    put_seq(fo, rn, M);
    fputs(",\"tail\":", fo);
    put_seq(fo, rt, 2);
    fputs("},\"L1\":", fo);
    put_seq(fo, L1, n1);
    fputs(",\"L2\":", fo);
    put_seq(fo, L2, n2);
    fputs(",\"mac\":[", fo);
    for (int w = 1; w <= 2; ++w)
    {
        int vis[4][MAXID + 2], nv[4] = {0, 0, 0, 0};
        a_slist_node *it, *at;
#define VISIT(k, x) do { if (nv[k] <= MAXID) { vis[k][nv[k]++] = sid(x, K); } else { goto sdone##k; } } while (0)
        A_SLIST_FOREACH(it, &sl[w]) { VISIT(0, it); } sdone0:;
        a_slist_foreach(jt, &sl[w]) { VISIT(1, jt); } sdone1:;
        A_SLIST_FORSAFE(it, at, &sl[w]) { VISIT(2, it); } sdone2:;
        a_slist_forsafe(kt, lt, &sl[w]) { VISIT(3, kt); } sdone3:;
#undef VISIT
        for (int k = 0; k < 4; ++k)
        {
            fputs(w == 1 && k == 0 ? "" : ",", fo);
            put_seq(fo, vis[k], nv[k]);
        }
    }
    fputs("]}\n", fo);
    ++n_events;
    return 0;
}

/* ------------------------------------------------------------------ a_que */
static char const *qop[] = {"?", "push_back", "push_fore", "insert", "pull_back", "pull_fore", "remove", "at", "fore", "back",
                            "sort_fore", "sort_back", "push_sort", "swap_elems", "swap_queues", "drop", "setz", "walk"};
static struct { int fwd[256], fwd2[256], rev[256], rev2[256], nf, nf2, nr, nr2, acc, num, siz; } qwalk;
static void *addr_tab[1024];
static int n_addr;
static int aid(void *p)
{
    if (!p) { return 0; }
    for (int i = 0; i < n_addr; ++i)
    {
        if (addr_tab[i] == p) { return i + 1; }
    }
    if (n_addr < 1024) { addr_tab[n_addr++] = p; }
    return n_addr;
}
static void put_elem(a_byte *p, a_size siz, int v)
{
    for (a_size j = 0; j < siz; ++j) { p[j] = (a_byte)(v + 31 * (int)j); }
}
static int get_elem(a_byte const *p, a_size siz)
{
    int v = p[0];
    for (a_size j = 1; j < siz; ++j)
    {
        if (p[j] != (a_byte)(v + 31 * (int)j)) { return 255; }
    }
    return v;
}
/* the comparator contract is negative / zero / positive: three spellings of the same order take turns (per recorded call) */
static int cmp_key(void const *l, void const *r)
{
    int a = *(a_byte const *)l / 10, b = *(a_byte const *)r / 10;
    switch (n_events % 3)
    {
    case 0: return (a > b) - (a < b);
    case 1: return a - b;
    default: return (a - b) * 100000;
    }
}
static void build_que(a_que *q, int siz, int const *seq, int n, int p)
{
    a_que_ctor(q, (a_size)siz);
    for (int i = 0; i < n + p; ++i)
    {
        void *e = a_que_push_back(q);
        put_elem((a_byte *)e, (a_size)siz, 1);
    }
    for (int i = 0; i < p; ++i) { a_que_pull_back(q); }
    a_list *it = q->head_.next;
    for (int i = 0; i < n; ++i, it = it->next) { put_elem((a_byte *)(it + 1), (a_size)siz, seq[i]); }
}
/* projection: forward walk [id,val]..., backward walk, pool ids, num, siz */
static void put_que(FILE *f, a_que *q, int with_bwd)
{
    int cnt = 0;
    fputs("{\"fwd\":[", f);
    for (a_list *it = q->head_.next; it != &q->head_ && cnt < 250; it = it->next, ++cnt)
    {
        fprintf(f, cnt ? ",[%d,%d]" : "[%d,%d]", aid(it), get_elem((a_byte *)(it + 1), q->siz_));
    }
    fputs("]", f);
    if (with_bwd)
    {
        cnt = 0;
        fputs(",\"bwd\":[", f);
        for (a_list *it = q->head_.prev; it != &q->head_ && cnt < 250; it = it->prev, ++cnt)
        {
            fprintf(f, cnt ? ",[%d,%d]" : "[%d,%d]", aid(it), get_elem((a_byte *)(it + 1), q->siz_));
        }
        fputs("]", f);
    }
    fputs(",\"pool\":[", f);
    for (a_size i = 0; i < q->cur_ && i < 250; ++i) { fprintf(f, i ? ",%d" : "%d", aid(q->ptr_[i])); }
    fprintf(f, "],\"num\":%d,\"siz\":%d}", (int)q->num_, (int)q->siz_);
}
static a_size to_size(int x)
{
    if (x == HUGE_M) { return (a_size)-1; }
    if (x == HUGE_M - 1) { return (a_size)-2; }
    return (a_size)x;
}
static long last_reqs, n_fault_runs, n_fault_edges;
static FILE *fault_out;
static void put_vals(FILE *f, a_que *q)
{
    int cnt = 0;
    fputc('[', f);
    for (a_list *it = q->head_.next; it != &q->head_ && cnt < 250; it = it->next, ++cnt)
    {
        fprintf(f, cnt ? ",%d" : "%d", get_elem((a_byte *)(it + 1), q->siz_));
    }
    fputc(']', f);
}
/* element destructor callbacks of the queue: a recording destructor notes the node (numbered per recorded call, like
   every other address) of every element it is handed */
static int qcb, qdlog[300], nqdlog;
static a_size qcb_siz;
static void qrec_dtor(void *p)
{
    if (nqdlog < 300) { qdlog[nqdlog] = aid((a_list *)p - 1); }
    ++nqdlog;
}
#define QCB_DTOR (qcb ? qrec_dtor : (void (*)(void *))0)
static void put_qdlog(FILE *fo, char const *name)
{
    fprintf(fo, ",\"%s\":[", name);
    for (int i = 0; i < nqdlog && i < 300; ++i) { fprintf(fo, i ? ",%d" : "%d", qdlog[i]); }
    fprintf(fo, "],\"n%s\":%d", name, nqdlog);
}
static int ring_ok(a_que *q)
{
    int cnt = 0;
    for (a_list *it = q->head_.next; it != &q->head_ && cnt < 64; it = it->next, ++cnt)
    {
        if (it->next->prev != it || it->prev->next != it) { return 0; }
    }
    return cnt == (int)q->num_ && q->head_.next->prev == &q->head_ && q->head_.prev->next == &q->head_;
}
static int fault_noretry;
static int fault_que(int const *v, long single, long from)
{
    int op = v[1], a1 = v[2], a2 = v[3];
    int z1 = v[6], z2 = v[7], p1 = v[8], p2 = v[9], n1 = v[10], n2 = v[11], n1b = v[16];
    int const *s1 = v + 18, *s2 = s1 + n1, *s1b = s2 + n2;
    a_que q[3];
    int base_id = f_nextid;
    long badfree0 = f_badfree;
    n_addr = 0;
    build_que(&q[1], z1, s1, n1, p1);
    build_que(&q[2], z2, s2, n2, p2);
    FILE *f = fault_out;
    fprintf(f, "{\"fam\":\"que\",\"op\":\"%s\",\"a1\":%d,\"a2\":%d,\"plan\":\"%s\",\"k\":%ld,\"pre\":{\"mem\":%d,\"siz\":%d,\"seq\":", qop[op], a1, a2,
            single ? "single" : "from", single ? single : from, n1 + p1, z1);
    put_seq(f, s1, n1);
    fputs("},\"live0\":[", f);
    {
        int first = 1;
        for (int i = 0; i < f_nlive; ++i)
        {
            if (f_live[i].id > base_id) { fprintf(f, first ? "%d" : ",%d", f_live[i].id); first = 0; }
        }
    }
    fputs("]", f);
    void *p = NULL;
    int rc = 0;
    a_byte keyobj[64];
    f_begin(single, from);
#include "que_ops.inc"
    f_end();
    int failed = (int)f_failed, ret_fail = (op == 15 || op == 16) ? rc == 4 : p == NULL;
    fprintf(f, ",\"failed\":%d,\"reqs\":", failed);
    f_put_log(f);
    fprintf(f, ",\"fail\":{\"ret_fail\":%d,\"num\":%d,\"mem\":%d,\"siz\":%d,\"seq\":", ret_fail, ring_ok(&q[1]) ? (int)q[1].num_ : -1,
            (int)(q[1].num_ + q[1].cur_), (int)q[1].siz_);
    put_vals(f, &q[1]);
    if (fault_noretry)
    {
        /* the queues are destroyed right after the failed call */
        fputs("},\"noretry\":1,\"retry\":{\"ok\":0", f);
        goto destroy_it;
    }
    p = NULL; rc = 0;
    f_begin(0, 0);
#include "que_ops.inc"
    f_end();
    if ((op == 1 || op == 2 || op == 3 || op == 12) && p) { put_elem((a_byte *)p, q[1].siz_, a2); }
    int retry_ok = (op == 15 || op == 16) ? rc == 0 : p != NULL;
    fprintf(f, "},\"retry\":{\"ok\":%d,\"num\":%d,\"mem\":%d,\"seq\":", retry_ok, ring_ok(&q[1]) ? (int)q[1].num_ : -1, (int)(q[1].num_ + q[1].cur_));
    put_vals(f, &q[1]);
destroy_it:
    fputs("},\"expected\":", f);
    put_seq(f, s1b, n1b);
    a_que_dtor(&q[1], NULL);
    a_que_dtor(&q[2], NULL);
    fputs(",\"leak\":[", f);
    int first = 1;
    for (int i = 0; i < f_nlive; ++i)
    {
        if (f_live[i].id > base_id) { fprintf(f, first ? "%d" : ",%d", f_live[i].id); first = 0; }
    }
    fprintf(f, "],\"badfree\":%ld}\n", f_badfree - badfree0);
    ++n_fault_runs;
    return 0;
}

static int do_que(int const *v, int n, FILE *fo)
{
    int op = v[1], a1 = v[2], a2 = v[3], eret = v[4], eval = v[5];
    int z1 = v[6], z2 = v[7], p1 = v[8], p2 = v[9], n1 = v[10], n2 = v[11];
    int z1b = v[12], z2b = v[13], p1b = v[14], p2b = v[15], n1b = v[16], n2b = v[17];
    int const *s1 = v + 18, *s2 = s1 + n1, *s1b = s2 + n2, *s2b = s1b + n1b;
    if (n != 18 + n1 + n2 + n1b + n2b || op < 1 || op > 17) { fprintf(stderr, "bad que edge\n"); return 3; }
    snprintf(cur_desc, sizeof(cur_desc), "\"kind\":\"que\",\"op\":\"%s\",\"a1\":%d,\"a2\":%d,\"n\":%d,\"pool\":%d,\"siz\":%d", qop[op], a1, a2, n1, p1, z1);
    op_cnt[2][op]++;
    a_que q[3];
    n_addr = 0;
    build_que(&q[1], z1, s1, n1, p1);
    build_que(&q[2], z2, s2, n2, p2);
    fprintf(fo, "{\"op\":\"%s\",\"a1\":%d,\"a2\":%d,\"pre\":{\"q1\":", qop[op], a1, a2);
    put_que(fo, &q[1], 0);
    fputs(",\"q2\":", fo);
    put_que(fo, &q[2], 0);
    fputs("}", fo);
    void *p = NULL;
    int rc = 0, rval = 0;
    a_byte keyobj[64];
    qcb = (int)(n_edges & 1); qcb_siz = q[1].siz_; nqdlog = 0; /* every second transition with a recording destructor */
    f_begin(0, 0);
#include "que_ops.inc"
    f_end();
    last_reqs = f_req;
    int rid = p ? aid((a_list *)p - 1) : 0;
    if ((op == 1 || op == 2 || op == 3 || op == 12) && p) { put_elem((a_byte *)p, q[1].siz_, a2); }
    if ((op >= 4 && op <= 9) && p) { rval = get_elem((a_byte *)p, q[1].siz_); }
    fputs(",\"post\":{\"q1\":", fo);
    put_que(fo, &q[1], 1);
    fputs(",\"q2\":", fo);
    put_que(fo, &q[2], 1);
    fprintf(fo, "},\"ret\":%d,\"val\":%d,\"rc\":%d", rid, rval, rc);
    if (op == 17)
    {
        fputs(",\"walk\":{\"fwd\":[", fo); for (int i = 0; i < qwalk.nf; ++i) { fprintf(fo, i ? ",%d" : "%d", qwalk.fwd[i]); }
        fputs("],\"fwd2\":[", fo); for (int i = 0; i < qwalk.nf2; ++i) { fprintf(fo, i ? ",%d" : "%d", qwalk.fwd2[i]); }
        fputs("],\"rev\":[", fo); for (int i = 0; i < qwalk.nr; ++i) { fprintf(fo, i ? ",%d" : "%d", qwalk.rev[i]); }
        fputs("],\"rev2\":[", fo); for (int i = 0; i < qwalk.nr2; ++i) { fprintf(fo, i ? ",%d" : "%d", qwalk.rev2[i]); }
        fprintf(fo, "],\"acc\":%d,\"num\":%d,\"siz\":%d}", qwalk.acc, qwalk.num, qwalk.siz);
    }
    if (qcb && (op == 15 || op == 16)) { put_qdlog(fo, "dtor"); }
    /* native comparison of the abstract projection */
    int ok = 1;
    for (int w = 1; w <= 2 && ok; ++w)
    {
        int cnt = w == 1 ? n1b : n2b, i = 0;
        int const *S = w == 1 ? s1b : s2b;
        a_list *it = q[w].head_.next;
        for (; it != &q[w].head_ && i < 40; it = it->next, ++i)
        {
            if (i >= cnt || get_elem((a_byte *)(it + 1), q[w].siz_) != S[i]) { ok = 0; break; }
        }
        if (ok && (i != cnt || (int)q[w].num_ != cnt)) { ok = 0; }
        i = cnt - 1;
        for (it = q[w].head_.prev; ok && it != &q[w].head_ && i >= -1; it = it->prev, --i)
        {
            if (i < 0 || get_elem((a_byte *)(it + 1), q[w].siz_) != S[i]) { ok = 0; }
        }
        if (ok && (int)q[w].siz_ != (w == 1 ? z1b : z2b)) { ok = 0; }
    }
    if (!ok) { mismatch_hdr("que", qop[op], "contents"); }
    else if ((eret == 0) != (p == NULL) && op <= 12 && op != 10 && op != 11) { mismatch_hdr("que", qop[op], "null-result"); }
    else if ((op >= 4 && op <= 9) && p && rval != eval) { mismatch_hdr("que", qop[op], "returned-element"); }
    else if (rc != 0) { mismatch_hdr("que", qop[op], "return-code"); }
    else if ((int)q[1].cur_ != p1b || (int)q[2].cur_ != p2b) { ++n_drift; }
    n_nontrivial += (op >= 10) || p1 > 0;
    /* an element-size change re-allocates the parked nodes: every one of them must really have room for an element of the
       new size (the capacity of a parked node is not part of the abstract state: use them all and write them) */
    if (op == 16 && rc == 0)
    {
        for (a_size k = q[1].cur_; k; --k)
        {
            a_byte *e = (a_byte *)a_que_push_back(&q[1]);
            if (e) { put_elem(e, q[1].siz_, 7); }
        }
    }
    /* destruction: the recording destructor must be handed exactly what is left in the queue */
    nqdlog = 0; qcb_siz = q[1].siz_;
    a_que_dtor(&q[1], QCB_DTOR);
    if (qcb) { put_qdlog(fo, "final"); }
    qcb = 0;
    a_que_dtor(&q[2], NULL);
    fputs("}\n", fo);
    ++n_events;
    return 0;
}

/* long random histories on two live queues: every step logged with the state before and after, judged step by step by QueTrace */
static uint64_t qrnd_s;
static unsigned qrnd(void)
{
    qrnd_s ^= qrnd_s << 13; qrnd_s ^= qrnd_s >> 7; qrnd_s ^= qrnd_s << 17;
    return (unsigned)(qrnd_s >> 24);
}
static int prims_done;
static int do_que_random(unsigned long seed, int nhist, int nops, char const *prefix, int nb)
{
    FILE *fos[64];
    char name[512];
    if (nb > 64) { nb = 64; }
    for (int i = 0; i < nb; ++i)
    {
        snprintf(name, sizeof(name), "%s-%04d.ndjson", prefix, i);
        fos[i] = fopen(name, "w");
        if (!fos[i]) { perror(name); return 3; }
    }
    static int const ops[] = {1, 1, 1, 1, 1, 2, 2, 2, 3, 3, 3, 4, 5, 6, 7, 8, 9, 13, 13, 14, 17};
    static int const sizes[] = {1, 3, 8};
    qrnd_s = 0x9E3779B97F4A7C15ull ^ (seed * 1000003ull);
    for (int h = 0; h < nhist; ++h)
    {
        a_que q[3];
        a_que_ctor(&q[1], (a_size)sizes[qrnd() % 3]);
        a_que_ctor(&q[2], (a_size)sizes[qrnd() % 3]);
        int drain = 0, drain_at = 20 + (int)(qrnd() % 90), sorted_left = 0, pending = 0;
        for (int t = 0; t < nops; ++t)
        {
            int n = (int)q[1].num_, op = ops[qrnd() % (sizeof(ops) / sizeof(ops[0]))];
            if (qrnd() % 80 == 0) { op = 15 + (int)(qrnd() % 2); } /* emptying operations are rare so that the queues grow long */
            /* growth and drain phases: once the queue passes a threshold most steps take elements out again until it is
               empty, so that the pool of recycled nodes grows as long as the queue was (and is then consumed again) */
            if (!drain && n > drain_at) { drain = 1; }
            if (drain && n == 0) { drain = 0; drain_at = 20 + (int)(qrnd() % 90); }
            if (drain && qrnd() % 8 != 0) { op = 4 + (int)(qrnd() % 3); }
            /* sorted phases start on an empty queue: sorted insertions and other order-preserving steps; an arbitrary
               element pushed at the front (back) is put in its place by the following sort_fore (sort_back) */
            if (n == 0 && !sorted_left && qrnd() % 2 == 0) { sorted_left = 30 + (int)(qrnd() % 120); }
            if (sorted_left)
            {
                static int const keep[] = {12, 12, 12, 12, 12, 2, 1, 4, 5, 6, 7, 17};
                op = pending ? pending : keep[qrnd() % 12];
                pending = op == 2 ? 10 : op == 1 ? 11 : 0;
                --sorted_left;
                if (!sorted_left && pending) { sorted_left = 1; }
            }
            int where = (int)(qrnd() % 8);
            int a1 = where == 0 ? HUGE_M : where == 1 ? n + 1 : (n ? (int)(qrnd() % (unsigned)n) : 0), a2 = 10 * (int)(qrnd() % 10) + (int)(qrnd() % 10);
            int z1 = (int)q[1].siz_;
            if (op == 7) { a1 = (int)(qrnd() % (unsigned)(2 * n + 3)) - n - 1; }
            if (op == 13) { if (n < 1) { op = 17; } else { a1 = (int)(qrnd() % (unsigned)n); a2 = (int)(qrnd() % (unsigned)n); } }
            if (op == 16) { a1 = sizes[qrnd() % 3]; }
            snprintf(cur_desc, sizeof(cur_desc), "\"kind\":\"que\",\"op\":\"%s\",\"a1\":%d,\"a2\":%d,\"n\":%d,\"random\":1", qop[op], a1, a2, n);
            FILE *fo = fos[(n_events / 256) % nb];
            n_addr = 0;
            fprintf(fo, "{\"op\":\"%s\",\"a1\":%d,\"a2\":%d,\"pre\":{\"q1\":", qop[op], a1, a2);
            put_que(fo, &q[1], 0);
            fputs(",\"q2\":", fo);
            put_que(fo, &q[2], 0);
            fputs("}", fo);
            void *p = NULL;
            int rc = 0, rval = 0;
            a_byte keyobj[64];
            (void)keyobj; (void)z1;
            qcb = (op == 15 || op == 16) ? (int)(qrnd() & 1) : 0; qcb_siz = q[1].siz_; nqdlog = 0;
            f_begin(0, 0);
#include "que_ops.inc"
            f_end();
            int rid = p ? aid((a_list *)p - 1) : 0;
            if ((op == 1 || op == 2 || op == 3 || op == 12) && p) { put_elem((a_byte *)p, q[1].siz_, a2); }
            if ((op >= 4 && op <= 9) && p) { rval = get_elem((a_byte *)p, q[1].siz_); }
            fputs(",\"post\":{\"q1\":", fo);
            put_que(fo, &q[1], 1);
            fputs(",\"q2\":", fo);
            put_que(fo, &q[2], 1);
            fprintf(fo, "},\"ret\":%d,\"val\":%d,\"rc\":%d", rid, rval, rc);
            if (op == 17)
            {
                fputs(",\"walk\":{\"fwd\":[", fo); for (int i = 0; i < qwalk.nf; ++i) { fprintf(fo, i ? ",%d" : "%d", qwalk.fwd[i]); }
                fputs("],\"fwd2\":[", fo); for (int i = 0; i < qwalk.nf2; ++i) { fprintf(fo, i ? ",%d" : "%d", qwalk.fwd2[i]); }
                fputs("],\"rev\":[", fo); for (int i = 0; i < qwalk.nr; ++i) { fprintf(fo, i ? ",%d" : "%d", qwalk.rev[i]); }
                fputs("],\"rev2\":[", fo); for (int i = 0; i < qwalk.nr2; ++i) { fprintf(fo, i ? ",%d" : "%d", qwalk.rev2[i]); }
                fprintf(fo, "],\"acc\":%d,\"num\":%d,\"siz\":%d}", qwalk.acc, qwalk.num, qwalk.siz);
            }
            if (qcb) { put_qdlog(fo, "dtor"); qcb = 0; }
            fputs("}\n", fo);
            ++n_events;
            ++n_edges;
        }
        a_que_dtor(&q[1], NULL);
        a_que_dtor(&q[2], NULL);
    }
    for (int i = 0; i < nb; ++i) { fclose(fos[i]); }
    printf("SUMMARY {\"edges\":%ld,\"events\":%ld}\n", n_edges, n_events);
    return 0;
}

int main(int argc, char **argv)
{
    if (argc >= 7 && !strcmp(argv[1], "random"))
    {
        __sanitizer_set_death_callback(on_death);
        signal(SIGABRT, on_abort);
        f_install();
    f_on_hang = on_death;
        return do_que_random(strtoul(argv[2], 0, 10), atoi(argv[3]), atoi(argv[4]), argv[5], atoi(argv[6]));
    }
    if (argc < 5 || strcmp(argv[1], "edges"))
    {
        fprintf(stderr, "usage: %s edges <tlc-output> <out-prefix> <batches> [skip]\n", argv[0]);
        return 2;
    }
    __sanitizer_set_death_callback(on_death);
    signal(SIGABRT, on_abort);
    f_install();
    f_on_hang = on_death;
    if (argc > 6)
    {
        fault_out = fopen(argv[6], skip_until ? "a" : "w");
        if (!fault_out) { perror(argv[6]); return 3; }
    }
    if (argc > 5) { skip_until = atol(argv[5]); }
    FILE *fi = fopen(argv[2], "r");
    if (!fi) { perror(argv[2]); return 3; }
    int nb = atoi(argv[4]);
    if (nb > 64) { nb = 64; }
    FILE *fo[64];
    char name[512];
    for (int i = 0; i < nb; ++i)
    {
        snprintf(name, sizeof(name), "%s-%04d.ndjson", argv[3], i);
        fo[i] = fopen(name, skip_until ? "a" : "w");
        if (!fo[i]) { perror(name); return 3; }
    }
    static char line[1 << 16];
    static int v[4096];
    while (fgets(line, sizeof(line), fi))
    {
        int fam = strstr(line, "5555555") ? 0 : strstr(line, "4444444") ? 1 : strstr(line, "6666666") ? 2 : -1;
        if (fam < 0) { continue; }
        if (fam == 0 && !prims_done && !skip_until) { do_prims(fo[0]); prims_done = 1; }
        int n = parse_ints(line, v, 4096);
        ++n_edges;
        if (n_edges <= skip_until) { continue; }
        FILE *f = fo[(n_edges / 1024) % nb];
        last_reqs = 0;
        int rc = fam == 0 ? do_list(v, n, f) : fam == 1 ? do_slist(v, n, f) : do_que(v, n, f);
        if (rc) { return rc; }
        if (fault_out && fam == 2 && last_reqs > 0 && v[1] != 14)
        {
            long R = last_reqs;
            ++n_fault_edges;
            for (long k = 1; k <= R; ++k)
            {
                if ((rc = fault_que(v, k, 0)) != 0) { return rc; }
                if (k < R && (rc = fault_que(v, 0, k)) != 0) { return rc; }
            }
            fault_noretry = 1;
            if ((rc = fault_que(v, 0, 1)) != 0) { return rc; }
            fault_noretry = 0;
        }
    }
    for (int i = 0; i < nb; ++i) { fclose(fo[i]); }
    if (fault_out) { fclose(fault_out); }
    printf("FAULTS {\"edges\":%ld,\"runs\":%ld}\n", n_fault_edges, n_fault_runs);
    printf("SUMMARY {\"edges\":%ld,\"events\":%ld,\"mismatch\":%ld,\"drift\":%ld,\"nontrivial\":%ld,\"ops\":[", n_edges, n_events, n_mismatch, n_drift, n_nontrivial);
    for (int f = 0; f < 3; ++f)
    {
        printf(f ? ",[" : "[");
        for (int i = 0; i < 18; ++i) { printf(i ? ",%ld" : "%ld", op_cnt[f][i]); }
        printf("]");
    }
    printf("]}\n");
    return 0;
}
