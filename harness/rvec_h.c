/* Harness for the reductions / array helpers / coordinate conversions of src/math.c (C11).
 * Data sets have a perfect-square sum of squares; every length 0..5, strides 1..3, leading zeros. */
#include <stdio.h>
#include <stdlib.h>
#include <string.h>
#include "a/math.h"
#include "num.h"

static long n_events;
static FILE *f;
static void put_ints(int const *a, int n)
{
    fputc('[', f);
    for (int i = 0; i < n; ++i) { fprintf(f, i ? ",%d" : "%d", a[i]); }
    fputc(']', f);
}
static void put_arr(char const *name, a_real const *a, int n)
{
    double d[32];
    for (int i = 0; i < n; ++i) { d[i] = (double)a[i]; }
    fprintf(f, ",\"%s\":", name);
    put_dyadics(f, d, n);
}
/* vectors with a perfect-square sum of squares, by length */
static int const sets[][6] = {
    {0, 0, 0, 0, 0, 0}, {7, 0, 0, 0, 0, 0}, {-5, 0, 0, 0, 0, 0},
    {3, 4, 0, 0, 0, 0}, {-8, 6, 0, 0, 0, 0}, {0, 9, 0, 0, 0, 0},
    {2, 3, 6, 0, 0, 0}, {1, -2, 2, 0, 0, 0}, {0, 0, 5, 0, 0, 0}, {-4, 4, 7, 0, 0, 0},
    {1, 1, 1, 1, 0, 0}, {2, 4, 5, 6, 0, 0}, {0, 0, 3, -4, 0, 0}, {1, 3, 5, 17, 0, 0},
    {1, 1, 1, 2, 3, 0}, {0, 0, 0, 3, 4, 0}, {2, 2, 2, 2, 3, 0},
    {-7, 4, 4, 0, 0, 0}, {-12, 5, 0, 0, 0, 0}, /* the largest magnitude carries a minus sign (and comes first) */
};
static int const lens[] = {0, 1, 1, 2, 2, 2, 3, 3, 3, 3, 4, 4, 4, 4, 5, 5, 5, 3, 2};

int main(int argc, char **argv)
{
    if (argc < 2) { return 2; }
    f = fopen(argv[1], "w");
    if (!f) { perror(argv[1]); return 3; }
    for (size_t k = 0; k < sizeof(lens) / sizeof(lens[0]); ++k)
    {
        int n = lens[k];
        for (int c = 1; c <= 3; ++c)
        {
            for (int d = 1; d <= 3; d += 2)
            {
                a_real p[24], q[24], s[24];
                int pi[24], qi[24];
                for (int i = 0; i < 24; ++i) { pi[i] = 100 + i; qi[i] = 50 - 3 * i; } /* decoys between the strided elements */
                for (int i = 0; i < n; ++i) { pi[i * c] = sets[k][i]; qi[i * d] = (i % 2 ? -1 : 2) * (i + 1); }
                for (int i = 0; i < 24; ++i) { p[i] = (a_real)pi[i]; q[i] = (a_real)qi[i]; }
                fprintf(f, "{\"f\":\"reduce\",\"n\":%d,\"c\":%d,\"d\":%d,\"p\":", n, c, d);
                put_ints(pi, 16);
                fputs(",\"q\":", f);
                put_ints(qi, 16);
                fputs(",\"sum\":", f); put_dyadic(f, (double)a_real_sum_((a_size)n, p, (a_size)c));
                fputs(",\"sum1\":", f); put_dyadic(f, (double)a_real_sum1_((a_size)n, p, (a_size)c));
                fputs(",\"sum2\":", f); put_dyadic(f, (double)a_real_sum2_((a_size)n, p, (a_size)c));
                fputs(",\"mean\":", f); put_value(f, n ? (double)a_real_mean_((a_size)n, p, (a_size)c) : 0.0);
                fputs(",\"dot\":", f); put_dyadic(f, (double)a_real_dot_((a_size)n, p, (a_size)c, q, (a_size)d));
                fputs(",\"norm\":", f); put_value(f, (double)a_real_norm_((a_size)n, p, (a_size)c));
                fputs(",\"scaled\":[", f);
                int first = 1;
                for (int sh = -1500; sh <= 1000; sh += 500)
                {
                    /* -1500 stands for the subnormal range: 2^-1070 (float 2^-145) */
                    int e = sh == -1500 ? (sizeof(a_real) == 4 ? -145 : -1070) : (sizeof(a_real) == 4 ? sh / 10 : sh);
                    for (int i = 0; i < 24; ++i) { s[i] = (a_real)ldexp((double)p[i], e); }
                    double r = ldexp((double)a_real_norm_((a_size)n, s, (a_size)c), -e);
                    if (!first) { fputc(',', f); }
                    put_value(f, r);
                    first = 0;
                    if (c == 1)
                    {
                        fputc(',', f);
                        put_value(f, ldexp((double)a_real_norm((a_size)n, s), -e));
                    }
                    /* the fixed-arity norms on the same scaled data */
                    /* ... in every argument order (the largest component first, in the middle, last) */
                    if (n == 2)
                    {
                        fputc(',', f); put_value(f, ldexp((double)a_real_norm2(s[0], s[c]), -e));
                        fputc(',', f); put_value(f, ldexp((double)a_real_norm2(s[c], s[0]), -e));
                    }
                    if (n == 3)
                    {
                        static int const perm[6][3] = {{0, 1, 2}, {0, 2, 1}, {1, 0, 2}, {1, 2, 0}, {2, 0, 1}, {2, 1, 0}};
                        for (int q = 0; q < 6; ++q)
                        {
                            fputc(',', f);
                            put_value(f, ldexp((double)a_real_norm3(s[perm[q][0] * c], s[perm[q][1] * c], s[perm[q][2] * c]), -e));
                        }
                    }
                }
                fputs("],\"norm2\":", f); put_value(f, n == 2 ? (double)a_real_norm2(p[0], p[c]) : 0.0);
                fputs(",\"norm3\":", f); put_value(f, n == 3 ? (double)a_real_norm3(p[0], p[c], p[2 * c]) : 0.0);
                if (c == 1 && d == 1)
                {
                    /* the unstrided twins must agree with the strided ones at stride 1 */
                    if (a_real_sum((a_size)n, p) != a_real_sum_((a_size)n, p, 1) || a_real_sum1((a_size)n, p) != a_real_sum1_((a_size)n, p, 1) ||
                        a_real_sum2((a_size)n, p) != a_real_sum2_((a_size)n, p, 1) || a_real_dot((a_size)n, p, q) != a_real_dot_((a_size)n, p, 1, q, 1) ||
                        a_real_norm((a_size)n, p) != a_real_norm_((a_size)n, p, 1) || (n && a_real_mean((a_size)n, p) != a_real_mean_((a_size)n, p, 1)))
                    {
                        fputs(",\"twins\":0", f);
                    }
                    /* ... and are judged by themselves as well */
                    fputs(",\"u\":{\"sum\":", f); put_dyadic(f, (double)a_real_sum((a_size)n, p));
                    fputs(",\"sum1\":", f); put_dyadic(f, (double)a_real_sum1((a_size)n, p));
                    fputs(",\"sum2\":", f); put_dyadic(f, (double)a_real_sum2((a_size)n, p));
                    fputs(",\"dot\":", f); put_dyadic(f, (double)a_real_dot((a_size)n, p, q));
                    fputs(",\"mean\":", f); put_value(f, n ? (double)a_real_mean((a_size)n, p) : 0.0);
                    fputs(",\"norm\":", f); put_value(f, (double)a_real_norm((a_size)n, p));
                    fputc('}', f);
                }
                fputs("}\n", f);
                ++n_events;
            }
        }
    }
    /* copy / swap / fill / zero / push / roll on integer arrays of length 6, n = 0..5 */
    for (int n = 0; n <= 5; ++n)
    {
        for (int dc = 1; dc <= 2; ++dc) for (int sc = 1; sc <= 2; ++sc)
        {
            int ai[12], bi[12];
            a_real a[12], b[12], t[12], u[12];
            for (int i = 0; i < 12; ++i) { ai[i] = 11 + i * i; bi[i] = -20 - 3 * i; a[i] = (a_real)ai[i]; b[i] = (a_real)bi[i]; }
            fprintf(f, "{\"f\":\"move\",\"n\":%d,\"dc\":%d,\"sc\":%d,\"a\":", n, dc, sc);
            put_ints(ai, 12);
            fputs(",\"b\":", f);
            put_ints(bi, 12);
            memcpy(t, b, sizeof(t)); a_real_copy((a_size)n, t, a); memcpy(t + n, a + n, sizeof(a_real) * (size_t)(12 - n)); put_arr("copy", t, 12);
            memcpy(t, b, sizeof(t)); a_real_copy_((a_size)n, t, (a_size)dc, a, (a_size)sc); put_arr("copy_s", t, 12);
            memcpy(t, a, sizeof(t)); memcpy(u, b, sizeof(u)); a_real_swap((a_size)n, t, u); put_arr("swap_a", t, 12); put_arr("swap_b", u, 12);
            memcpy(t, a, sizeof(t)); a_real_fill((a_size)n, t, 7); put_arr("fill", t, 12);
            memcpy(t, a, sizeof(t)); a_real_zero((a_size)n, t); put_arr("zero", t, 12);
            memcpy(t, a, sizeof(t)); a_real_push_fore(t, (a_size)n, 9); put_arr("push_fore", t, 12);
            memcpy(t, a, sizeof(t)); a_real_push_back(t, (a_size)n, 9); put_arr("push_back", t, 12);
            memcpy(t, a, sizeof(t)); a_real_roll_fore(t, (a_size)n); put_arr("roll_fore", t, 12);
            memcpy(t, a, sizeof(t)); a_real_roll_back(t, (a_size)n); put_arr("roll_back", t, 12);
            fputs("}\n", f);
            ++n_events;
        }
    }
    /* coordinate conversions at axis points and Pythagorean points */
    static int const pts[][4] = {{3, 0, 0, 0}, {0, 4, 0, 2}, {-5, 0, 0, 4}, {0, -2, 0, -2}, {3, 3, 0, 1}, {-2, 2, 0, 3}, {-1, -1, 0, -3}, {4, -4, 0, -1},
                                 {3, 4, 0, -9}, {2, 3, 6, -9}, {1, -2, 2, -9}, {0, 0, 5, -9}, {-4, 4, 7, -9}, {0, 3, -4, -9}};
    for (size_t k = 0; k < sizeof(pts) / sizeof(pts[0]); ++k)
    {
        a_real rho, theta, alpha, x, y, z;
        a_real_cart2sph((a_real)pts[k][0], (a_real)pts[k][1], (a_real)pts[k][2], &rho, &theta, &alpha);
        a_real_sph2cart(rho, theta, alpha, &x, &y, &z);
        int intrho = !(pts[k][0] && pts[k][1] && pts[k][0] * pts[k][0] == pts[k][1] * pts[k][1]);
        fprintf(f, "{\"f\":\"coord\",\"x\":%d,\"y\":%d,\"z\":%d,\"oct\":%d,\"intrho\":%d,\"rho\":", pts[k][0], pts[k][1], pts[k][2], pts[k][3], intrho);
        put_value(f, (double)rho);
        fputs(",\"theta4\":", f); put_value(f, (double)theta / 0.78539816339744830962);
        fputs(",\"back\":[", f); put_value(f, (double)x); fputc(',', f); put_value(f, (double)y); fputc(',', f); put_value(f, (double)z);
        fputs("]}\n", f);
        ++n_events;
        if (pts[k][2] == 0)
        {
            a_real r2, t2, x2, y2;
            a_real_cart2pol((a_real)pts[k][0], (a_real)pts[k][1], &r2, &t2);
            a_real_pol2cart(r2, t2, &x2, &y2);
            fprintf(f, "{\"f\":\"coord\",\"x\":%d,\"y\":%d,\"z\":0,\"oct\":%d,\"intrho\":%d,\"rho\":", pts[k][0], pts[k][1], pts[k][3], intrho);
            put_value(f, (double)r2);
            fputs(",\"theta4\":", f); put_value(f, (double)t2 / 0.78539816339744830962);
            fputs(",\"back\":[", f); put_value(f, (double)x2); fputc(',', f); put_value(f, (double)y2); fputs(",[0,0]]}\n", f);
            ++n_events;
        }
    }
    /* bulk shift helpers: block of length bn (inside a longer array with sentinels), cache / shift count of every length */
    for (int bn = 1; bn <= 5; ++bn)
    {
        for (int cn = 0; cn <= bn + 2; ++cn)
        {
            int bi[8], ci[8];
            a_real b[8], c[8], t[8], sh[8];
            for (int i = 0; i < 8; ++i) { bi[i] = 10 + i; ci[i] = -(i + 1); b[i] = (a_real)bi[i]; c[i] = (a_real)ci[i]; }
            fprintf(f, "{\"f\":\"bulk\",\"bn\":%d,\"cn\":%d,\"b\":", bn, cn);
            put_ints(bi, 8);
            fputs(",\"c\":", f);
            put_ints(ci, 8);
            memcpy(t, b, sizeof(t)); a_real_push_fore_(t, (a_size)bn, c, (a_size)cn); put_arr("push_fore", t, 8);
            memcpy(t, b, sizeof(t)); a_real_push_back_(t, (a_size)bn, c, (a_size)cn); put_arr("push_back", t, 8);
            /* rotation by cn, 2*bn + cn: the scratch array needs (count mod bn) slots */
            memcpy(t, b, sizeof(t)); memset(sh, 0, sizeof(sh)); a_real_roll_fore_(t, (a_size)bn, sh, (a_size)cn); put_arr("roll_fore", t, 8);
            memcpy(t, b, sizeof(t)); memset(sh, 0, sizeof(sh)); a_real_roll_back_(t, (a_size)bn, sh, (a_size)cn); put_arr("roll_back", t, 8);
            memcpy(t, b, sizeof(t)); memset(sh, 0, sizeof(sh)); a_real_roll_fore_(t, (a_size)bn, sh, (a_size)(2 * bn + cn)); put_arr("roll_fore2", t, 8);
            memcpy(t, b, sizeof(t)); memset(sh, 0, sizeof(sh)); a_real_roll_back_(t, (a_size)bn, sh, (a_size)(2 * bn + cn)); put_arr("roll_back2", t, 8);
            fputs("}\n", f);
            ++n_events;
        }
    }
    /* strided swap: n elements at strides lc, rc of two arrays of 12 */
    for (int n = 0; n <= 4; ++n)
    {
        for (int lc = 1; lc <= 3; ++lc) for (int rc = 1; rc <= 2; ++rc)
        {
            int ai[12], bi[12];
            a_real a[12], b[12];
            for (int i = 0; i < 12; ++i) { ai[i] = 3 * i + 1; bi[i] = -5 * i - 2; a[i] = (a_real)ai[i]; b[i] = (a_real)bi[i]; }
            fprintf(f, "{\"f\":\"swaps\",\"n\":%d,\"lc\":%d,\"rc\":%d,\"a\":", n, lc, rc);
            put_ints(ai, 12);
            fputs(",\"b\":", f);
            put_ints(bi, 12);
            a_real_swap_((a_size)n, a, (a_size)lc, b, (a_size)rc);
            put_arr("ra", a, 12); put_arr("rb", b, 12);
            fputs("}\n", f);
            ++n_events;
        }
    }
    /* degree / radian conversion: quarter turns are exact multiples */
    for (int q = -8; q <= 8; ++q)
    {
        fprintf(f, "{\"f\":\"angle\",\"q\":%d,\"deg\":", q);
        put_value(f, (double)a_real_rad2deg((a_real)(q * 0.78539816339744830962)));
        fputs(",\"rad4\":", f); put_value(f, (double)a_real_deg2rad((a_real)(45 * q)) / 0.78539816339744830962);
        fputs("}\n", f);
        ++n_events;
    }
    /* norms of components that differ by hundreds of binary orders, the huge one negative, in every position: the result
       is the huge magnitude (scaled back to 1) - squaring the ratio to a smaller component would overflow */
    {
        int const E = sizeof(a_real) == 4 ? 100 : 600;
        a_real const H = (a_real)ldexp(1.0, E);
        a_real v[3];
        fputs("{\"f\":\"normmix\",\"vals\":[", f);
        int first = 1;
        for (int pos = 0; pos < 3; ++pos)
        {
            for (int sg = -1; sg <= 1; sg += 2)
            {
                v[0] = 3; v[1] = 4; v[2] = 2; v[pos] = (a_real)sg * H;
                double r3 = ldexp((double)a_real_norm3(v[0], v[1], v[2]), -E), rn = ldexp((double)a_real_norm(3, v), -E);
                double r2 = pos < 2 ? ldexp((double)a_real_norm2(v[0], v[1]), -E) : 1.0;
                if (!first) { fputc(',', f); }
                first = 0;
                put_value(f, r3); fputc(',', f); put_value(f, rn); fputc(',', f); put_value(f, r2);
            }
        }
        fputs("]}\n", f);
        ++n_events;
    }
    fclose(f);
    printf("SUMMARY {\"events\":%ld}\n", n_events);
    return 0;
}
