/* Conformance harness for a_vec and a_buf (C04) and, with a failing allocator, C07.
 *
 * mode "edges": replay every transition emitted by TLC from SeqMC into the real
 * code.  The pre-state (contents, capacity, element size) is materialised directly
 * in the public fields with an allocation of exactly mem*siz bytes, so that any
 * write past the capacity is an ASan report.  After the call the object is
 * projected, compared natively with the specification's post-state / return value,
 * and logged as ndjson for TLC trace validation (SeqTrace.tla).
 */
#include <stdio.h>
#include <stdlib.h>
#include <string.h>
#include <stdint.h>
#include <signal.h>
#include <unistd.h>
#include "a/vec.h"
#include "a/buf.h"
#include "fault.h"

#define MARK 8888888
#define MAXL 256
#define HUGE_M 1000000

static long n_edges, n_events, n_mismatch, n_drift, n_nontrivial;
static long case_cnt[16], op_cnt[32];
static int mismatch_printed;

static char const *opname[] = {"?", "push_back", "push_fore", "insert", "pull_back", "pull_fore", "remove", "store", "erase", "setn", "setm",
                               "setz", "sort", "sort_fore", "sort_back", "push_sort", "search", "at", "of", "top", "create", "walk", "push", "pull"};

/* element types for the typed traversal macros (one per element size the models use) */
typedef struct { a_byte b[1]; } elem1;
typedef struct { a_byte b[2]; } elem2;
typedef struct { a_byte b[3]; } elem3;
typedef struct { a_byte b[8]; } elem8;
typedef struct { a_byte b[24]; } elem24;
#ifndef MAXL
#define MAXL 32
#endif
static struct
{
    int fwd[MAXL], fwd2[MAXL], rev[MAXL], rev2[MAXL], idx[MAXL], ridx[MAXL];
    int nf, nf2, nr, nr2, ni, nri, acc, g[3];
} walk;
static void put_elem(a_byte *p, a_size siz, int v)
{
    for (a_size j = 0; j < siz; ++j) { p[j] = (a_byte)(v + 31 * (int)j); }
}
static int get_elem(a_byte const *p, a_size siz)
{
    int v = p[0];
    for (a_size j = 1; j < siz; ++j)
    {
        if (p[j] != (a_byte)(v + 31 * (int)j)) { return 255; }
    }
    return v;
}
static int cmp_key(void const *l, void const *r)
{
    int a = *(a_byte const *)l / 10, b = *(a_byte const *)r / 10;
    return (a > b) - (a < b);
}
static a_size to_size(int x)
{
    if (x == HUGE_M) { return (a_size)-1; }
    if (x == HUGE_M - 1) { return (a_size)-2; }
    return (a_size)x;
}

typedef struct
{
    int kind; /* 1 vec, 2 buf */
    a_vec v;
    a_buf *b;
} obj;

static a_byte *base(obj *o) { return o->kind == 1 ? (a_byte *)o->v.ptr_ : (a_byte *)(o->b + 1); }
static a_size o_num(obj *o) { return o->kind == 1 ? o->v.num_ : o->b->num_; }
static a_size o_mem(obj *o) { return o->kind == 1 ? o->v.mem_ : o->b->mem_; }
static a_size o_siz(obj *o) { return o->kind == 1 ? o->v.siz_ : o->b->siz_; }

static int mat_owned0, fault_noretry;
static void materialise(obj *o, int kind, int siz, int mem, int n, int const *seq)
{
    o->kind = kind;
    if (kind == 1)
    {
        o->v.siz_ = (a_size)siz;
        o->v.mem_ = (a_size)mem;
        o->v.num_ = (a_size)n;
        /* capacity zero has two concrete forms: no block at all, or (after a change to an element size larger than the
           whole block) a block that holds no element; mat_owned0 selects the second */
        o->v.ptr_ = mem ? a_alloc(NULL, (a_size)siz * (a_size)mem) : mat_owned0 ? a_alloc(NULL, 8) : NULL;
        o->b = NULL;
    }
    else
    {
        o->b = (a_buf *)a_alloc(NULL, sizeof(a_buf) + (a_size)siz * (a_size)mem);
        o->b->siz_ = (a_size)siz;
        o->b->mem_ = (a_size)mem;
        o->b->num_ = (a_size)n;
    }
    for (int i = 0; i < n; ++i) { put_elem(base(o) + (a_size)i * (a_size)siz, (a_size)siz, seq[i]); }
}
static void destroy(obj *o)
{
    if (o->kind == 1) { a_vec_dtor(&o->v, NULL); }
    else if (o->b) { a_alloc(o->b, 0); o->b = NULL; }
}

/* slot index of a pointer returned by the library: -1 null, -3 outside owned storage */
static int slot_of(obj *o, void *p)
{
    if (!p) { return -1; }
    a_byte *b = base(o);
    a_size siz = o_siz(o), mem = o_mem(o);
    if (!b || (a_byte *)p < b || (a_byte *)p >= b + siz * mem) { return -3; }
    if (((a_byte *)p - b) % (ptrdiff_t)siz) { return -3; }
    return (int)(((a_byte *)p - b) / (ptrdiff_t)siz);
}

static void put_seq(FILE *f, int const *a, int n)
{
    fputc('[', f);
    for (int i = 0; i < n; ++i) { fprintf(f, i ? ",%d" : "%d", a[i]); }
    fputc(']', f);
}

typedef struct
{
    int kind, op, a1, a2, slot, val, rc, cmp, cas, siz, mem, n, siz2, mem2, n2, nblk;
    int seq[MAXL], seq2[MAXL], blk[MAXL];
} edge;

/* element callbacks: with cb_mode on, the operations that take a destructor or a copy function get recording ones
   (the destructor notes the value of the element it is handed, the copy function copies and counts) */
static int cb_mode, cb_final_valid;
static a_size cb_siz;
static int dlog[MAXL + 8], ndlog, ncopies, flog[MAXL + 8], nflog;
static void rec_dtor(void *p)
{
    if (ndlog < MAXL) { dlog[ndlog] = get_elem((a_byte const *)p, cb_siz); }
    ++ndlog;
}
static int rec_copy(void *dst, void const *src)
{
    memcpy(dst, src, cb_siz);
    ++ncopies;
    return 0;
}
#define CB_DTOR (cb_mode ? rec_dtor : (void (*)(void *))0)
#define CB_COPY (cb_mode ? rec_copy : (int (*)(void *, void const *))0)
static void log_event(FILE *f, edge const *e, int rslot, int rval, int rc, int pnum, int pmem, int psiz, int const *pseq)
{
    fprintf(f, "{\"kind\":%d,\"op\":\"%s\",\"a1\":%d,\"a2\":%d,\"blk\":", e->kind, opname[e->op], e->a1, e->a2);
    put_seq(f, e->blk, e->nblk);
    fprintf(f, ",\"pre\":{\"mem\":%d,\"siz\":%d,\"seq\":", e->mem, e->siz);
    put_seq(f, e->seq, e->n);
    fprintf(f, "},\"post\":{\"mem\":%d,\"siz\":%d,\"seq\":", pmem, psiz);
    put_seq(f, pseq, pnum);
    fprintf(f, "},\"slot\":%d,\"val\":%d,\"rc\":%d", rslot, rval, rc);
    if (e->op == 21)
    {
        fputs(",\"walk\":{\"fwd\":", f); put_seq(f, walk.fwd, walk.nf);
        fputs(",\"fwd2\":", f); put_seq(f, walk.fwd2, walk.nf2);
        fputs(",\"rev\":", f); put_seq(f, walk.rev, walk.nr);
        fputs(",\"rev2\":", f); put_seq(f, walk.rev2, walk.nr2);
        fputs(",\"idx\":", f); put_seq(f, walk.idx, walk.ni);
        fputs(",\"ridx\":", f); put_seq(f, walk.ridx, walk.nri);
        fprintf(f, ",\"acc\":%d,\"getters\":[%d,%d,%d]}", walk.acc, walk.g[0], walk.g[1], walk.g[2]);
    }
    if (cb_mode)
    {
        fputs(",\"cb\":{\"dtor\":", f); put_seq(f, dlog, ndlog > MAXL ? MAXL : ndlog);
        fprintf(f, ",\"ndtor\":%d,\"copies\":%d}", ndlog, ncopies);
        if (cb_final_valid) { fputs(",\"final\":", f); put_seq(f, flog, nflog > MAXL ? MAXL : nflog); }
    }
    fputs("}\n", f);
    ++n_events;
}

static void mismatch(char const *what, edge const *e, int rslot, int rval, int rc, int pnum, int pmem, int psiz, int const *pseq)
{
    ++n_mismatch;
    if (mismatch_printed++ < 12)
    {
        int huge = e->a1 >= HUGE_M - 1 || e->a2 >= HUGE_M - 1;
        printf("MISMATCH {\"what\":\"%s\",\"kind\":\"%s\",\"op\":\"%s\",\"class\":\"%s\",\"a1\":%d,\"a2\":%d,\"siz\":%d,\"mem\":%d,\"pre\":", what,
               e->kind == 1 ? "vec" : "buf", opname[e->op], huge ? "huge-index" : (e->cas == 2 ? "full" : "any"), e->a1, e->a2, e->siz, e->mem);
        put_seq(stdout, e->seq, e->n);
        printf(",\"expected\":");
        put_seq(stdout, e->seq2, e->n2);
        printf(",\"got\":");
        put_seq(stdout, pseq, pnum > MAXL ? MAXL : pnum);
        printf(",\"got_num\":%d,\"got_mem\":%d,\"got_siz\":%d,\"slot\":%d,\"exp_slot\":%d,\"val\":%d,\"exp_val\":%d,\"rc\":%d,\"exp_rc\":%d}\n", pnum, pmem, psiz,
               rslot, e->slot, rval, e->val, rc, e->rc);
    }
}

static edge const *cur_edge;
static long skip_until;
void __sanitizer_set_death_callback(void (*cb)(void));
static void on_death(void)
{
    edge const *e = cur_edge;
    if (e)
    {
        int huge = e->a1 >= HUGE_M - 1 || e->a2 >= HUGE_M - 1;
        fprintf(stdout, "CRASH {\"edge\":%ld,\"kind\":\"%s\",\"op\":\"%s\",\"class\":\"%s\",\"a1\":%d,\"a2\":%d,\"siz\":%d,\"mem\":%d,\"n\":%d}\n", n_edges,
                e->kind == 1 ? "vec" : "buf", opname[e->op], huge ? "huge-index" : (e->cas == 2 ? "full" : "any"), e->a1, e->a2, e->siz, e->mem, e->n);
        fflush(stdout);
    }
}
static void on_abort(int sig)
{
    (void)sig;
    on_death(); /* UBSan (abort_on_error=1) raises SIGABRT without running the death callback */
    _exit(97);
}

static int same_bag(int const *a, int const *b, int n)
{
    int ca[256] = {0}, cb[256] = {0};
    for (int i = 0; i < n; ++i)
    {
        ca[a[i] & 255]++;
        cb[b[i] & 255]++;
    }
    return !memcmp(ca, cb, sizeof(ca));
}

#define CALL(vf, bf) (isvec ? vf : bf)
static long last_reqs, n_fault_runs, n_fault_edges;
static FILE *fault_out;

static void project_obj(obj *o, int *pnum, int *pmem, int *psiz, int *pseq)
{
    *pnum = (int)(o_num(o) > 1000000 ? 1000000 : o_num(o));
    *pmem = (int)(o_mem(o) > 1000000 ? 1000000 : o_mem(o));
    *psiz = (int)o_siz(o);
    int readable = *pnum <= *pmem && *pnum <= MAXL;
    for (int i = 0; readable && i < *pnum; ++i) { pseq[i] = get_elem(base(o) + (a_size)i * (a_size)*psiz, (a_size)*psiz); }
    if (!readable) { *pnum = -1; }
}

/* C07: the same transition under a fault plan: request k fails (single) or every request from k on fails */
static int fault_edge(edge const *e, long single, long from)
{
    obj o;
    memset(&o, 0, sizeof(o));
    cur_edge = e;
    int base_live = f_nlive, base_id = f_nextid;
    long badfree0 = f_badfree;
    materialise(&o, e->kind, e->siz, e->mem, e->n, e->seq);
    void *p = NULL;
    int rc = 0, rslot = -1, rval = 0;
    a_size oldnum = (a_size)e->n;
    a_byte blk[MAXL * 16];
    a_byte keyobj[64];
    int isvec = e->kind == 1;
    a_buf *before = o.b;
    char live0[256];
    {
        size_t w = 0;
        live0[0] = 0;
        for (int i = 0; i < f_nlive; ++i)
        {
            if (f_live[i].id > base_id && w + 16 < sizeof(live0)) { w += (size_t)snprintf(live0 + w, sizeof(live0) - w, w ? ",%d" : "%d", f_live[i].id); }
        }
    }
    f_begin(single, from);
#include "seq_ops.inc"
    f_end();
    FILE *f = fault_out;
    int failed = (int)f_failed;
    int ret_fail;
    switch (e->op)
    {
    case 7: case 9: ret_fail = rc == 4; break;
    case 10: ret_fail = isvec ? rc == 4 : rc == 4; break;
    default: ret_fail = p == NULL; break;
    }
    (void)before;
    fprintf(f, "{\"fam\":\"%s\",\"op\":\"%s\",\"a1\":%d,\"a2\":%d,\"plan\":\"%s\",\"k\":%ld,\"failed\":%d,\"pre\":{\"mem\":%d,\"siz\":%d,\"seq\":", isvec ? "vec" : "buf",
            opname[e->op], e->a1, e->a2, single ? "single" : "from", single ? single : from, failed, e->mem, e->siz);
    put_seq(f, e->seq, e->n);
    fputs("},\"live0\":[", f);
    fputs(live0, f);
    fputs("],\"reqs\":", f);
    f_put_log(f);
    int pnum, pmem, psiz, pseq[MAXL];
    project_obj(&o, &pnum, &pmem, &psiz, pseq);
    fprintf(f, ",\"fail\":{\"ret_fail\":%d,\"num\":%d,\"mem\":%d,\"siz\":%d,\"seq\":", ret_fail, pnum, pmem, psiz);
    put_seq(f, pseq, pnum > 0 ? pnum : 0);
    if (fault_noretry)
    {
        /* the container is destroyed right after the failed call */
        fprintf(f, "},\"noretry\":1,\"owned0\":%d,\"retry\":{\"ok\":0", mat_owned0);
        goto destroy_it;
    }
    /* retry with a healthy allocator */
    p = NULL; rc = 0;
    oldnum = o_num(&o);
    f_begin(0, 0);
#include "seq_ops.inc"
    f_end();
#include "seq_post.inc"
    int retry_ok;
    switch (e->op)
    {
    case 7: case 9: case 10: retry_ok = rc == 0; break;
    default: retry_ok = p != NULL; break;
    }
    (void)rval;
    project_obj(&o, &pnum, &pmem, &psiz, pseq);
    fprintf(f, "},\"owned0\":%d,\"retry\":{\"ok\":%d,\"num\":%d,\"mem\":%d,\"seq\":", mat_owned0, retry_ok, pnum, pmem);
    put_seq(f, pseq, pnum > 0 ? pnum : 0);
destroy_it:
    fputs("},\"expected\":", f);
    put_seq(f, e->seq2, e->n2);
    destroy(&o);
    /* ledger: everything obtained since the start of this run must be gone */
    fputs(",\"leak\":[", f);
    int first = 1;
    for (int i = 0; i < f_nlive; ++i)
    {
        if (f_live[i].id > base_id) { fprintf(f, first ? "%d" : ",%d", f_live[i].id); first = 0; }
    }
    fprintf(f, "],\"badfree\":%ld}\n", f_badfree - badfree0);
    (void)base_live;
    ++n_fault_runs;
    return 0;
}

/* the same transition once more with recording callbacks; the container is then destroyed with the recording destructor
   as well.  Judged by the trace specification only (contents as before; destructor handed exactly the discarded elements,
   copy function called once per stored element, destruction hands over exactly what was left). */
static int run_edge_cb(edge const *e, FILE *fo)
{
    obj o;
    memset(&o, 0, sizeof(o));
    cur_edge = e;
    materialise(&o, e->kind, e->siz, e->mem, e->n, e->seq);
    void *p = NULL;
    int rc = 0, rslot = -1, rval = 0;
    a_size oldnum = (a_size)e->n;
    a_byte blk[MAXL * 16];
    a_byte keyobj[64];
    int isvec = e->kind == 1;
    (void)keyobj; (void)oldnum; (void)p;
    cb_mode = 1; cb_siz = (a_size)e->siz; ndlog = ncopies = 0; cb_final_valid = 0;
    f_begin(0, 0);
#include "seq_ops.inc"
    f_end();
#include "seq_post.inc"
    int pnum = (int)(o_num(&o) > 1000000 ? 1000000 : o_num(&o)), pmem = (int)(o_mem(&o) > 1000000 ? 1000000 : o_mem(&o)), psiz = (int)o_siz(&o);
    int pseq[MAXL];
    int readable = pnum <= pmem && pnum <= MAXL;
    for (int i = 0; readable && i < pnum; ++i) { pseq[i] = get_elem(base(&o) + (a_size)i * (a_size)psiz, (a_size)psiz); }
    /* destruction with the recording destructor (into the second log) */
    int keep_n = ndlog, keep[MAXL + 8];
    memcpy(keep, dlog, sizeof(int) * (size_t)(keep_n > MAXL ? MAXL : keep_n));
    ndlog = 0; cb_siz = (a_size)psiz;
    if (readable)
    {
        if (isvec) { a_vec_dtor(&o.v, rec_dtor); }
        else if (o.b) { a_buf_dtor(o.b, rec_dtor); a_alloc(o.b, 0); o.b = NULL; }
        nflog = ndlog; memcpy(flog, dlog, sizeof(int) * (size_t)(nflog > MAXL ? MAXL : nflog));
        cb_final_valid = 1;
    }
    else { destroy(&o); }
    ndlog = keep_n; memcpy(dlog, keep, sizeof(int) * (size_t)(keep_n > MAXL ? MAXL : keep_n));
    log_event(fo, e, rslot, rval, rc, readable ? pnum : 0, pmem, psiz, pseq);
    cb_mode = 0; cb_final_valid = 0;
    return 0;
}

static int run_edge(edge const *e, FILE *fo)
{
    obj o;
    memset(&o, 0, sizeof(o));
    cur_edge = e;
    if (e->op == 20)
    {
        /* create: a1 = element size argument (0 allowed), a2 = capacity (buf), val = value pushed */
        o.kind = e->kind;
    }
    else { materialise(&o, e->kind, e->siz, e->mem, e->n, e->seq); }
    void *p = NULL;
    int rc = 0, rslot = -1, rval = 0;
    a_size oldnum = (a_size)e->n;
    a_byte blk[MAXL * 16];
    a_byte keyobj[64];
    int isvec = e->kind == 1;
    f_begin(0, 0);
#include "seq_ops.inc"
    f_end();
    last_reqs = f_req;
#include "seq_post.inc"
    /* projection */
    int pnum = (int)(o_num(&o) > 1000000 ? 1000000 : o_num(&o)), pmem = (int)(o_mem(&o) > 1000000 ? 1000000 : o_mem(&o)), psiz = (int)o_siz(&o);
    int pseq[MAXL];
    int readable = pnum <= pmem && pnum <= MAXL;
    for (int i = 0; readable && i < pnum; ++i) { pseq[i] = get_elem(base(&o) + (a_size)i * (a_size)psiz, (a_size)psiz); }
    int lognum = readable ? pnum : 0;
    /* native comparison with the specification's expectation */
    int ok = 1;
    if (pnum > pmem) { mismatch("num>mem", e, rslot, rval, rc, lognum, pmem, psiz, pseq); ok = 0; }
    else if (pnum != e->n2) { mismatch("length", e, rslot, rval, rc, lognum, pmem, psiz, pseq); ok = 0; }
    else if (psiz != e->siz2) { mismatch("elemsize", e, rslot, rval, rc, lognum, pmem, psiz, pseq); ok = 0; }
    else
    {
        if (e->cmp == 1)
        {
            for (int i = 0; ok && i < pnum; ++i) { ok = pseq[i] / 10 == e->seq2[i] / 10; }
            ok = ok && same_bag(pseq, e->seq2, pnum);
        }
        else
        {
            for (int i = 0; ok && i < pnum; ++i) { ok = pseq[i] == e->seq2[i]; }
        }
        if (!ok) { mismatch("contents", e, rslot, rval, rc, lognum, pmem, psiz, pseq); }
    }
    if (ok)
    {
        if (rslot == -3) { mismatch("pointer-outside-storage", e, rslot, rval, rc, lognum, pmem, psiz, pseq); ok = 0; }
        else if (e->slot >= 0 && rslot != e->slot) { mismatch("returned-slot", e, rslot, rval, rc, lognum, pmem, psiz, pseq); ok = 0; }
        else if (e->slot == -1 && rslot != -1) { mismatch("expected-null", e, rslot, rval, rc, lognum, pmem, psiz, pseq); ok = 0; }
        else if (e->op == 20) { /* nothing returned */ }
        else if (e->slot == -2 && e->cmp != 2 && (rslot < 0 || rval != e->val)) { mismatch("removed-element", e, rslot, rval, rc, lognum, pmem, psiz, pseq); ok = 0; }
        else if (e->slot == -2 && e->cmp == 2 && (rslot < 0 || rslot >= pnum || rval / 10 != e->val)) { mismatch("search-result", e, rslot, rval, rc, lognum, pmem, psiz, pseq); ok = 0; }
        else if (rc != e->rc) { mismatch("return-code", e, rslot, rval, rc, lognum, pmem, psiz, pseq); ok = 0; }
    }
    if (ok && pmem != e->mem2) { ++n_drift; }
    log_event(fo, e, rslot, rval, rc, lognum, pmem, psiz, pseq);
    destroy(&o);
    if (e->op >= 7 && e->op <= 11 && e->op != 10) { return run_edge_cb(e, fo); }
    return 0;
}

static int parse_ints(char const *s, int *out, int max)
{
    int n = 0;
    while (*s && n < max)
    {
        if ((*s >= '0' && *s <= '9') || (*s == '-' && s[1] >= '0' && s[1] <= '9'))
        {
            char *e;
            out[n++] = (int)strtol(s, &e, 10);
            s = e;
        }
        else { ++s; }
    }
    return n;
}

/* ------------------------------------------------------------------ long random histories on ONE live object.
 * No expectation is computed here: every step is logged with the state before and after, and the trace specification
 * judges each step by itself (SeqTrace).  Lengths go far beyond the exhaustively explored ones (up to MAXL - 8). */
static uint64_t rnd_s;
static unsigned rnd(void)
{
    rnd_s ^= rnd_s << 13; rnd_s ^= rnd_s >> 7; rnd_s ^= rnd_s << 17;
    return (unsigned)(rnd_s >> 24);
}
static int random_step(obj *po, edge *e, FILE *fo)
{
    obj o = *po;
    cur_edge = e;
    void *p = NULL;
    int rc = 0, rslot = -1, rval = 0;
    a_size oldnum = (a_size)e->n;
    a_byte blk[MAXL * 32];
    a_byte keyobj[64];
    int isvec = e->kind == 1;
    (void)keyobj;
    cb_mode = (e->op >= 7 && e->op <= 11 && e->op != 10) ? (int)(rnd() & 1) : 0;
    cb_siz = (a_size)e->siz; ndlog = ncopies = 0; cb_final_valid = 0;
    f_begin(0, 0);
#include "seq_ops.inc"
    f_end();
#include "seq_post.inc"
    int pnum = (int)o_num(&o), pmem = (int)o_mem(&o), psiz = (int)o_siz(&o);
    int pseq[MAXL];
    if (pnum > MAXL || pnum > pmem) { fprintf(stderr, "random history: length %d beyond the log capacity or the storage %d\n", pnum, pmem); pnum = pnum > MAXL ? MAXL : pnum; }
    for (int i = 0; i < pnum && i < pmem; ++i) { pseq[i] = get_elem(base(&o) + (a_size)i * (a_size)psiz, (a_size)psiz); }
    log_event(fo, e, rslot, rval, rc, pnum, pmem, psiz, pseq);
    cb_mode = 0;
    *po = o;
    return 0;
}
static int do_random(unsigned long seed, int nhist, int nops, char const *prefix, int nb)
{
    FILE *fo[64];
    char name[512];
    if (nb > 64) { nb = 64; }
    for (int i = 0; i < nb; ++i)
    {
        snprintf(name, sizeof(name), "%s-%04d.ndjson", prefix, i);
        fo[i] = fopen(name, "w");
        if (!fo[i]) { perror(name); return 3; }
    }
    static int const sizes[] = {1, 3, 8}, ops[] = {1, 1, 1, 2, 2, 3, 3, 3, 4, 5, 6, 6, 7, 8, 9, 10, 12, 17, 18, 19, 21, 22, 22, 23};
    rnd_s = 0x9E3779B97F4A7C15ull ^ (seed * 1000003ull);
    /* capacity sweep: every request size 1..1300 from several starting capacities (a growth rule may be wrong only for
       particular sizes); the vector stays empty, so the events are small */
    {
        static int const start[] = {0, 8, 16, 32, 100};
        for (int si = 0; si < 5; ++si)
        {
            for (int k = 1; k <= 1300; ++k)
            {
                obj o;
                edge e;
                memset(&o, 0, sizeof(o));
                memset(&e, 0, sizeof(e));
                o.kind = 1;
                a_vec_ctor(&o.v, (a_size)sizes[k % 3]);
                if (start[si]) { a_vec_setm(&o.v, (a_size)start[si]); }
                e.kind = 1; e.siz = (int)o.v.siz_; e.mem = (int)o.v.mem_; e.n = 0; e.op = 10; e.a1 = k;
                ++n_edges;
                if (random_step(&o, &e, fo[(n_edges / 256) % nb])) { return 3; }
                destroy(&o);
            }
        }
    }
    for (int h = 0; h < nhist; ++h)
    {
        obj o;
        memset(&o, 0, sizeof(o));
        o.kind = 1 + h % 2;
        int siz = sizes[rnd() % 3];
        if (o.kind == 1) { a_vec_ctor(&o.v, (a_size)siz); }
        else { o.b = a_buf_new((a_size)siz, (a_size)(8 + rnd() % 48)); }
        for (int t = 0; t < nops; ++t)
        {
            if (t % 60 == 59 && o.kind == 1) { a_vec_dtor(&o.v, NULL); a_vec_ctor(&o.v, (a_size)sizes[rnd() % 3]); } /* bulk requests on a fresh vector */
            edge e;
            memset(&e, 0, sizeof(e));
            int n = (int)o_num(&o);
            e.kind = o.kind; e.siz = (int)o_siz(&o); e.mem = (int)o_mem(&o); e.n = n;
            for (int i = 0; i < n; ++i) { e.seq[i] = get_elem(base(&o) + (a_size)i * (a_size)e.siz, (a_size)e.siz); }
            e.op = ops[rnd() % (sizeof(ops) / sizeof(ops[0]))];
            if (n >= MAXL - 8 && (e.op <= 3 || e.op == 7 || e.op == 9 || e.op == 22)) { e.op = 4 + (int)(rnd() % 3); } /* keep the log capacity */
            int where = (int)(rnd() % 8);
            e.a1 = where == 0 ? HUGE_M : where == 1 ? n + 1 : where == 2 ? n : (n ? (int)(rnd() % (unsigned)n) : 0);
            e.a2 = 10 * (int)(rnd() % 10) + (int)(rnd() % 10);
            if (e.op == 7) { e.nblk = rnd() % 6 == 0 ? 30 + (int)(rnd() % 40) : 1 + (int)(rnd() % 3); if (n + e.nblk > MAXL - 8) { e.nblk = 1; } for (int i = 0; i < e.nblk; ++i) { e.blk[i] = 10 * (int)(rnd() % 10) + i; } e.a2 = e.nblk; }
            if (e.op == 8) { e.a2 = (int)(rnd() % 4); }
            if (e.op == 12 && rnd() % 4) { e.op = 1; }
            if (e.op == 9) { e.a1 = rnd() % 6 == 0 ? n + 20 + (int)(rnd() % 60) : n - 2 + (int)(rnd() % 6); if (e.a1 < 0) { e.a1 = 0; } if (e.kind == 2 && e.a1 > e.mem) { e.a1 = e.mem; } if (e.a1 > MAXL - 8) { e.a1 = MAXL - 8; } }
            if (e.op == 10) { e.a1 = e.kind == 1 ? (int)(rnd() % (unsigned)(n + 12)) : n + (int)(rnd() % 12); if (e.a1 > MAXL) { e.a1 = MAXL; } }
            if (e.op == 18) { e.a1 = (int)(rnd() % (unsigned)(2 * n + 3)) - n - 1; }
            ++n_edges;
            if (random_step(&o, &e, fo[(n_edges / 256) % nb])) { return 3; }
        }
        destroy(&o);
    }
    for (int i = 0; i < nb; ++i) { fclose(fo[i]); }
    printf("SUMMARY {\"edges\":%ld,\"events\":%ld,\"mismatch\":0,\"drift\":0,\"nontrivial\":%ld,\"cases\":[0],\"ops\":[0]}\n", n_edges, n_events, n_edges);
    return 0;
}

int main(int argc, char **argv)
{
    if (argc >= 7 && !strcmp(argv[1], "random"))
    {
        __sanitizer_set_death_callback(on_death);
        signal(SIGABRT, on_abort);
        f_install();
    f_on_hang = on_death;
        return do_random(strtoul(argv[2], 0, 10), atoi(argv[3]), atoi(argv[4]), argv[5], atoi(argv[6]));
    }
    if (argc < 5 || strcmp(argv[1], "edges"))
    {
        fprintf(stderr, "usage: %s edges <tlc-output> <out-prefix> <batches>\n", argv[0]);
        return 2;
    }
    __sanitizer_set_death_callback(on_death);
    signal(SIGABRT, on_abort);
    f_install();
    f_on_hang = on_death;
    if (argc > 6)
    {
        fault_out = fopen(argv[6], skip_until ? "a" : "w");
        if (!fault_out) { perror(argv[6]); return 3; }
    }
    if (argc > 5) { skip_until = atol(argv[5]); }
    FILE *fi = fopen(argv[2], "r");
    if (!fi) { perror(argv[2]); return 3; }
    int nb = atoi(argv[4]);
    if (nb > 64) { nb = 64; }
    FILE *fo[64];
    char name[512];
    for (int i = 0; i < nb; ++i)
    {
        snprintf(name, sizeof(name), "%s-%04d.ndjson", argv[3], i);
        fo[i] = fopen(name, skip_until ? "a" : "w");
        if (!fo[i]) { perror(name); return 3; }
    }
    static char line[1 << 16];
    static int v[4096];
    while (fgets(line, sizeof(line), fi))
    {
        if (!strstr(line, "8888888")) { continue; }
        int n = parse_ints(line, v, 4096);
        if (n < 17 || v[0] != MARK) { fprintf(stderr, "bad edge line\n"); return 3; }
        edge e;
        memset(&e, 0, sizeof(e));
        e.kind = v[1]; e.op = v[2]; e.a1 = v[3]; e.a2 = v[4]; e.slot = v[5]; e.val = v[6]; e.rc = v[7]; e.cmp = v[8]; e.cas = v[9];
        e.siz = v[10]; e.mem = v[11]; e.n = v[12]; e.siz2 = v[13]; e.mem2 = v[14]; e.n2 = v[15]; e.nblk = v[16];
        if (n != 17 + e.n + e.n2 + e.nblk || e.n > MAXL || e.n2 > MAXL) { fprintf(stderr, "bad edge line length %d\n", n); return 3; }
        memcpy(e.seq, v + 17, sizeof(int) * (size_t)e.n);
        memcpy(e.seq2, v + 17 + e.n, sizeof(int) * (size_t)e.n2);
        memcpy(e.blk, v + 17 + e.n + e.n2, sizeof(int) * (size_t)e.nblk);
        ++n_edges;
        if (n_edges <= skip_until) { continue; }
        if (e.cas >= 0 && e.cas < 16) { case_cnt[e.cas]++; }
        if (e.op < 32) { op_cnt[e.op]++; }
        if (e.cas >= 2) { ++n_nontrivial; }
        int rc = run_edge(&e, fo[(n_edges / 1024) % nb]);
        if (rc) { return rc; }
        if (fault_out && last_reqs > 0 && e.op != 20)
        {
            long R = last_reqs;
            ++n_fault_edges;
            for (long k = 1; k <= R; ++k)
            {
                if ((rc = fault_edge(&e, k, 0)) != 0) { return rc; }
                if (k < R && (rc = fault_edge(&e, 0, k)) != 0) { return rc; } /* from(R) == single(R) */
                /* a vector without capacity: the same plans on the other concrete form (an owned block holding no element) */
                if (e.kind == 1 && e.mem == 0)
                {
                    mat_owned0 = 1;
                    if ((rc = fault_edge(&e, k, 0)) != 0) { return rc; }
                    mat_owned0 = 0;
                }
            }
            /* destruction right after the failed call, without the retry (all requests fail), on both concrete forms */
            fault_noretry = 1;
            if ((rc = fault_edge(&e, 0, 1)) != 0) { return rc; }
            if (e.kind == 1 && e.mem == 0)
            {
                mat_owned0 = 1;
                if ((rc = fault_edge(&e, 0, 1)) != 0) { return rc; }
                mat_owned0 = 0;
            }
            fault_noretry = 0;
        }
    }
    for (int i = 0; i < nb; ++i) { fclose(fo[i]); }
    if (fault_out) { fclose(fault_out); }
    printf("FAULTS {\"edges\":%ld,\"runs\":%ld}\n", n_fault_edges, n_fault_runs);
    printf("SUMMARY {\"edges\":%ld,\"events\":%ld,\"mismatch\":%ld,\"drift\":%ld,\"nontrivial\":%ld,\"cases\":[", n_edges, n_events, n_mismatch, n_drift, n_nontrivial);
    for (int i = 0; i < 8; ++i) { printf(i ? ",%ld" : "%ld", case_cnt[i]); }
    printf("],\"ops\":[");
    for (int i = 0; i < 24; ++i) { printf(i ? ",%ld" : "%ld", op_cnt[i]); }
    printf("]}\n");
    return 0;
}
