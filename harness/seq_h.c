/* Conformance harness for a_vec and a_buf (C04) and, with a failing allocator, C07.
 *
 * mode "edges": replay every transition emitted by TLC from SeqMC into the real
 * code.  The pre-state (contents, capacity, element size) is materialised directly
 * in the public fields with an allocation of exactly mem*siz bytes, so that any
 * write past the capacity is an ASan report.  After the call the object is
 * projected, compared natively with the specification's post-state / return value,
 * and logged as ndjson for TLC trace validation (SeqTrace.tla).
 */
#include <stdio.h>
#include <stdlib.h>
#include <string.h>
#include <stdint.h>
#include "a/vec.h"
#include "a/buf.h"

#define MARK 8888888
#define MAXL 64
#define HUGE_M 1000000

static long n_edges, n_events, n_mismatch, n_drift, n_nontrivial;
static long case_cnt[16], op_cnt[32];
static int mismatch_printed;

static char const *opname[] = {"?", "push_back", "push_fore", "insert", "pull_back", "pull_fore", "remove", "store", "erase", "setn", "setm",
                               "setz", "sort", "sort_fore", "sort_back", "push_sort", "search", "at", "of", "top", "create", "swap"};

static void put_elem(a_byte *p, a_size siz, int v)
{
    for (a_size j = 0; j < siz; ++j) { p[j] = (a_byte)(v + 31 * (int)j); }
}
static int get_elem(a_byte const *p, a_size siz)
{
    int v = p[0];
    for (a_size j = 1; j < siz; ++j)
    {
        if (p[j] != (a_byte)(v + 31 * (int)j)) { return 255; }
    }
    return v;
}
static int cmp_key(void const *l, void const *r)
{
    int a = *(a_byte const *)l / 10, b = *(a_byte const *)r / 10;
    return (a > b) - (a < b);
}
static a_size to_size(int x)
{
    if (x == HUGE_M) { return (a_size)-1; }
    if (x == HUGE_M - 1) { return (a_size)-2; }
    return (a_size)x;
}

typedef struct
{
    int kind; /* 1 vec, 2 buf */
    a_vec v;
    a_buf *b;
} obj;

static a_byte *base(obj *o) { return o->kind == 1 ? (a_byte *)o->v.ptr_ : (a_byte *)(o->b + 1); }
static a_size o_num(obj *o) { return o->kind == 1 ? o->v.num_ : o->b->num_; }
static a_size o_mem(obj *o) { return o->kind == 1 ? o->v.mem_ : o->b->mem_; }
static a_size o_siz(obj *o) { return o->kind == 1 ? o->v.siz_ : o->b->siz_; }

static void materialise(obj *o, int kind, int siz, int mem, int n, int const *seq)
{
    o->kind = kind;
    if (kind == 1)
    {
        o->v.siz_ = (a_size)siz;
        o->v.mem_ = (a_size)mem;
        o->v.num_ = (a_size)n;
        o->v.ptr_ = mem ? a_alloc(NULL, (a_size)siz * (a_size)mem) : NULL;
        o->b = NULL;
    }
    else
    {
        o->b = (a_buf *)a_alloc(NULL, sizeof(a_buf) + (a_size)siz * (a_size)mem);
        o->b->siz_ = (a_size)siz;
        o->b->mem_ = (a_size)mem;
        o->b->num_ = (a_size)n;
    }
    for (int i = 0; i < n; ++i) { put_elem(base(o) + (a_size)i * (a_size)siz, (a_size)siz, seq[i]); }
}
static void destroy(obj *o)
{
    if (o->kind == 1) { a_vec_dtor(&o->v, NULL); }
    else if (o->b) { a_alloc(o->b, 0); o->b = NULL; }
}

/* slot index of a pointer returned by the library: -1 null, -3 outside owned storage */
static int slot_of(obj *o, void *p)
{
    if (!p) { return -1; }
    a_byte *b = base(o);
    a_size siz = o_siz(o), mem = o_mem(o);
    if (!b || (a_byte *)p < b || (a_byte *)p >= b + siz * mem) { return -3; }
    if (((a_byte *)p - b) % (ptrdiff_t)siz) { return -3; }
    return (int)(((a_byte *)p - b) / (ptrdiff_t)siz);
}

static void put_seq(FILE *f, int const *a, int n)
{
    fputc('[', f);
    for (int i = 0; i < n; ++i) { fprintf(f, i ? ",%d" : "%d", a[i]); }
    fputc(']', f);
}

typedef struct
{
    int kind, op, a1, a2, slot, val, rc, cmp, cas, siz, mem, n, siz2, mem2, n2, nblk;
    int seq[MAXL], seq2[MAXL], blk[MAXL];
} edge;

static void log_event(FILE *f, edge const *e, int rslot, int rval, int rc, int pnum, int pmem, int psiz, int const *pseq)
{
    fprintf(f, "{\"kind\":%d,\"op\":\"%s\",\"a1\":%d,\"a2\":%d,\"blk\":", e->kind, opname[e->op], e->a1, e->a2);
    put_seq(f, e->blk, e->nblk);
    fprintf(f, ",\"pre\":{\"mem\":%d,\"siz\":%d,\"seq\":", e->mem, e->siz);
    put_seq(f, e->seq, e->n);
    fprintf(f, "},\"post\":{\"mem\":%d,\"siz\":%d,\"seq\":", pmem, psiz);
    put_seq(f, pseq, pnum);
    fprintf(f, "},\"slot\":%d,\"val\":%d,\"rc\":%d}\n", rslot, rval, rc);
    ++n_events;
}

static void mismatch(char const *what, edge const *e, int rslot, int rval, int rc, int pnum, int pmem, int psiz, int const *pseq)
{
    ++n_mismatch;
    if (mismatch_printed++ < 12)
    {
        int huge = e->a1 >= HUGE_M - 1 || e->a2 >= HUGE_M - 1;
        printf("MISMATCH {\"what\":\"%s\",\"kind\":\"%s\",\"op\":\"%s\",\"class\":\"%s\",\"a1\":%d,\"a2\":%d,\"siz\":%d,\"mem\":%d,\"pre\":", what,
               e->kind == 1 ? "vec" : "buf", opname[e->op], huge ? "huge-index" : (e->cas == 2 ? "full" : "any"), e->a1, e->a2, e->siz, e->mem);
        put_seq(stdout, e->seq, e->n);
        printf(",\"expected\":");
        put_seq(stdout, e->seq2, e->n2);
        printf(",\"got\":");
        put_seq(stdout, pseq, pnum > MAXL ? MAXL : pnum);
        printf(",\"got_num\":%d,\"got_mem\":%d,\"got_siz\":%d,\"slot\":%d,\"exp_slot\":%d,\"val\":%d,\"exp_val\":%d,\"rc\":%d,\"exp_rc\":%d}\n", pnum, pmem, psiz,
               rslot, e->slot, rval, e->val, rc, e->rc);
    }
}

static edge const *cur_edge;
static long skip_until;
void __sanitizer_set_death_callback(void (*cb)(void));
static void on_death(void)
{
    edge const *e = cur_edge;
    if (e)
    {
        int huge = e->a1 >= HUGE_M - 1 || e->a2 >= HUGE_M - 1;
        fprintf(stdout, "CRASH {\"edge\":%ld,\"kind\":\"%s\",\"op\":\"%s\",\"class\":\"%s\",\"a1\":%d,\"a2\":%d,\"siz\":%d,\"mem\":%d,\"n\":%d}\n", n_edges,
                e->kind == 1 ? "vec" : "buf", opname[e->op], huge ? "huge-index" : (e->cas == 2 ? "full" : "any"), e->a1, e->a2, e->siz, e->mem, e->n);
        fflush(stdout);
    }
}

static int same_bag(int const *a, int const *b, int n)
{
    int ca[256] = {0}, cb[256] = {0};
    for (int i = 0; i < n; ++i)
    {
        ca[a[i] & 255]++;
        cb[b[i] & 255]++;
    }
    return !memcmp(ca, cb, sizeof(ca));
}

static int run_edge(edge const *e, FILE *fo)
{
    obj o;
    memset(&o, 0, sizeof(o));
    cur_edge = e;
    if (e->op == 20)
    {
        /* create: a1 = element size argument (0 allowed), a2 = capacity (buf), val = value pushed */
        o.kind = e->kind;
    }
    else { materialise(&o, e->kind, e->siz, e->mem, e->n, e->seq); }
    void *p = NULL;
    int rc = 0, rslot = -1, rval = 0;
    a_size oldnum = (a_size)e->n;
    a_byte blk[MAXL * 16];
    a_byte keyobj[16];
    int isvec = e->kind == 1;
#define CALL(vf, bf) (isvec ? vf : bf)
    switch (e->op)
    {
    case 1: p = CALL(a_vec_push_back(&o.v), a_buf_push_back(o.b)); break;
    case 2: p = CALL(a_vec_push_fore(&o.v), a_buf_push_fore(o.b)); break;
    case 3: p = CALL(a_vec_insert(&o.v, to_size(e->a1)), a_buf_insert(o.b, to_size(e->a1))); break;
    case 4: p = CALL(a_vec_pull_back(&o.v), a_buf_pull_back(o.b)); break;
    case 5: p = CALL(a_vec_pull_fore(&o.v), a_buf_pull_fore(o.b)); break;
    case 6: p = CALL(a_vec_remove(&o.v, to_size(e->a1)), a_buf_remove(o.b, to_size(e->a1))); break;
    case 7:
        for (int i = 0; i < e->nblk; ++i) { put_elem(blk + (a_size)i * (a_size)e->siz, (a_size)e->siz, e->blk[i]); }
        rc = CALL(a_vec_store(&o.v, to_size(e->a1), blk, (a_size)e->nblk, NULL), a_buf_store(o.b, to_size(e->a1), blk, (a_size)e->nblk, NULL));
        break;
    case 8: rc = CALL(a_vec_erase(&o.v, to_size(e->a1), to_size(e->a2), NULL), a_buf_erase(o.b, to_size(e->a1), to_size(e->a2), NULL)); break;
    case 9:
        if (isvec) { rc = a_vec_setn(&o.v, (a_size)e->a1, NULL); }
        else { a_buf_setn(o.b, (a_size)e->a1, NULL); }
        break;
    case 10:
        if (isvec) { rc = a_vec_setm(&o.v, (a_size)e->a1); }
        else
        {
            a_buf *nb = a_buf_setm(o.b, (a_size)e->a1);
            if (nb) { o.b = nb; }
            else { rc = 4; }
        }
        break;
    case 11:
        if (isvec) { a_vec_setz(&o.v, (a_size)e->a1, NULL); }
        else { a_buf_setz(o.b, (a_size)e->a1, NULL); }
        break;
    case 12:
        if (isvec) { a_vec_sort(&o.v, cmp_key); }
        else { a_buf_sort(o.b, cmp_key); }
        break;
    case 13:
        if (isvec) { a_vec_sort_fore(&o.v, cmp_key); }
        else { a_buf_sort_fore(o.b, cmp_key); }
        break;
    case 14:
        if (isvec) { a_vec_sort_back(&o.v, cmp_key); }
        else { a_buf_sort_back(o.b, cmp_key); }
        break;
    case 15:
        put_elem(keyobj, (a_size)e->siz, e->a2);
        p = CALL(a_vec_push_sort(&o.v, keyobj, cmp_key), a_buf_push_sort(o.b, keyobj, cmp_key));
        break;
    case 16:
        put_elem(keyobj, (a_size)e->siz, e->a1 * 10);
        p = CALL(a_vec_search(&o.v, keyobj, cmp_key), a_buf_search(o.b, keyobj, cmp_key));
        break;
    case 17: p = CALL(a_vec_at(&o.v, to_size(e->a1)), a_buf_at(o.b, to_size(e->a1))); break;
    case 18: p = CALL(a_vec_of(&o.v, (a_diff)e->a1), a_buf_of(o.b, (a_diff)e->a1)); break;
    case 19: p = CALL(a_vec_top(&o.v), a_buf_top(o.b)); break;
    case 20:
        if (isvec)
        {
            a_vec_ctor(&o.v, (a_size)e->a1);
            p = a_vec_push_back(&o.v);
            if (p) { put_elem((a_byte *)p, o.v.siz_, e->val); }
            p = NULL;
        }
        else
        {
            o.b = a_buf_new((a_size)e->a1, (a_size)e->a2);
            if (!o.b) { fprintf(stderr, "a_buf_new failed\n"); return 3; }
            for (int i = 0; i <= e->a2; ++i) /* one more than fits: the last must be refused */
            {
                void *q = a_buf_push_back(o.b);
                if (q) { put_elem((a_byte *)q, o.b->siz_, e->val); }
            }
        }
        break;
    default: fprintf(stderr, "unknown op %d\n", e->op); return 3;
    }
    rslot = slot_of(&o, p);
    if (e->op == 20) { rval = e->val; } /* the pushed value is an argument of the composite create step */
    /* pointer-returning insertions: the caller writes the element through the pointer */
    if ((e->op == 1 || e->op == 2 || e->op == 3 || e->op == 15) && rslot >= 0)
    {
        put_elem((a_byte *)p, o_siz(&o), e->op == 15 ? e->a2 : e->a2);
    }
    /* removals and searches: read the element the pointer designates (it must still be intact) */
    if ((e->op == 4 || e->op == 5 || e->op == 6 || e->op == 16) && rslot >= 0) { rval = get_elem((a_byte *)p, o_siz(&o)); }
    /* growing setn exposes new slots: the harness fills them */
    if (e->op == 9 && o_num(&o) > oldnum && o_num(&o) <= o_mem(&o))
    {
        for (a_size i = oldnum; i < o_num(&o); ++i) { put_elem(base(&o) + i * o_siz(&o), o_siz(&o), 0); }
    }
    /* projection */
    int pnum = (int)(o_num(&o) > 1000000 ? 1000000 : o_num(&o)), pmem = (int)(o_mem(&o) > 1000000 ? 1000000 : o_mem(&o)), psiz = (int)o_siz(&o);
    int pseq[MAXL];
    int readable = pnum <= pmem && pnum <= MAXL;
    for (int i = 0; readable && i < pnum; ++i) { pseq[i] = get_elem(base(&o) + (a_size)i * (a_size)psiz, (a_size)psiz); }
    int lognum = readable ? pnum : 0;
    /* native comparison with the specification's expectation */
    int ok = 1;
    if (pnum > pmem) { mismatch("num>mem", e, rslot, rval, rc, lognum, pmem, psiz, pseq); ok = 0; }
    else if (pnum != e->n2) { mismatch("length", e, rslot, rval, rc, lognum, pmem, psiz, pseq); ok = 0; }
    else if (psiz != e->siz2) { mismatch("elemsize", e, rslot, rval, rc, lognum, pmem, psiz, pseq); ok = 0; }
    else
    {
        if (e->cmp == 1)
        {
            for (int i = 0; ok && i < pnum; ++i) { ok = pseq[i] / 10 == e->seq2[i] / 10; }
            ok = ok && same_bag(pseq, e->seq2, pnum);
        }
        else
        {
            for (int i = 0; ok && i < pnum; ++i) { ok = pseq[i] == e->seq2[i]; }
        }
        if (!ok) { mismatch("contents", e, rslot, rval, rc, lognum, pmem, psiz, pseq); }
    }
    if (ok)
    {
        if (rslot == -3) { mismatch("pointer-outside-storage", e, rslot, rval, rc, lognum, pmem, psiz, pseq); ok = 0; }
        else if (e->slot >= 0 && rslot != e->slot) { mismatch("returned-slot", e, rslot, rval, rc, lognum, pmem, psiz, pseq); ok = 0; }
        else if (e->slot == -1 && rslot != -1) { mismatch("expected-null", e, rslot, rval, rc, lognum, pmem, psiz, pseq); ok = 0; }
        else if (e->op == 20) { /* nothing returned */ }
        else if (e->slot == -2 && e->cmp != 2 && (rslot < 0 || rval != e->val)) { mismatch("removed-element", e, rslot, rval, rc, lognum, pmem, psiz, pseq); ok = 0; }
        else if (e->slot == -2 && e->cmp == 2 && (rslot < 0 || rslot >= pnum || rval / 10 != e->val)) { mismatch("search-result", e, rslot, rval, rc, lognum, pmem, psiz, pseq); ok = 0; }
        else if (rc != e->rc) { mismatch("return-code", e, rslot, rval, rc, lognum, pmem, psiz, pseq); ok = 0; }
    }
    if (ok && pmem != e->mem2) { ++n_drift; }
    log_event(fo, e, rslot, rval, rc, lognum, pmem, psiz, pseq);
    destroy(&o);
    return 0;
}

static int parse_ints(char const *s, int *out, int max)
{
    int n = 0;
    while (*s && n < max)
    {
        if ((*s >= '0' && *s <= '9') || (*s == '-' && s[1] >= '0' && s[1] <= '9'))
        {
            char *e;
            out[n++] = (int)strtol(s, &e, 10);
            s = e;
        }
        else { ++s; }
    }
    return n;
}

int main(int argc, char **argv)
{
    if (argc < 5 || strcmp(argv[1], "edges"))
    {
        fprintf(stderr, "usage: %s edges <tlc-output> <out-prefix> <batches>\n", argv[0]);
        return 2;
    }
    __sanitizer_set_death_callback(on_death);
    if (argc > 5) { skip_until = atol(argv[5]); }
    FILE *fi = fopen(argv[2], "r");
    if (!fi) { perror(argv[2]); return 3; }
    int nb = atoi(argv[4]);
    if (nb > 64) { nb = 64; }
    FILE *fo[64];
    char name[512];
    for (int i = 0; i < nb; ++i)
    {
        snprintf(name, sizeof(name), "%s-%04d.ndjson", argv[3], i);
        fo[i] = fopen(name, skip_until ? "a" : "w");
        if (!fo[i]) { perror(name); return 3; }
    }
    static char line[1 << 16];
    static int v[4096];
    while (fgets(line, sizeof(line), fi))
    {
        if (!strstr(line, "8888888")) { continue; }
        int n = parse_ints(line, v, 4096);
        if (n < 17 || v[0] != MARK) { fprintf(stderr, "bad edge line\n"); return 3; }
        edge e;
        memset(&e, 0, sizeof(e));
        e.kind = v[1]; e.op = v[2]; e.a1 = v[3]; e.a2 = v[4]; e.slot = v[5]; e.val = v[6]; e.rc = v[7]; e.cmp = v[8]; e.cas = v[9];
        e.siz = v[10]; e.mem = v[11]; e.n = v[12]; e.siz2 = v[13]; e.mem2 = v[14]; e.n2 = v[15]; e.nblk = v[16];
        if (n != 17 + e.n + e.n2 + e.nblk || e.n > MAXL || e.n2 > MAXL) { fprintf(stderr, "bad edge line length %d\n", n); return 3; }
        memcpy(e.seq, v + 17, sizeof(int) * (size_t)e.n);
        memcpy(e.seq2, v + 17 + e.n, sizeof(int) * (size_t)e.n2);
        memcpy(e.blk, v + 17 + e.n + e.n2, sizeof(int) * (size_t)e.nblk);
        ++n_edges;
        if (n_edges <= skip_until) { continue; }
        if (e.cas >= 0 && e.cas < 16) { case_cnt[e.cas]++; }
        if (e.op < 32) { op_cnt[e.op]++; }
        if (e.cas >= 2) { ++n_nontrivial; }
        int rc = run_edge(&e, fo[(n_edges / 1024) % nb]);
        if (rc) { return rc; }
    }
    for (int i = 0; i < nb; ++i) { fclose(fo[i]); }
    printf("SUMMARY {\"edges\":%ld,\"events\":%ld,\"mismatch\":%ld,\"drift\":%ld,\"nontrivial\":%ld,\"cases\":[", n_edges, n_events, n_mismatch, n_drift, n_nontrivial);
    for (int i = 0; i < 8; ++i) { printf(i ? ",%ld" : "%ld", case_cnt[i]); }
    printf("],\"ops\":[");
    for (int i = 0; i < 22; ++i) { printf(i ? ",%ld" : "%ld", op_cnt[i]); }
    printf("]}\n");
    return 0;
}
