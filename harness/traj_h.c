/* Conformance harness for C14: a_trajtrap_* and a_trajbell_*.  Input: TrajMC output (1010101 trapezoid
 * requests, 1020202 bell requests; integers).  For each request the plan and samples of pos/vel/acc(/jer)
 * at and around every phase boundary, on a uniform grid, before the start and after the end are logged
 * in increasing time order. */
#include <stdio.h>
#include <stdint.h>
#include <stdlib.h>
#include <string.h>
#include <math.h>
#include "a/trajtrap.h"
#include "a/trajbell.h"
#include "num.h"
#include "watchdog.h"

static long n_events, n_dups, n_planned[2], n_zero[2], branch[8];
static FILE *fo[64];
static int nb;
static FILE *out(void) { return fo[(n_events++ / 16) % nb]; }
static int parse_ints(char const *s, long *o, int max)
{
    int n = 0;
    while (*s && n < max)
    {
        if ((*s >= '0' && *s <= '9') || (*s == '-' && s[1] >= '0' && s[1] <= '9'))
        {
            char *e;
            o[n++] = strtol(s, &e, 10);
            s = e;
        }
        else { ++s; }
    }
    return n;
}
static int cmpd(void const *a, void const *b)
{
    double x = *(double const *)a, y = *(double const *)b;
    return (x > y) - (x < y);
}
#define EPS (1.0 / 256.0)
static int sample_times(double *ts, double t, double const *bounds, int nbnd)
{
    int n = 0;
    ts[n++] = -1.0; ts[n++] = -EPS; ts[n++] = 0; ts[n++] = t; ts[n++] = t + EPS; ts[n++] = t + 1.0;
    for (int i = 0; i < nbnd; ++i)
    {
        double b = bounds[i];
        if (b > -0.5 && b < t + 0.5) { ts[n++] = b - EPS; ts[n++] = b; ts[n++] = b + EPS; }
    }
    for (int i = 1; i < 24; ++i) { ts[n++] = t * i / 24.0; }
    qsort(ts, (size_t)n, sizeof(double), cmpd);
    return n;
}
#define HS (1 << 22)
static char *seen[HS];
static int is_dup(char const *line)
{
    unsigned long h = 5381;
    for (char const *p = line; *p; ++p) { h = h * 33 + (unsigned char)*p; }
    for (size_t i = h % HS;; i = (i + 1) % HS)
    {
        if (!seen[i]) { seen[i] = strdup(line); return 0; }
        if (!strcmp(seen[i], line)) { return 1; }
    }
}

int main(int argc, char **argv)
{
    if (argc < 4) { fprintf(stderr, "usage: %s <tlc-output> <out-prefix> <batches>\n", argv[0]); return 2; }
    FILE *fi = fopen(argv[1], "r");
    if (!fi) { perror(argv[1]); return 3; }
    nb = atoi(argv[3]);
    if (nb > 64) { nb = 64; }
    char name[512];
    for (int i = 0; i < nb; ++i)
    {
        snprintf(name, sizeof(name), "%s-%04d.ndjson", argv[2], i);
        fo[i] = fopen(name, "w");
        if (!fo[i]) { perror(name); return 3; }
    }
    static char line[1 << 12];
    long v[32];
    double ts[128];
    long nrand = argc > 4 ? atol(argv[4]) : 0; /* seeded random feasible integer requests from much wider ranges */
    uint64_t rs = 0x9E3779B97F4A7C15ull ^ ((argc > 5 ? strtoull(argv[5], 0, 10) : 1) * 1000003ull);
    for (;;)
    {
        if (!fgets(line, sizeof(line), fi))
        {
            if (nrand-- <= 0) { break; }
#define RND(n) ((long)((rs ^= rs << 13, rs ^= rs >> 7, rs ^= rs << 17, rs >> 24) % (uint64_t)(n)))
            if (nrand % 2)
            {
                long vm = 1 + RND(20), a = 1 + RND(15), d = 1 + RND(15), p = 1 + RND(200), v0 = RND(vm + 1), v1 = RND(vm + 1), dir = RND(2) ? 1 : -1, sv = RND(4) ? 1 : -1;
                snprintf(line, sizeof(line), "[1010101,[%ld,%ld,%ld,%ld,%ld,%ld,%ld]]", vm, dir * a, -dir * d, 1L, 1 + dir * p, dir * sv * v0, dir * v1);
            }
            else
            {
                long jm = 1 + RND(20), am = 1 + RND(15), vm = 1 + RND(20), p = 1 + RND(300), v0 = RND(vm + 1), v1 = RND(vm + 1), dir = RND(2) ? 1 : -1;
                long dv = v1 > v0 ? v1 - v0 : v0 - v1;
                /* the feasibility condition of the specification (TrajMC.BellFeasible) */
                int feas = dv * jm < am * am ? p * p * jm >= dv * (v0 + v1) * (v0 + v1) : 2 * p * jm * am >= (v0 + v1) * (am * am + dv * jm);
                if (!feas) { continue; }
                snprintf(line, sizeof(line), "[1020202,[%ld,%ld,%ld,%ld,%ld,%ld,%ld]]", jm, am, vm, 2L, 2 + dir * p, dir * v0, dir * v1);
            }
        }
        int trap = strstr(line, "1010101") != NULL, bell = strstr(line, "1020202") != NULL;
        if (!trap && !bell) { continue; }
        if (is_dup(line)) { ++n_dups; continue; }
        int n = parse_ints(line, v, 32);
        if (n != 8) { fprintf(stderr, "bad line\n"); return 3; }
        wd_arm(20, line); /* the bell-shaped planner searches in a loop: a request that never comes back is a finding, not a wait */
        FILE *f = out();
        if (trap)
        {
            a_trajtrap c;
            memset(&c, 0, sizeof(c));
            double t = a_trajtrap_gen(&c, (double)v[1], (double)v[2], (double)v[3], (double)v[4], (double)v[5], (double)v[6], (double)v[7]);
            fprintf(f, "{\"f\":\"trap\",\"req\":{\"vm\":%ld,\"ac\":%ld,\"de\":%ld,\"p0\":%ld,\"p1\":%ld,\"v0\":%ld,\"v1\":%ld},\"planned\":%d,\"t\":", v[1], v[2], v[3], v[4], v[5], v[6], v[7], t > 0);
            put_value(f, t);
            if (t > 0)
            {
                ++n_planned[0];
                branch[c.td > c.ta ? 0 : (c.ta == 0 && c.td == 0) ? 2 : (c.t == c.ta ? 1 : 3)]++;
                fputs(",\"ctx\":{\"ta\":", f); put_value(f, c.ta);
                fputs(",\"td\":", f); put_value(f, c.td);
                fputs(",\"vc\":", f); put_value(f, c.vc);
                fputs(",\"v0\":", f); put_value(f, c.v0);
                fputs(",\"v1\":", f); put_value(f, c.v1);
                fputs("},\"samples\":[", f);
                double bnd[2] = {c.ta, c.td};
                int ns = sample_times(ts, t, bnd, 2);
                for (int i = 0; i < ns; ++i)
                {
                    fputs(i ? ",{\"x\":" : "{\"x\":", f); put_value(f, ts[i]);
                    fputs(",\"p\":", f); put_value(f, a_trajtrap_pos(&c, ts[i]));
                    fputs(",\"v\":", f); put_value(f, a_trajtrap_vel(&c, ts[i]));
                    fputs(",\"a\":", f); put_value(f, a_trajtrap_acc(&c, ts[i]));
                    fputc('}', f);
                }
                fputs("]", f);
            }
            else { ++n_zero[0]; }
            fputs("}\n", f);
        }
        else
        {
            a_trajbell c;
            memset(&c, 0, sizeof(c));
            double t = a_trajbell_gen(&c, (double)v[1], (double)v[2], (double)v[3], (double)v[4], (double)v[5], (double)v[6], (double)v[7]);
            fprintf(f, "{\"f\":\"bell\",\"req\":{\"jm\":%ld,\"am\":%ld,\"vm\":%ld,\"p0\":%ld,\"p1\":%ld,\"v0\":%ld,\"v1\":%ld},\"planned\":%d,\"t\":", v[1], v[2], v[3], v[4], v[5], v[6], v[7], t > 0);
            put_value(f, t);
            if (t > 0)
            {
                ++n_planned[1];
                branch[c.tv > 0 ? 4 : 5]++;
                fputs(",\"ctx\":{\"ta\":", f); put_value(f, c.ta);
                fputs(",\"tv\":", f); put_value(f, c.tv);
                fputs(",\"td\":", f); put_value(f, c.td);
                fputs(",\"taj\":", f); put_value(f, c.taj);
                fputs(",\"tdj\":", f); put_value(f, c.tdj);
                fputs(",\"v0\":", f); put_value(f, c.v0);
                fputs(",\"v1\":", f); put_value(f, c.v1);
                fputs(",\"vm\":", f); put_value(f, c.vm);
                fputs(",\"am\":", f); put_value(f, c.am);
                fputs(",\"dm\":", f); put_value(f, c.dm);
                fputs("},\"samples\":[", f);
                double bnd[6] = {c.taj, c.ta - c.taj, c.ta, c.ta + c.tv, t - c.td + c.tdj, t - c.tdj};
                int ns = sample_times(ts, t, bnd, 6);
                for (int i = 0; i < ns; ++i)
                {
                    fputs(i ? ",{\"x\":" : "{\"x\":", f); put_value(f, ts[i]);
                    fputs(",\"p\":", f); put_value(f, a_trajbell_pos(&c, ts[i]));
                    fputs(",\"v\":", f); put_value(f, a_trajbell_vel(&c, ts[i]));
                    fputs(",\"a\":", f); put_value(f, a_trajbell_acc(&c, ts[i]));
                    fputs(",\"j\":", f); put_value(f, a_trajbell_jer(&c, ts[i]));
                    fputc('}', f);
                }
                fputs("]", f);
            }
            else { ++n_zero[1]; }
            fputs("}\n", f);
        }
    }
    /* requests whose phases differ by many orders of magnitude (a final blend shorter than the rounding of the total
       duration, tiny moves, huge moves): only the boundary facts are judged - before the start the planner holds
       (p0, recorded v0), at and after the reported end (p1, recorded v1) - as order-coded doubles, exactly */
    {
        static double const far[][7] = {
            {2, 2, -1e4, 0, 1e13, 0, 1}, {2, 1e4, -2, 0, 1e13, 1, 0}, {2, -2, 1e4, 0, -1e13, 0, -1}, {3, 5e5, -7e5, 1, 4e15, 2, 1},
            {2, 2, -2, 0, 1e-9, 0, 0}, {1e-3, 1e3, -1e3, 0, 1e9, 0, 1e-4}, {1e6, 1e-3, -1e-3, 0, 1e3, 0, 0}, {5, 1, -1e8, 0, 1e12, 0, 4},
        };
        for (size_t k = 0; k < sizeof(far) / sizeof(far[0]); ++k)
        {
            for (int which = 0; which < 2; ++which)
            {
                double const *r = far[k];
                wd_arm(20, which == 0 ? "trapfar" : "bellfar");
                a_trajtrap c; a_trajbell b;
                memset(&c, 0, sizeof(c)); memset(&b, 0, sizeof(b));
                double t = which == 0 ? (double)a_trajtrap_gen(&c, (a_real)r[0], (a_real)r[1], (a_real)r[2], (a_real)r[3], (a_real)r[4], (a_real)r[5], (a_real)r[6])
                                      : (double)a_trajbell_gen(&b, (a_real)(10 * fabs(r[1])), (a_real)fabs(r[1]), (a_real)r[0], (a_real)r[3], (a_real)r[4], (a_real)r[5], (a_real)r[6]);
                FILE *f = out();
                fprintf(f, "{\"f\":\"%s\",\"planned\":%d,\"k\":%d", which == 0 ? "trapfar" : "bellfar", t > 0, (int)k);
                if (t > 0)
                {
                    double xs[6] = {-1, 0, t, nextafter(t, 1e300), 2 * t, 1e300};
                    fputs(",\"p0\":", f); put_ordered(f, r[3]);
                    fputs(",\"p1\":", f); put_ordered(f, r[4]);
                    fputs(",\"v0\":", f); put_ordered(f, which == 0 ? (double)c.v0 : (double)b.v0);
                    fputs(",\"v1\":", f); put_ordered(f, which == 0 ? (double)c.v1 : (double)b.v1);
                    fputs(",\"samples\":[", f);
                    for (int i = 0; i < 6; ++i)
                    {
                        fprintf(f, i ? ",{\"after\":%d,\"p\":" : "{\"after\":%d,\"p\":", i >= 2);
                        put_ordered(f, which == 0 ? (double)a_trajtrap_pos(&c, (a_real)xs[i]) : (double)a_trajbell_pos(&b, (a_real)xs[i]));
                        fputs(",\"v\":", f);
                        put_ordered(f, which == 0 ? (double)a_trajtrap_vel(&c, (a_real)xs[i]) : (double)a_trajbell_vel(&b, (a_real)xs[i]));
                        fputc('}', f);
                    }
                    fputs("]", f);
                }
                fputs("}\n", f);
            }
        }
    }
    for (int i = 0; i < nb; ++i) { fclose(fo[i]); }
    printf("SUMMARY {\"events\":%ld,\"trap_planned\":%ld,\"trap_zero\":%ld,\"bell_planned\":%ld,\"bell_zero\":%ld,\"trap_cruise\":%ld,\"trap_accel_only\":%ld,\"trap_decel_only\":%ld,\"trap_accel_decel\":%ld,\"bell_cruise\":%ld,\"bell_no_cruise\":%ld}\n",
           n_events, n_planned[0], n_zero[0], n_planned[1], n_zero[1], branch[0], branch[1], branch[2], branch[3], branch[4], branch[5]);
    return 0;
}
