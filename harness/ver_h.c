/* Harness for the version extension (specs/ext/Version*.tla).  Input: VersionMC output lines
 * [1313131, [a], [b], taglen, [tag], extra, textlen, [text]].  Buffers handed to the library have exactly the
 * stated size (ASan). */
#include <stdio.h>
#include <stdlib.h>
#include <string.h>
#include "a/version.h"

static int parse_ints(char const *s, long *o, int max)
{
    int n = 0;
    while (*s && n < max)
    {
        if ((*s >= '0' && *s <= '9') || (*s == '-' && s[1] >= '0' && s[1] <= '9')) { char *e; o[n++] = strtol(s, &e, 10); s = e; }
        else { ++s; }
    }
    return n;
}
static void put_str(FILE *f, char const *s, int n)
{
    fputc('[', f);
    for (int i = 0; i < n; ++i) { fprintf(f, i ? ",%d" : "%d", (unsigned char)s[i]); }
    fputc(']', f);
}

int main(int argc, char **argv)
{
    if (argc < 3) { return 2; }
    FILE *fi = fopen(argv[1], "r"), *f = fopen(argv[2], "w");
    if (!fi || !f) { return 3; }
    static char line[4096];
    long v[256], n_events = 0;
    while (fgets(line, sizeof(line), fi))
    {
        if (!strstr(line, "1313131")) { continue; }
        int n = parse_ints(line, v, 256);
        if (n < 10) { fprintf(stderr, "bad line\n"); return 3; }
        int tl = (int)v[7];
        long const *tag = v + 8;
        long extra = v[8 + tl];
        a_version A, B, P;
        memset(&A, 0, sizeof(A)); memset(&B, 0, sizeof(B)); memset(&P, 0x5A, sizeof(P));
        A.major = (unsigned)v[1]; A.minor = (unsigned)v[2]; A.third = (unsigned)v[3]; A.extra = (unsigned)extra;
        B.major = (unsigned)v[4]; B.minor = (unsigned)v[5]; B.third = (unsigned)v[6];
        char tagz[8];
        for (int i = 0; i < tl; ++i) { tagz[i] = (char)tag[i]; }
        tagz[tl] = 0;
        a_version_set_alpha(&A, tagz);
        char alpha[5];
        a_version_alpha(&A, alpha);
        /* text form into a buffer of exactly the needed size, then into one that is too short */
        unsigned need = a_version_tostr(&A, NULL, 0);
        char *full = (char *)malloc(need + 1);
        unsigned r1 = a_version_tostr(&A, full, need + 1);
        int short_n = need > 3 ? (int)need - 2 : 1;
        char *cut = (char *)malloc((size_t)short_n);
        unsigned r2 = a_version_tostr(&A, cut, (a_size)short_n);
        unsigned pr = a_version_parse(&P, full);
        char palpha[5];
        a_version_alpha(&P, palpha);
        fprintf(f, "{\"a\":[%ld,%ld,%ld],\"b\":[%ld,%ld,%ld],\"tag\":", v[1], v[2], v[3], v[4], v[5], v[6]);
        put_str(f, tagz, tl);
        fprintf(f, ",\"extra\":%ld,\"cmp\":%d,\"rel\":[%d,%d,%d,%d,%d,%d],\"alpha\":", extra, a_version_cmp(&A, &B),
                (int)a_version_lt(&A, &B), (int)a_version_gt(&A, &B), (int)a_version_le(&A, &B), (int)a_version_ge(&A, &B), (int)a_version_eq(&A, &B), (int)a_version_ne(&A, &B));
        put_str(f, alpha, (int)strlen(alpha));
        fputs(",\"tostr\":", f); put_str(f, full, (int)strlen(full));
        fprintf(f, ",\"tostr_ret\":%u,\"short_n\":%d,\"tostr_short\":", r1, short_n);
        put_str(f, cut, (int)strnlen(cut, (size_t)short_n));
        fprintf(f, ",\"tostr_short_ret\":%u,\"parse_ret\":%u,\"parsed\":[%u,%u,%u,%u],\"parsed_tag\":", r2, pr, P.major, P.minor, P.third, P.extra);
        put_str(f, palpha, (int)strlen(palpha));
        fputs("}\n", f);
        free(full); free(cut);
        ++n_events;
    }
    fclose(f);
    printf("SUMMARY {\"events\":%ld}\n", n_events);
    return 0;
}
