/* Conformance harness for C10 (complex functions) and C11 (real special functions), compiled once per
 * build configuration (config header with the A_HAVE_* switches, real width).  Prints one ndjson line per
 * (function, argument) in a fixed order so that the outputs of two configurations can be joined line by
 * line.  Values are logged in a common-exponent limb code: [e, s1, hi1, lo1, s2, hi2, lo2] meaning
 * component = s * (hi * 2^24 + lo) * 2^(e - 53) with the larger component in [2^52, 2^53). */
#include <stdio.h>
#include <stdlib.h>
#include <string.h>
#include <math.h>
#include <stdint.h>
#include "a/complex.h"
#include "a/math.h"
#include "num.h"

static FILE *f;
static long n_lines;
static void put_pair(double a, double b)
{
    if (!isfinite(a) || !isfinite(b)) { fprintf(f, "[99999,%d,0,0,%d,0,0]", isnan(a) ? 9 : (a > 0 ? 8 : 7), isnan(b) ? 9 : (isfinite(b) ? 0 : (b > 0 ? 8 : 7))); return; }
    double m = fmax(fabs(a), fabs(b));
    if (m == 0) { fputs("[-99999,0,0,0,0,0,0]", f); return; }
    int e;
    frexp(m, &e);
    double sa = ldexp(fabs(a), 53 - e), sb = ldexp(fabs(b), 53 - e);
    uint64_t va = (uint64_t)llround(sa), vb = (uint64_t)llround(sb);
    fprintf(f, "[%d,%d,%u,%u,%d,%u,%u]", e, a > 0 ? 1 : (a < 0 ? -1 : 0), (unsigned)(va >> 24), (unsigned)(va & 0xFFFFFF), b > 0 ? 1 : (b < 0 ? -1 : 0), (unsigned)(vb >> 24), (unsigned)(vb & 0xFFFFFF));
}
static void put_z(a_complex z) { put_pair((double)z.real, (double)z.imag); }

typedef void (*ufn)(a_complex *);
typedef struct
{
    char const *name;
    ufn fn;
    int parity; /* 1 odd, 2 even, 0 none */
    int axes;   /* 1: also evaluated on the real and imaginary axes (entire / meromorphic without cuts there) */
    int lim;    /* magnitude limit index for arguments (avoid overflow): 0 all, 1 up to 3 */
    int cut;    /* family of branch cuts (for the sign rules): 1 sqrt/log: principal argument follows Im z */
} entry;
static entry const table[] = {
    {"sqrt", a_complex_sqrt_, 0, 0, 0, 1}, {"exp", a_complex_exp_, 0, 1, 0, 0}, {"log", a_complex_log_, 0, 0, 0, 1},
    {"log2", a_complex_log2_, 0, 0, 0, 1}, {"log10", a_complex_log10_, 0, 0, 0, 1},
    {"sin", a_complex_sin_, 1, 1, 0, 0}, {"cos", a_complex_cos_, 2, 1, 0, 0}, {"tan", a_complex_tan_, 1, 1, 0, 0},
    {"sec", a_complex_sec_, 2, 1, 0, 0}, {"csc", a_complex_csc_, 1, 0, 0, 0}, {"cot", a_complex_cot_, 1, 0, 0, 0},
    {"asin", a_complex_asin_, 1, 0, 0, 0}, {"acos", a_complex_acos_, 0, 0, 0, 0}, {"atan", a_complex_atan_, 1, 0, 0, 0},
    {"asec", a_complex_asec_, 0, 0, 0, 0}, {"acsc", a_complex_acsc_, 1, 0, 0, 0}, {"acot", a_complex_acot_, 1, 0, 0, 0},
    {"sinh", a_complex_sinh_, 1, 1, 0, 0}, {"cosh", a_complex_cosh_, 2, 1, 0, 0}, {"tanh", a_complex_tanh_, 1, 1, 0, 0},
    {"sech", a_complex_sech_, 2, 1, 0, 0}, {"csch", a_complex_csch_, 1, 0, 0, 0}, {"coth", a_complex_coth_, 1, 0, 0, 0},
    {"asinh", a_complex_asinh_, 1, 0, 0, 0}, {"acosh", a_complex_acosh_, 0, 0, 0, 0}, {"atanh", a_complex_atanh_, 1, 0, 0, 0},
    {"asech", a_complex_asech_, 0, 0, 0, 0}, {"acsch", a_complex_acsch_, 1, 0, 0, 0}, {"acoth", a_complex_acoth_, 1, 0, 0, 0},
    {"inv", a_complex_inv_, 1, 1, 0, 0},
};
static a_real mags[] = {(a_real)7.888609052210118e-31 /* 2^-100; replaced in main by 2^-600 for wider reals: squares underflow */, (a_real)(1.0 / 1048576), (a_real)0.125, (a_real)0.3125, (a_real)0.75, (a_real)1.1875, (a_real)3, (a_real)20};

static void unary(entry const *t, a_real re, a_real im)
{
    a_complex z, w, wc, wn;
    z.real = re; z.imag = im;
    w = z; t->fn(&w);
    wc.real = re; wc.imag = -im; t->fn(&wc);
    wn.real = -re; wn.imag = -im; t->fn(&wn);
    fprintf(f, "{\"k\":\"u\",\"fn\":\"%s\",\"par\":%d,\"cut\":%d,\"z\":", t->name, t->parity, t->cut);
    put_z(z);
    fputs(",\"w\":", f); put_z(w);
    fputs(",\"wc\":", f); put_z(wc);
    fputs(",\"wn\":", f); put_z(wn);
    fputs("}\n", f);
    ++n_lines;
}
static void vals2(char const *fn, double a1, double a2, double a3, double a4, a_complex w)
{
    fprintf(f, "{\"k\":\"b\",\"fn\":\"%s\",\"args\":", fn);
    put_pair(a1, a2);
    fputs(",\"args2\":", f); put_pair(a3, a4);
    fputs(",\"w\":", f); put_z(w);
    /* the same result and the arguments as exact dyadics / 2^-16 approximations for the exact-algebra rules */
    fputs(",\"wd\":[", f); put_value(f, (double)w.real); fputc(',', f); put_value(f, (double)w.imag);
    fputs("],\"ad\":[", f); put_value(f, a1); fputc(',', f); put_value(f, a2); fputc(',', f); put_value(f, a3); fputc(',', f); put_value(f, a4);
    fputs("]}\n", f);
    ++n_lines;
}
static void real1(char const *fn, double x, double y) { fprintf(f, "{\"k\":\"r\",\"fn\":\"%s\",\"x\":", fn); put_pair(x, 0); fputs(",\"y\":", f); put_pair(y, 0); fputs("}\n", f); ++n_lines; }
static void real2(char const *fn, double a, double b, double y) { fprintf(f, "{\"k\":\"r2\",\"fn\":\"%s\",\"x\":", fn); put_pair(a, b); fputs(",\"y\":", f); put_pair(y, 0); fputs("}\n", f); ++n_lines; }

/* scale relations: multiplying the argument by 2^s is exact, and the true value of a homogeneous function moves by an
   exact power of two as well - so f(z*2^s), scaled back, must agree with f(z) to the usual accuracy although the
   squares of the components are far outside the floating-point range */
static void hom(char const *fn, a_complex z, a_complex w0, a_complex ws)
{
    fprintf(f, "{\"k\":\"h\",\"fn\":\"%s\",\"z\":", fn);
    put_z(z);
    fputs(",\"w\":", f); put_z(w0);
    fputs(",\"ws\":", f); put_z(ws);
    fputs("}\n", f);
    ++n_lines;
}
static a_complex cscale(a_complex z, int e) { a_complex r; r.real = (a_real)ldexp((double)z.real, e); r.imag = (a_real)ldexp((double)z.imag, e); return r; }
static void scale_relations(void)
{
    static double const cs[] = {0.75, -1.1875, 3, -0.3125};
    int const S = sizeof(a_real) == 4 ? 70 : 600; /* even */
    for (int i = 0; i < 4; ++i) for (int j = 0; j < 4; ++j) for (int sg = -1; sg <= 1; sg += 2)
    {
        int const s = sg * S;
        a_complex z, y, w0, ws, t;
        z.real = (a_real)cs[i]; z.imag = (a_real)cs[j];
        y.real = (a_real)cs[(i + 1) % 4]; y.imag = (a_real)cs[(j + 2) % 4];
        w0 = z; a_complex_inv_(&w0); ws = cscale(z, s); a_complex_inv_(&ws); hom("inv", z, w0, cscale(ws, s));
        w0 = z; a_complex_sqrt_(&w0); ws = cscale(z, s); a_complex_sqrt_(&ws); hom("sqrt", z, w0, cscale(ws, -s / 2));
        w0.real = a_complex_abs(z); w0.imag = 0; ws.real = a_complex_abs(cscale(z, s)); ws.imag = 0; hom("abs", z, w0, cscale(ws, -s));
        w0.real = a_complex_arg(z); w0.imag = 0; ws.real = a_complex_arg(cscale(z, s)); ws.imag = 0; hom("arg", z, w0, ws);
        w0.real = a_complex_logabs(z); w0.imag = 1; ws.real = (a_real)((double)a_complex_logabs(cscale(z, s)) - s * 0.69314718055994530942); ws.imag = 1; hom("logabs", z, w0, ws);
        w0 = z; a_complex_div_(&w0, y); ws = cscale(z, s); a_complex_div_(&ws, cscale(y, s)); hom("div", z, w0, ws);
        ws = cscale(z, s); a_complex_div_(&ws, y); hom("div_num", z, w0, cscale(ws, -s));
        ws = z; a_complex_div_(&ws, cscale(y, s)); hom("div_den", z, w0, cscale(ws, s));
        w0 = z; a_complex_mul_(&w0, y); ws = cscale(z, s); a_complex_mul_(&ws, cscale(y, -s)); hom("mul", z, w0, ws);
        w0 = z; a_complex_log_(&w0); ws = cscale(z, s); a_complex_log_(&ws); ws.real = (a_real)((double)ws.real - s * 0.69314718055994530942); hom("log", z, w0, ws);
        t.real = 0; t.imag = 0;
        a_complex_polar(&w0, (a_real)a_real_abs((a_real)cs[i]), (a_real)cs[j]); a_complex_polar(&t, (a_real)ldexp(fabs(cs[i]), s), (a_real)cs[j]); hom("polar", z, w0, cscale(t, -s));
        w0 = z; a_complex_div_real_(&w0, (a_real)cs[(j + 1) % 4]); ws = cscale(z, s); a_complex_div_real_(&ws, (a_real)ldexp(cs[(j + 1) % 4], s)); hom("div_real", z, w0, ws);
        w0 = z; a_complex_div_imag_(&w0, (a_real)cs[(j + 1) % 4]); ws = cscale(z, s); a_complex_div_imag_(&ws, (a_real)ldexp(cs[(j + 1) % 4], s)); hom("div_imag", z, w0, ws);
    }
}

/* both calling forms of an operation - a_complex_f(&w, z) and { w = z; a_complex_f_(&w); } - must give the same value;
   the real-argument variants agree with the complex function on the real axis where no branch cut lies */
static void same(char const *fn, a_complex z, a_complex w1, a_complex w2)
{
    fprintf(f, "{\"k\":\"e\",\"fn\":\"%s\",\"z\":", fn);
    put_z(z);
    fputs(",\"w\":", f); put_z(w1);
    fputs(",\"ws\":", f); put_z(w2);
    fputs("}\n", f);
    ++n_lines;
}
typedef void (*ufn3)(a_complex *, a_complex);
static struct { char const *name; ufn3 f3; ufn f1; } const forms[] = {
    {"sqrt", a_complex_sqrt, a_complex_sqrt_}, {"exp", a_complex_exp, a_complex_exp_}, {"log", a_complex_log, a_complex_log_},
    {"log2", a_complex_log2, a_complex_log2_}, {"log10", a_complex_log10, a_complex_log10_},
    {"sin", a_complex_sin, a_complex_sin_}, {"cos", a_complex_cos, a_complex_cos_}, {"tan", a_complex_tan, a_complex_tan_},
    {"sec", a_complex_sec, a_complex_sec_}, {"csc", a_complex_csc, a_complex_csc_}, {"cot", a_complex_cot, a_complex_cot_},
    {"asin", a_complex_asin, a_complex_asin_}, {"acos", a_complex_acos, a_complex_acos_}, {"atan", a_complex_atan, a_complex_atan_},
    {"asec", a_complex_asec, a_complex_asec_}, {"acsc", a_complex_acsc, a_complex_acsc_}, {"acot", a_complex_acot, a_complex_acot_},
    {"sinh", a_complex_sinh, a_complex_sinh_}, {"cosh", a_complex_cosh, a_complex_cosh_}, {"tanh", a_complex_tanh, a_complex_tanh_},
    {"sech", a_complex_sech, a_complex_sech_}, {"csch", a_complex_csch, a_complex_csch_}, {"coth", a_complex_coth, a_complex_coth_},
    {"asinh", a_complex_asinh, a_complex_asinh_}, {"acosh", a_complex_acosh, a_complex_acosh_}, {"atanh", a_complex_atanh, a_complex_atanh_},
    {"asech", a_complex_asech, a_complex_asech_}, {"acsch", a_complex_acsch, a_complex_acsch_}, {"acoth", a_complex_acoth, a_complex_acoth_},
    {"inv", a_complex_inv, a_complex_inv_}, {"conj", a_complex_conj, a_complex_conj_}, {"neg", a_complex_neg, a_complex_neg_}, {"proj", a_complex_proj, a_complex_proj_},
};
static void both_forms(void)
{
    static double const cs[] = {0.75, -1.1875, 3, -0.3125};
    for (size_t k = 0; k < sizeof(forms) / sizeof(forms[0]); ++k) for (int i = 0; i < 4; ++i) for (int j = 0; j < 4; ++j)
    {
        a_complex z, w1, w2;
        z.real = (a_real)cs[i]; z.imag = (a_real)cs[j];
        w1.real = 77; w1.imag = 88;
        forms[k].f3(&w1, z);
        w2 = z; forms[k].f1(&w2);
        same(forms[k].name, z, w1, w2);
    }
    for (int i = 0; i < 4; ++i) for (int j = 0; j < 4; ++j)
    {
        a_complex x, y, w1, w2;
        a_real r = (a_real)cs[(i + j) % 4];
        x.real = (a_real)cs[i]; x.imag = (a_real)cs[j]; y.real = (a_real)cs[(i + 1) % 4]; y.imag = (a_real)cs[(j + 3) % 4];
        a_complex_add(&w1, x, y); w2 = x; a_complex_add_(&w2, y); same("add", x, w1, w2);
        a_complex_sub(&w1, x, y); w2 = x; a_complex_sub_(&w2, y); same("sub", x, w1, w2);
        a_complex_mul(&w1, x, y); w2 = x; a_complex_mul_(&w2, y); same("mul", x, w1, w2);
        a_complex_div(&w1, x, y); w2 = x; a_complex_div_(&w2, y); same("div", x, w1, w2);
        a_complex_pow(&w1, x, y); w2 = x; a_complex_pow_(&w2, y); same("pow", x, w1, w2);
        a_complex_logb(&w1, x, y); w2 = x; a_complex_logb_(&w2, y); same("logb", x, w1, w2);
        a_complex_pow_real(&w1, x, r); w2 = x; a_complex_pow_real_(&w2, r); same("pow_real", x, w1, w2);
        a_complex_add_real(&w1, x, r); w2 = x; a_complex_add_real_(&w2, r); same("add_real", x, w1, w2);
        w2 = x; w2.real += r; same("add_real_def", x, w1, w2);
        a_complex_add_imag(&w1, x, r); w2 = x; a_complex_add_imag_(&w2, r); same("add_imag", x, w1, w2);
        w2 = x; w2.imag += r; same("add_imag_def", x, w1, w2);
        a_complex_sub_real(&w1, x, r); w2 = x; a_complex_sub_real_(&w2, r); same("sub_real", x, w1, w2);
        w2 = x; w2.real -= r; same("sub_real_def", x, w1, w2);
        a_complex_sub_imag(&w1, x, r); w2 = x; a_complex_sub_imag_(&w2, r); same("sub_imag", x, w1, w2);
        w2 = x; w2.imag -= r; same("sub_imag_def", x, w1, w2);
        a_complex_mul_real(&w1, x, r); w2 = x; a_complex_mul_real_(&w2, r); same("mul_real", x, w1, w2);
        a_complex_mul_imag(&w1, x, r); w2 = x; a_complex_mul_imag_(&w2, r); same("mul_imag", x, w1, w2);
        a_complex_div_real(&w1, x, r); w2 = x; a_complex_div_real_(&w2, r); same("div_real", x, w1, w2);
        a_complex_div_imag(&w1, x, r); w2 = x; a_complex_div_imag_(&w2, r); same("div_imag", x, w1, w2);
        /* equality tests: reflexive, and false as soon as one component differs */
        w1.real = (a_real)(a_complex_eq(x, x) && !a_complex_ne(x, x)); w1.imag = (a_real)(!a_complex_eq(x, y) == a_complex_ne(x, y));
        w2.real = 1; w2.imag = 1; same("eq_ne", x, w1, w2);
        w2 = x; w2.imag = (a_real)(x.imag + 1);
        w1.real = (a_real)a_complex_eq(x, w2); w1.imag = (a_real)a_complex_ne(x, w2); w2.real = 0; w2.imag = 1; same("eq_ne_imag", x, w1, w2);
    }
}
/* real-argument variants on the part of the real axis that is free of branch cuts (close to the complex function of x + 0i),
   and on the cut (only finiteness and agreement between build configurations is judged there) */
static void real_variants(void)
{
    static double const in[] = {-1, -0.75, -0.3125, 0, 0.125, 0.5, 1};          /* |x| <= 1 */
    static double const out[] = {-20, -3, -1.1875, 1.1875, 3, 20};              /* |x| > 1 */
    a_complex z, w1, w2;
    z.imag = 0;
    for (int i = 0; i < 7; ++i)
    {
        z.real = (a_real)in[i];
        a_complex_asin_real(&w1, z.real); w2 = z; a_complex_asin_(&w2); hom("asin_real", z, w2, w1);
        a_complex_acos_real(&w1, z.real); w2 = z; a_complex_acos_(&w2); hom("acos_real", z, w2, w1);
        if (fabs(in[i]) < 1) { a_complex_atanh_real(&w1, z.real); w2 = z; a_complex_atanh_(&w2); hom("atanh_real", z, w2, w1); }
        if (in[i] != 0 && fabs(in[i]) < 1)
        {
            a_complex_asec_real(&w1, z.real); hom("asec_real_cut", z, w1, w1);
            a_complex_acsc_real(&w1, z.real); hom("acsc_real_cut", z, w1, w1);
        }
        if (in[i] < 1) { a_complex_acosh_real(&w1, z.real); hom("acosh_real_cut", z, w1, w1); }
    }
    for (int i = 0; i < 6; ++i)
    {
        z.real = (a_real)out[i];
        a_complex_asec_real(&w1, z.real); w2 = z; a_complex_asec_(&w2); hom("asec_real", z, w2, w1);
        a_complex_acsc_real(&w1, z.real); w2 = z; a_complex_acsc_(&w2); hom("acsc_real", z, w2, w1);
        if (out[i] > 1) { a_complex_acosh_real(&w1, z.real); w2 = z; a_complex_acosh_(&w2); hom("acosh_real", z, w2, w1); }
        a_complex_asin_real(&w1, z.real); hom("asin_real_cut", z, w1, w1);
        a_complex_acos_real(&w1, z.real); hom("acos_real_cut", z, w1, w1);
        a_complex_atanh_real(&w1, z.real); hom("atanh_real_cut", z, w1, w1);
    }
}

int main(int argc, char **argv)
{
    if (argc < 2) { return 2; }
    f = fopen(argv[1], "w");
    if (!f) { perror(argv[1]); return 3; }
    int nm = (int)(sizeof(mags) / sizeof(mags[0]));
    if (sizeof(a_real) > 4) { mags[0] = (a_real)ldexp(1.0, -600); }
    {
        /* huge arguments (squares overflow) for the functions whose value stays representable there */
        static char const *const slow[] = {"sqrt", "log", "log2", "log10", "asin", "acos", "atan", "asec", "acsc", "acot", "asinh", "acosh", "atanh",
                                           "asech", "acsch", "acoth", "inv", "tanh", "coth"};
        a_real const H = (a_real)ldexp(1.0, sizeof(a_real) > 4 ? 600 : 100), M = (a_real)3;
        for (size_t k = 0; k < sizeof(table) / sizeof(table[0]); ++k)
        {
            int use = 0;
            for (size_t j = 0; j < sizeof(slow) / sizeof(slow[0]); ++j) { use |= !strcmp(slow[j], table[k].name); }
            if (!use) { continue; }
            for (int s4 = 0; s4 < 4; ++s4)
            {
                a_real const sr = (s4 & 1) ? -1 : 1, si = (s4 & 2) ? -1 : 1;
                unary(&table[k], sr * H, si * H);
                unary(&table[k], sr * H, si * M);
                unary(&table[k], sr * M, si * H);
            }
        }
        /* tangent and cotangent far from the real axis (the hyperbolic terms overflow, the value tends to +-i) */
        a_real const Y = (a_real)(sizeof(a_real) == 4 ? 60 : sizeof(a_real) == 8 ? 400 : 6000);
        for (size_t k = 0; k < sizeof(table) / sizeof(table[0]); ++k)
        {
            if (strcmp(table[k].name, "tan") && strcmp(table[k].name, "cot")) { continue; }
            for (int s4 = 0; s4 < 4; ++s4)
            {
                a_real const sr = (s4 & 1) ? -1 : 1, si = (s4 & 2) ? -1 : 1;
                unary(&table[k], sr * M, si * Y);
                unary(&table[k], sr * (a_real)0.75, si * Y * 2);
                unary(&table[k], sr * M, si * H);
            }
        }
    }
    for (size_t k = 0; k < sizeof(table) / sizeof(table[0]); ++k)
    {
        entry const *t = &table[k];
        for (int i = 0; i < nm; ++i)
        {
            for (int j = 0; j < nm; ++j)
            {
                for (int s = 0; s < 4; ++s) { unary(t, (s & 1) ? -mags[i] : mags[i], (s & 2) ? -mags[j] : mags[j]); }
            }
        }
        if (t->axes)
        {
            for (int i = 2; i < 7; ++i)
            {
                unary(t, mags[i], 0); unary(t, -mags[i], 0); unary(t, 0, mags[i]); unary(t, 0, -mags[i]);
            }
        }
        if (t->cut == 1)
        {
            for (int i = 2; i < 7; ++i) { unary(t, mags[i], 0); unary(t, 0, mags[i]); unary(t, 0, -mags[i]); }
        }
    }
    /* binary / scalar forms and inverse pairs */
    static a_real const g[] = {(a_real)-3, (a_real)-0.75, (a_real)0.125, (a_real)2, (a_real)20};
    for (int a = 0; a < 5; ++a) for (int b = 0; b < 5; ++b) for (int c = 0; c < 5; c += 2) for (int d = 1; d < 5; d += 2)
    {
        a_complex x, y, w;
        x.real = g[a]; x.imag = g[b]; y.real = g[c]; y.imag = g[d];
        w = x; a_complex_mul_(&w, y); vals2("mul", x.real, x.imag, y.real, y.imag, w);
        w = x; a_complex_div_(&w, y); vals2("div", x.real, x.imag, y.real, y.imag, w);
        w = x; a_complex_mul_(&w, y); a_complex_div_(&w, y); vals2("muldiv", x.real, x.imag, y.real, y.imag, w);
        a_complex_add(&w, x, y); vals2("add", x.real, x.imag, y.real, y.imag, w);
        a_complex_sub(&w, x, y); vals2("sub", x.real, x.imag, y.real, y.imag, w);
        a_complex_mul_real(&w, x, y.imag); vals2("mul_real", x.real, x.imag, y.imag, 0, w);
        a_complex_div_real(&w, x, y.imag); vals2("div_real", x.real, x.imag, y.imag, 0, w);
        a_complex_mul_imag(&w, x, y.imag); vals2("mul_imag", x.real, x.imag, y.imag, 0, w);
        a_complex_div_imag(&w, x, y.imag); vals2("div_imag", x.real, x.imag, y.imag, 0, w);
        w = x; a_complex_pow_(&w, y); vals2("pow", x.real, x.imag, y.real, y.imag, w);
        w = x; a_complex_logb_(&w, y); vals2("logb", x.real, x.imag, y.real, y.imag, w);
    }
    for (int a = 0; a < 5; ++a) for (int b = 0; b < 5; ++b)
    {
        a_complex x, w;
        x.real = g[a]; x.imag = g[b];
        for (int n = -3; n <= 4; ++n) { w = x; a_complex_pow_real_(&w, (a_real)n); vals2("pow_int", x.real, x.imag, n, 0, w); }
        w = x; a_complex_pow_real_(&w, (a_real)0.5); vals2("pow_half", x.real, x.imag, 0.5, 0, w);
        a_complex_conj(&w, x); vals2("conj", x.real, x.imag, 0, 0, w);
        a_complex_neg(&w, x); vals2("neg", x.real, x.imag, 0, 0, w);
        w.real = a_complex_abs2(x); w.imag = a_complex_abs(x); vals2("abs2_abs", x.real, x.imag, 0, 0, w);
        w.real = a_complex_arg(x); w.imag = a_complex_logabs(x); vals2("arg_logabs", x.real, x.imag, 0, 0, w);
        /* exp then log is the identity for |Im z| < pi */
        if (fabs((double)x.imag) < 3 && fabs((double)x.real) < 30) { w = x; a_complex_exp_(&w); a_complex_log_(&w); vals2("explog", x.real, x.imag, 0, 0, w); }
        w = x; a_complex_sqrt_(&w); a_complex_mul_(&w, w); vals2("sqrtsq", x.real, x.imag, 0, 0, w);
    }
    /* perfect squares of Gaussian integers, negative reals, axis points: principal root */
    for (int a = -3; a <= 3; ++a) for (int b = -3; b <= 3; ++b)
    {
        a_complex x, w;
        x.real = (a_real)(a * a - b * b); x.imag = (a_real)(2 * a * b);
        w = x; a_complex_sqrt_(&w); vals2("sqrt_exact", x.real, x.imag, a, b, w);
    }
    for (int i = 1; i <= 4; ++i)
    {
        a_complex w;
        a_complex_sqrt_real(&w, (a_real)(-i * i)); vals2("sqrt_real", -i * i, 0, 0, 0, w);
        a_complex_sqrt_real(&w, (a_real)(i * i)); vals2("sqrt_real", i * i, 0, 0, 0, w);
        for (int q = 0; q < 4; ++q)
        {
            a_complex_polar(&w, (a_real)i, (a_real)(q * 1.57079632679489661923)); vals2("polar", i, q, 0, 0, w);
        }
    }
    for (int q = 0; q < 8; ++q)
    {
        static int const dx[] = {1, 1, 0, -1, -1, -1, 0, 1}, dy[] = {0, 1, 1, 1, 0, -1, -1, -1};
        for (int m = 0; m < 3; ++m)
        {
            a_complex x, w;
            a_real const r = m == 0 ? (a_real)0.125 : m == 1 ? (a_real)2 : (a_real)20;
            x.real = dx[q] * r; x.imag = dy[q] * r;
            w.real = (a_real)(a_complex_arg(x) / 0.78539816339744830962); w.imag = 0;   /* in units of pi/4 */
            vals2("arg_octant", x.real, x.imag, q <= 4 ? q : q - 8, 0, w);
            w = x; a_complex_pow_real_(&w, 2); vals2("pow_real2", x.real, x.imag, 0, 0, w);
        }
    }
    scale_relations();
    both_forms();
    real_variants();
    /* real helpers (C11) */
    static double const rx[] = {1e-300, 1e-18, 1e-9, 1e-5, 0.01, 0.3, 0.5, 0.75, 0.99, 0.999999, 1.0, 1.0000001, 1.0001, 1.001, 1.01, 1.1, 1.5, 1.99, 2.0, 2.01, 2.5, 10.0, 1e5, 6.7e7, 1e8, 1e10, 1e20, 1e150, 1e300};
    for (size_t i = 0; i < sizeof(rx) / sizeof(rx[0]); ++i)
    {
        for (int s = 0; s < 2; ++s)
        {
            a_real x = (a_real)(s ? -rx[i] : rx[i]);
            if (!isfinite((double)x) || x == 0) { continue; }
            real1("asinh", x, a_real_asinh(x));
            if (x >= 1) { real1("acosh", x, a_real_acosh(x)); }
            if (x > -1 && x < 1) { real1("atanh", x, a_real_atanh(x)); }
            if (x < 700 && x > -1e300) { real1("expm1", x, a_real_expm1(x)); }
            if (x > -1) { real1("log1p", x, a_real_log1p(x)); }
        }
    }
    static double const ax[] = {0.0, 1e-300, 1e-5, 1.0, 3.0, 1e10, 1e300};
    for (size_t i = 0; i < 7; ++i) for (size_t j = 0; j < 7; ++j) for (int s = 0; s < 4; ++s)
    {
        a_real y = (a_real)((s & 1) ? -ax[i] : ax[i]), x = (a_real)((s & 2) ? -ax[j] : ax[j]);
        if ((y == 0 && (s & 1)) || (x == 0 && (s & 2))) { continue; } /* no negative zeros */
        if (x == 0 && y == 0) { continue; }
        if (!isfinite((double)x) || !isfinite((double)y)) { continue; } /* not representable in this real width */
        real2("atan2", y, x, a_real_atan2(y, x));
        real2("norm2", y, x, a_real_norm2(y, x));
    }
    fclose(f);
    printf("SUMMARY {\"lines\":%ld}\n", n_lines);
    return 0;
}
