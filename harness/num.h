/* helpers shared by the numeric harnesses: logging doubles for TLC */
#ifndef VERIF_NUM_H
#define VERIF_NUM_H
#include <stdio.h>
#include <math.h>
#include <stdint.h>
#include <string.h>
/* exact dyadic [n,k] = n / 2^k with |n| < 2^30, 0 <= k <= 30; [0,-1] if the value is not of that form */
static void put_dyadic(FILE *f, double v)
{
    if (!isfinite(v)) { fputs("[0,-1]", f); return; }
    for (int k = 0; k <= 30; ++k)
    {
        double s = ldexp(v, k);
        if (fabs(s) < 1073741824.0 && s == floor(s)) { fprintf(f, "[%d,%d]", (int)s, k); return; }
    }
    fputs("[0,-1]", f);
}
static void put_dyadics(FILE *f, double const *v, int n)
{
    fputc('[', f);
    for (int i = 0; i < n; ++i)
    {
        if (i) { fputc(',', f); }
        put_dyadic(f, v[i]);
    }
    fputc(']', f);
}
/* exact dyadic [n,k] when possible, else a fixed-point approximation [round(v*2^16), 16, 1] (|v| < 1024);
   [0,-1] when neither applies */
static void put_value(FILE *f, double v)
{
    if (!isfinite(v)) { fputs("[0,-1]", f); return; }
    for (int k = 0; k <= 16; ++k)
    {
        double s = ldexp(v, k);
        if (fabs(s) < 4194304.0 && s == floor(s)) { fprintf(f, "[%d,%d]", (int)s, k); return; }
    }
    if (fabs(v) < 1024.0) { fprintf(f, "[%d,16,1]", (int)llround(ldexp(v, 16))); return; }
    fputs("[0,-1]", f);
}
/* order-preserving code of a finite double: [sign, hi31, mid17, lo16]; NaN/inf: sign 9 */
static void put_ordered(FILE *f, double v)
{
    if (!isfinite(v)) { fprintf(f, "[9,%d,0,0]", isnan(v) ? 1 : (v > 0 ? 2 : 3)); return; }
    uint64_t b;
    double a = fabs(v);
    memcpy(&b, &a, 8);
    int sign = v > 0 ? 1 : (v < 0 ? -1 : 0);
    fprintf(f, "[%d,%u,%u,%u]", sign, (unsigned)(b >> 33), (unsigned)((b >> 16) & 0x1FFFF), (unsigned)(b & 0xFFFF));
}
#endif
