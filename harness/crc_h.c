/* Conformance harness for C17: table-driven CRCs (8/16/32/64, MSB- and LSB-first) and the two
 * multiplicative string hashes.  Emits ndjson events judged by CrcTrace.tla. */
#include <stdio.h>
#include <stdlib.h>
#include <string.h>
#include <stdint.h>
#include "a/crc.h"
#include "a/hash.h"

static uint64_t rng_s;
static uint64_t rnd(void)
{
    rng_s ^= rng_s << 13;
    rng_s ^= rng_s >> 7;
    rng_s ^= rng_s << 17;
    return rng_s;
}
static FILE *fo[64];
static int nb;
static long n_events, n_tables, n_crc, n_hash;
static FILE *out(void) { return fo[(n_events++ / 64) % nb]; }
static void put_le(FILE *f, uint64_t v, int n)
{
    fputc('[', f);
    for (int i = 0; i < n; ++i) { fprintf(f, i ? ",%u" : "%u", (unsigned)((v >> (8 * i)) & 0xff)); }
    fputc(']', f);
}
static void put_mem(FILE *f, unsigned char const *p, int n)
{
    fputc('[', f);
    for (int i = 0; i < n; ++i) { fprintf(f, i ? ",%u" : "%u", p[i]); }
    fputc(']', f);
}
static a_u8 t8[256];
static a_u16 t16[256];
static a_u32 t32[256];
static a_u64 t64[256];
static void init_table(int w, int lsb, uint64_t poly)
{
    /* the generators must write every entry: start from garbage, not from a zeroed or previously generated table */
    memset(t8, 0xA5, sizeof(t8)); memset(t16, 0xA5, sizeof(t16)); memset(t32, 0xA5, sizeof(t32)); memset(t64, 0xA5, sizeof(t64));
    switch (w)
    {
    case 8: lsb ? a_crc8l_init(t8, (a_u8)poly) : a_crc8m_init(t8, (a_u8)poly); break;
    case 16: lsb ? a_crc16l_init(t16, (a_u16)poly) : a_crc16m_init(t16, (a_u16)poly); break;
    case 32: lsb ? a_crc32l_init(t32, (a_u32)poly) : a_crc32m_init(t32, (a_u32)poly); break;
    default: lsb ? a_crc64l_init(t64, poly) : a_crc64m_init(t64, poly); break;
    }
}
static uint64_t entry(int w, int i) { return w == 8 ? t8[i] : w == 16 ? t16[i] : w == 32 ? t32[i] : t64[i]; }
static uint64_t crc(int w, int lsb, void const *p, size_t n, uint64_t v)
{
    switch (w)
    {
    case 8: return a_crc8(t8, p, n, (a_u8)v);
    case 16: return lsb ? a_crc16l(t16, p, n, (a_u16)v) : a_crc16m(t16, p, n, (a_u16)v);
    case 32: return lsb ? a_crc32l(t32, p, n, (a_u32)v) : a_crc32m(t32, p, n, (a_u32)v);
    default: return lsb ? a_crc64l(t64, p, n, v) : a_crc64m(t64, p, n, v);
    }
}
static uint64_t mask(int w) { return w == 64 ? ~0ull : ((1ull << w) - 1); }

static void do_poly(int w, int lsb, uint64_t poly, int table_stride, int nmsg)
{
    int nbytes = w / 8;
    init_table(w, lsb, poly);
    for (int i = 0; i < 256; i += table_stride)
    {
        FILE *f = out();
        fprintf(f, "{\"f\":\"table\",\"w\":%d,\"dir\":\"%s\",\"poly\":", w, lsb ? "l" : "m");
        put_le(f, poly, nbytes);
        fprintf(f, ",\"i\":%d,\"t\":", i);
        put_le(f, entry(w, i), nbytes);
        fputs("}\n", f);
        ++n_tables;
    }
    static unsigned char const alpha[] = {0x00, 0x01, 0x31, 0x80, 0xA5, 0xFF};
    for (int m = 0; m < nmsg; ++m)
    {
        unsigned char msg[96];
        int len;
        static int const longlen[] = {5, 7, 8, 9, 15, 16, 17, 31, 32, 33, 63, 64, 65, 80};
        if (m >= nmsg - 3)
        {
            /* long messages: lengths around the powers of two (unrolled or word-wise loops), random content */
            len = longlen[rnd() % (sizeof(longlen) / sizeof(longlen[0]))];
            for (int i = 0; i < len; ++i) { msg[i] = (unsigned char)rnd(); }
            if (rnd() % 3 == 0) { msg[0] = 0; }
        }
        else if (m < 1 + 6 + 36)
        {
            /* all messages of length <= 2 over a 6-byte alphabet */
            len = m == 0 ? 0 : m <= 6 ? 1 : 2;
            if (len == 1) { msg[0] = alpha[m - 1]; }
            if (len == 2) { msg[0] = alpha[(m - 7) / 6]; msg[1] = alpha[(m - 7) % 6]; }
        }
        else
        {
            len = 3 + (int)(rnd() % 2);
            for (int i = 0; i < len; ++i) { msg[i] = (unsigned char)rnd(); }
        }
        uint64_t inits[3] = {0, mask(w), rnd() & mask(w)};
        uint64_t init = inits[m % 3];
        uint64_t whole = crc(w, lsb, msg, (size_t)len, init);
        FILE *f = out();
        fprintf(f, "{\"f\":\"crc\",\"w\":%d,\"dir\":\"%s\",\"poly\":", w, lsb ? "l" : "m");
        put_le(f, poly, nbytes);
        fputs(",\"init\":", f);
        put_le(f, init, nbytes);
        fputs(",\"msg\":", f);
        put_mem(f, msg, len);
        fputs(",\"whole\":", f);
        put_le(f, whole, nbytes);
        fputs(",\"pieces\":[", f);
        for (int k = 0; k <= len; ++k)
        {
            uint64_t v = crc(w, lsb, msg, (size_t)k, init);
            v = crc(w, lsb, msg + k, (size_t)(len - k), v);
            if (k) { fputc(',', f); }
            put_le(f, v, nbytes);
        }
        fputs("]}\n", f);
        ++n_crc;
    }
}

static void do_hash(int sdbm, unsigned char const *msg, int len, uint32_t init)
{
    char z[128];
    memcpy(z, msg, (size_t)len);
    z[len] = 0;
    uint32_t s = sdbm ? a_hash_sdbm(z, init) : a_hash_bkdr(z, init);
    uint32_t n = sdbm ? a_hash_sdbm_(msg, (a_size)len, init) : a_hash_bkdr_(msg, (a_size)len, init);
    FILE *f = out();
    fprintf(f, "{\"f\":\"hash\",\"kind\":\"%s\",\"init\":", sdbm ? "sdbm" : "bkdr");
    put_le(f, init, 4);
    fputs(",\"msg\":", f);
    put_mem(f, msg, len);
    fputs(",\"str\":", f);
    put_le(f, s, 4);
    fputs(",\"len\":", f);
    put_le(f, n, 4);
    fputs(",\"pieces\":[", f);
    for (int k = 0; k <= len; ++k)
    {
        /* first piece length-delimited, second as a string, and the other way round */
        char a[128];
        memcpy(a, msg, (size_t)k);
        a[k] = 0;
        uint32_t v1 = sdbm ? a_hash_sdbm_(msg, (a_size)k, init) : a_hash_bkdr_(msg, (a_size)k, init);
        v1 = sdbm ? a_hash_sdbm(z + k, v1) : a_hash_bkdr(z + k, v1);
        uint32_t v2 = sdbm ? a_hash_sdbm(a, init) : a_hash_bkdr(a, init);
        v2 = sdbm ? a_hash_sdbm_(msg + k, (a_size)(len - k), v2) : a_hash_bkdr_(msg + k, (a_size)(len - k), v2);
        if (k) { fputc(',', f); }
        put_le(f, v1, 4);
        fputc(',', f);
        put_le(f, v2, 4);
    }
    fputs("]}\n", f);
    ++n_hash;
}

int main(int argc, char **argv)
{
    if (argc < 5) { fprintf(stderr, "usage: %s <seed> <out-prefix> <batches> <tier 0|1>\n", argv[0]); return 2; }
    rng_s = 0x9E3779B97F4A7C15ull ^ (strtoull(argv[1], 0, 10) * 1000003ull);
    rnd();
    nb = atoi(argv[3]);
    if (nb > 64) { nb = 64; }
    int thorough = atoi(argv[4]);
    char name[512];
    for (int i = 0; i < nb; ++i)
    {
        snprintf(name, sizeof(name), "%s-%04d.ndjson", argv[2], i);
        fo[i] = fopen(name, "w");
        if (!fo[i]) { perror(name); return 3; }
    }
    /* width 8: many polynomials (all 256 in the thorough tier) */
    for (int p = 0; p < 256; p += thorough ? 1 : 17)
    {
        for (int lsb = 0; lsb < 2; ++lsb) { do_poly(8, lsb, (uint64_t)p, thorough ? 1 : 5, thorough ? 60 : 46); }
    }
    static uint64_t const std16[] = {0x1021, 0x8005, 0x3D65, 0x0001}, std32[] = {0x04C11DB7, 0x1EDC6F41, 0x000000AF, 0x80000001},
                          std64[] = {0x42F0E1EBA9EA3693ull, 0xAD93D23594C935A9ull, 0x000000000000001Bull, 0x8000000000000001ull};
    int nrand = thorough ? 60 : 2;
    for (int lsb = 0; lsb < 2; ++lsb)
    {
        for (int i = 0; i < 4 + nrand; ++i)
        {
            do_poly(16, lsb, i < 4 ? std16[i] : (rnd() & 0xFFFF), thorough ? 1 : 3, thorough ? 60 : 46);
            do_poly(32, lsb, i < 4 ? std32[i] : (rnd() & 0xFFFFFFFFu), thorough ? 1 : 3, thorough ? 60 : 46);
            do_poly(64, lsb, i < 4 ? std64[i] : rnd(), thorough ? 1 : 3, thorough ? 60 : 46);
        }
    }
    /* hashes: NUL-free messages including bytes >= 0x80 */
    static unsigned char const ha[] = {0x01, 0x41, 0x7F, 0x80, 0xFF};
    unsigned char msg[96];
    for (int sd = 0; sd < 2; ++sd)
    {
        uint32_t inits[3] = {0, 0xFFFFFFFFu, (uint32_t)rnd()};
        do_hash(sd, msg, 0, inits[1]);
        for (int a = 0; a < 5; ++a)
        {
            msg[0] = ha[a];
            do_hash(sd, msg, 1, inits[a % 3]);
            for (int b = 0; b < 5; ++b)
            {
                msg[1] = ha[b];
                do_hash(sd, msg, 2, inits[(a + b) % 3]);
                for (int c = 0; c < 5; ++c)
                {
                    msg[2] = ha[c];
                    do_hash(sd, msg, 3, inits[(a + b + c) % 3]);
                }
            }
        }
        for (int i = 0; i < (thorough ? 3000 : 200); ++i)
        {
            int len = i % 10 == 0 ? 8 + (int)(rnd() % 72) : 1 + (int)(rnd() % 7); /* every tenth one long */
            for (int k = 0; k < len; ++k) { msg[k] = (unsigned char)(1 + rnd() % 255); }
            do_hash(sd, msg, len, (uint32_t)rnd());
        }
    }
    for (int i = 0; i < nb; ++i) { fclose(fo[i]); }
    printf("SUMMARY {\"events\":%ld,\"table_entries\":%ld,\"crc_messages\":%ld,\"hash_messages\":%ld}\n", n_events, n_tables, n_crc, n_hash);
    return 0;
}
