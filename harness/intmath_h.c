/* Conformance harness for C19: integer square root, gcd/lcm, bit reversal, byte-order accessors.
 * Produces ndjson events (numbers as little-endian byte arrays) that IntMathTrace.tla judges
 * by definition; also a native sweep of the defining predicate r*r <= x < (r+1)^2. */
#include <stdio.h>
#include <stdlib.h>
#include <string.h>
#include <stdint.h>
#include "a/a.h"
#include "a/math.h"
#include "watchdog.h"

static uint64_t rng_s;
static uint64_t rnd(void)
{
    rng_s ^= rng_s << 13;
    rng_s ^= rng_s >> 7;
    rng_s ^= rng_s << 17;
    return rng_s;
}
static void put_le(FILE *f, uint64_t v, int nbytes)
{
    fputc('[', f);
    for (int i = 0; i < nbytes; ++i) { fprintf(f, i ? ",%u" : "%u", (unsigned)((v >> (8 * i)) & 0xff)); }
    fputc(']', f);
}
static void put_mem(FILE *f, unsigned char const *p, int n)
{
    fputc('[', f);
    for (int i = 0; i < n; ++i) { fprintf(f, i ? ",%u" : "%u", p[i]); }
    fputc(']', f);
}
static FILE *fo[64];
static int nb;
static long n_events;
static FILE *out(void) { return fo[(n_events++ / 256) % nb]; }

static void ev_sqrt32(uint32_t x)
{
    FILE *f = out();
    fprintf(f, "{\"f\":\"sqrt\",\"w\":32,\"x\":");
    put_le(f, x, 4);
    fputs(",\"r\":", f);
    wd_arm(20, "a_u32_sqrt");
    put_le(f, a_u32_sqrt(x), 4);
    fputs("}\n", f);
}
static void ev_sqrt64(uint64_t x)
{
    FILE *f = out();
    fprintf(f, "{\"f\":\"sqrt\",\"w\":64,\"x\":");
    put_le(f, x, 8);
    fputs(",\"r\":", f);
    wd_arm(20, "a_u64_sqrt");
    put_le(f, a_u64_sqrt(x), 8);
    fputs("}\n", f);
}
static void ev_gcd(uint64_t a, uint64_t b, int w)
{
    FILE *f = out();
    int n = w / 8;
    wd_arm(20, "gcd / lcm");
    uint64_t g = w == 32 ? a_u32_gcd((a_u32)a, (a_u32)b) : a_u64_gcd(a, b);
    uint64_t l = w == 32 ? a_u32_lcm((a_u32)a, (a_u32)b) : a_u64_lcm(a, b);
    fprintf(f, "{\"f\":\"gcd\",\"w\":%d,\"a\":", w);
    put_le(f, a, n);
    fputs(",\"b\":", f);
    put_le(f, b, n);
    fputs(",\"g\":", f);
    put_le(f, g, n);
    fputs(",\"chain\":[", f);
    uint64_t p = a, c = b;
    int first = 1;
    while (c)
    {
        uint64_t q = p / c, r = p % c;
        fputs(first ? "[" : ",[", f);
        put_le(f, q, n);
        fputc(',', f);
        put_le(f, r, n);
        fputc(']', f);
        first = 0;
        p = c;
        c = r;
    }
    fputs("]}\n", f);
    f = out();
    fprintf(f, "{\"f\":\"lcm\",\"w\":%d,\"a\":", w);
    put_le(f, a, n);
    fputs(",\"b\":", f);
    put_le(f, b, n);
    fputs(",\"g\":", f);
    put_le(f, g, n);
    fputs(",\"l\":", f);
    put_le(f, l, n);
    fputs("}\n", f);
}
static void ev_rev(uint64_t x, int w)
{
    FILE *f = out();
    uint64_t r = w == 8 ? a_u8_rev((a_u8)x) : w == 16 ? a_u16_rev((a_u16)x) : w == 32 ? a_u32_rev((a_u32)x) : a_u64_rev(x);
    fprintf(f, "{\"f\":\"rev\",\"w\":%d,\"x\":", w);
    put_le(f, x, w / 8);
    fputs(",\"r\":", f);
    put_le(f, r, 8);
    fputs("}\n", f);
}
static void ev_order(uint64_t x, int w)
{
    unsigned char m[8], g[8];
    int n = w / 8;
    for (int big = 0; big < 2; ++big)
    {
        memset(m, 0xEE, sizeof(m));
        if (w == 16) { big ? a_u16_setb(m, (a_u16)x) : a_u16_setl(m, (a_u16)x); }
        else if (w == 32) { big ? a_u32_setb(m, (a_u32)x) : a_u32_setl(m, (a_u32)x); }
        else { big ? a_u64_setb(m, x) : a_u64_setl(m, x); }
        FILE *f = out();
        fprintf(f, "{\"f\":\"%s\",\"w\":%d,\"x\":", big ? "setb" : "setl", w);
        put_le(f, x, n);
        fputs(",\"bytes\":", f);
        put_mem(f, m, n);
        fputs("}\n", f);
        for (int i = 0; i < n; ++i) { g[i] = (unsigned char)(x >> (8 * i)) ^ (unsigned char)(0x5a + i); }
        uint64_t v;
        if (w == 16) { v = big ? a_u16_getb(g) : a_u16_getl(g); }
        else if (w == 32) { v = big ? a_u32_getb(g) : a_u32_getl(g); }
        else { v = big ? a_u64_getb(g) : a_u64_getl(g); }
        f = out();
        fprintf(f, "{\"f\":\"%s\",\"w\":%d,\"bytes\":", big ? "getb" : "getl", w);
        put_mem(f, g, n);
        fputs(",\"x\":", f);
        put_le(f, v, n);
        fputs("}\n", f);
    }
}

int main(int argc, char **argv)
{
    if (argc < 6) { fprintf(stderr, "usage: %s <seed> <out-prefix> <batches> <nrandom> <sweep-log2>\n", argv[0]); return 2; }
    rng_s = 0x9E3779B97F4A7C15ull ^ (strtoull(argv[1], 0, 10) * 1000003ull);
    rnd();
    nb = atoi(argv[3]);
    if (nb > 64) { nb = 64; }
    long nrand = atol(argv[4]);
    int sweep = atoi(argv[5]);
    char name[512];
    for (int i = 0; i < nb; ++i)
    {
        snprintf(name, sizeof(name), "%s-%04d.ndjson", argv[2], i);
        fo[i] = fopen(name, "w");
        if (!fo[i]) { perror(name); return 3; }
    }
    /* square root: exhaustive small range, boundary families for every bit length, random */
    for (uint32_t x = 0; x < 4096; ++x) { ev_sqrt32(x); ev_sqrt64(x); }
    for (int j = 0; j <= 32; ++j)
    {
        for (int d = -1; d <= 1; ++d)
        {
            uint64_t k = (j == 0 ? 1ull : (1ull << j)) + (uint64_t)(int64_t)d;
            if (j == 32 && d >= 0) { k = 0xFFFFFFFFull; }
            for (int e = -1; e <= 1; ++e)
            {
                uint64_t sq = k * k + (uint64_t)(int64_t)e; /* wraps are fine: still inputs */
                ev_sqrt64(sq);
                if (k <= 0xFFFFull || (k * k + (uint64_t)(int64_t)e) <= 0xFFFFFFFFull) { ev_sqrt32((uint32_t)sq); }
            }
        }
    }
    for (int b = 0; b < 64; ++b)
    {
        for (int d = -1; d <= 1; ++d)
        {
            uint64_t x = (1ull << b) + (uint64_t)(int64_t)d;
            ev_sqrt64(x);
            if (b < 32) { ev_sqrt32((uint32_t)x); }
        }
    }
    ev_sqrt32(0xFFFFFFFFu);
    ev_sqrt64(0xFFFFFFFFFFFFFFFFull);
    for (long i = 0; i < nrand; ++i)
    {
        uint64_t r = rnd();
        ev_sqrt32((uint32_t)(r >> (rnd() % 32)));
        ev_sqrt64(rnd() >> (rnd() % 64));
    }
    /* gcd / lcm */
    for (uint32_t a = 0; a < 40; ++a)
    {
        for (uint32_t b = 0; b < 40; ++b) { ev_gcd(a, b, 32); ev_gcd(a, b, 64); }
    }
    for (long i = 0; i < nrand; ++i)
    {
        uint64_t a = rnd() >> (rnd() % 64), b = rnd() >> (rnd() % 64), c = rnd() >> (32 + rnd() % 31);
        ev_gcd(a, b, 64);
        ev_gcd((a >> 32) * c, (b >> 32) * c, 64); /* with a large common factor */
        ev_gcd((uint32_t)a, (uint32_t)b, 32);
        ev_gcd((uint32_t)((a & 0xFFFF) * (c & 0xFFFF)), (uint32_t)((b & 0xFFFF) * (c & 0xFFFF)), 32);
    }
    ev_gcd(0x300000000ull, 0x200000000ull, 64);
    ev_gcd(0xFFFFFFFFFFFFFFFFull, 0xFFFFFFFFull, 64);
    ev_gcd(0xFFFFFFFFu, 0xFFFFu, 32);
    /* consecutive Fibonacci numbers: the longest Euclidean chains for their size */
    {
        uint64_t fa = 1, fb = 1;
        for (int i = 0; i < 91; ++i)
        {
            uint64_t fc = fa + fb;
            ev_gcd(fc, fb, 64); ev_gcd(fb, fc, 64);
            if (fc <= 0xFFFFFFFFull) { ev_gcd(fc, fb, 32); ev_gcd(fb, fc, 32); ev_gcd(2 * fb <= 0xFFFFFFFFull ? 2 * fb : fb, fc, 32); }
            fa = fb; fb = fc;
        }
    }
    /* least common multiples at the top of the representable range (the product still fits the word) */
    ev_gcd(0xFFFFFFFFull, 0x100000001ull, 64);               /* lcm = 2^64 - 1 */
    ev_gcd(3, 0x5555555555555555ull, 64);                    /* lcm = 2^64 - 1 */
    ev_gcd(0xFFFFFFFFFFFFFFFFull, 1, 64);
    ev_gcd(0xFFFFFFFFFFFFFFFFull, 0xFFFFFFFFFFFFFFFFull, 64); /* lcm(n, n) = n */
    ev_gcd(0x8000000000000000ull, 0x8000000000000000ull, 64);
    ev_gcd(0x8000000000000001ull, 0x8000000000000001ull, 64);
    ev_gcd(0xFFFFu, 0x10001u, 32);                           /* lcm = 2^32 - 1 */
    ev_gcd(3, 0x55555555u, 32);
    ev_gcd(0xFFFFFFFFu, 0xFFFFFFFFu, 32);
    ev_gcd(0x80000000u, 0x80000000u, 32);
    for (int sh = 1; sh < 63; ++sh) { ev_gcd(1ull << sh, (1ull << (63 - sh)) | 1, 64); if (sh < 31) { ev_gcd(1u << sh, (1u << (31 - sh)) | 1, 32); } }
    /* bit reversal */
    for (uint32_t x = 0; x < 256; ++x) { ev_rev(x, 8); }
    for (uint32_t x = 0; x < 65536; x += 17) { ev_rev(x, 16); }
    for (int b = 0; b < 64; ++b)
    {
        ev_rev(1ull << b, 64);
        ev_rev(~(1ull << b), 64);
        if (b < 32) { ev_rev(1u << b, 32); ev_rev(~(1u << b), 32); }
        if (b < 16) { ev_rev(1u << b, 16); }
    }
    for (long i = 0; i < nrand; ++i)
    {
        ev_rev((uint32_t)rnd(), 32);
        ev_rev(rnd(), 64);
        ev_rev((uint16_t)rnd(), 16);
    }
    /* byte order */
    for (int b = 0; b < 64; ++b)
    {
        ev_order(1ull << b, 64);
        if (b < 32) { ev_order(1u << b, 32); }
        if (b < 16) { ev_order(1u << b, 16); }
    }
    for (long i = 0; i < nrand / 4 + 8; ++i)
    {
        ev_order(rnd(), 64);
        ev_order((uint32_t)rnd(), 32);
        ev_order((uint16_t)rnd(), 16);
    }
    ev_order(0x80000000ull, 64);
    ev_order(0x0102030405060708ull, 64);
    ev_order(0x01020304u, 32);
    ev_order(0x0102u, 16);
    for (int i = 0; i < nb; ++i) { fclose(fo[i]); }
    /* native sweep of the defining predicate (conformance extension, beyond TLC's reach) */
    unsigned long bad = 0, first_bad = 0;
    uint64_t lim = sweep >= 32 ? 0x100000000ull : (1ull << sweep);
    for (uint64_t x = 0; x < lim; ++x)
    {
        if ((x & 0xFFFF) == 0) { wd_arm(60, "a_u32_sqrt sweep"); }
        uint64_t r = a_u32_sqrt((a_u32)x);
        if (!(r * r <= x && (r + 1) * (r + 1) > x))
        {
            if (!bad) { first_bad = (unsigned long)x; }
            ++bad;
        }
    }
    unsigned long bad64 = 0;
    uint64_t first_bad64 = 0;
    for (long i = 0; i < nrand * 50; ++i)
    {
        wd_arm(20, "a_u64_sqrt sample");
        uint64_t x = rnd() >> (rnd() % 64), r = a_u64_sqrt(x);
        __uint128_t rr = (__uint128_t)r * r, r1 = (__uint128_t)(r + 1) * (r + 1);
        if (!(rr <= x && r1 > x))
        {
            if (!bad64) { first_bad64 = x; }
            ++bad64;
        }
    }
    printf("SUMMARY {\"events\":%ld,\"sweep32\":%llu,\"sweep32_bad\":%lu,\"sweep32_first_bad\":%lu,\"sweep64\":%ld,\"sweep64_bad\":%lu,\"sweep64_first_bad_hi\":%lu,\"sweep64_first_bad_lo\":%lu}\n",
           n_events, (unsigned long long)lim, bad, first_bad, nrand * 50, bad64, (unsigned long)(first_bad64 >> 32), (unsigned long)(first_bad64 & 0xFFFFFFFFu));
    return 0;
}
