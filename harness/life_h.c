/* Lifecycle harness (C07, extension of the fault enumeration): the heap constructors and destructors
 * a_vec_new/die, a_buf_new/die, a_que_new/die, a_str_new/die and the whole-object swaps a_vec_swap / a_str_swap, which no
 * state-graph transition reaches.  One event = construct (under a fault plan) - fill - swap with a second object of other
 * contents - destroy both with a recording destructor; every allocator request of the constructor is recorded and the
 * ledger is read at the end.  Judged by AllocTrace (LifeOK). */
#include <stdio.h>
#include <stdlib.h>
#include <string.h>
#include "a/vec.h"
#include "a/buf.h"
#include "a/que.h"
#include "a/str.h"
#include "fault.h"

static int ndtor;
static void cnt_dtor(void *p) { (void)p; ++ndtor; }
static void put_ints(FILE *f, int const *v, int n)
{
    fputc('[', f);
    for (int i = 0; i < n; ++i) { fprintf(f, i ? ",%d" : "%d", v[i]); }
    fputc(']', f);
}
static void put_leak(FILE *f, int base_id, long badfree0)
{
    fputs(",\"leak\":[", f);
    int first = 1;
    for (int i = 0; i < f_nlive; ++i)
    {
        if (f_live[i].id > base_id) { fprintf(f, first ? "%d" : ",%d", f_live[i].id); first = 0; }
    }
    fprintf(f, "],\"badfree\":%ld}\n", f_badfree - badfree0);
}

/* fam: 0 vec, 1 buf, 2 que, 3 str; na / nb elements in the two objects; plan: 0 none, 1 the constructor's request fails */
static void life(FILE *f, int fam, int siz, int na, int nb, int plan)
{
    static char const *const names[] = {"vec", "buf", "que", "str"};
    int base_id = f_nextid;
    long badfree0 = f_badfree;
    int got_a[64], got_b[64], ga = 0, gb = 0, isnull = 0, swapped = 0, owned = 0;
    ndtor = 0;
    fprintf(f, "{\"fam\":\"%s\",\"op\":\"life\",\"siz\":%d,\"na\":%d,\"nb\":%d,\"plan\":\"%s\",\"live0\":[],\"reqs\":", names[fam], siz, na, nb, plan ? "single" : "none");
    if (fam == 0)
    {
        f_begin(plan ? 1 : 0, 0);
        a_vec *a = a_vec_new((a_size)siz);
        f_end();
        f_put_log(f);
        isnull = a == NULL;
        if (a)
        {
            a_vec *b = a_vec_new((a_size)siz);
            for (int i = 0; i < na; ++i) { unsigned char *e = (unsigned char *)a_vec_push_back(a); if (e) { memset(e, 0, (size_t)siz); e[0] = (unsigned char)(10 + i); } }
            for (int i = 0; i < nb; ++i) { unsigned char *e = (unsigned char *)a_vec_push_back(b); if (e) { memset(e, 0, (size_t)siz); e[0] = (unsigned char)(50 + i); } }
            a_vec_swap(a, b);
            swapped = 1;
            for (a_size i = 0; i < a_vec_num(a) && ga < 64; ++i) { { unsigned char *e = (unsigned char *)a_vec_at(a, i); got_a[ga++] = e ? *e : -1; } }
            for (a_size i = 0; i < a_vec_num(b) && gb < 64; ++i) { { unsigned char *e = (unsigned char *)a_vec_at(b, i); got_b[gb++] = e ? *e : -1; } }
            owned = ga + gb;
            a_vec_die(a, cnt_dtor);
            a_vec_die(b, cnt_dtor);
        }
    }
    else if (fam == 1)
    {
        f_begin(plan ? 1 : 0, 0);
        a_buf *a = a_buf_new((a_size)siz, (a_size)(na + 1));
        f_end();
        f_put_log(f);
        isnull = a == NULL;
        if (a)
        {
            for (int i = 0; i < na; ++i) { unsigned char *e = (unsigned char *)a_buf_push_back(a); if (e) { memset(e, 0, (size_t)siz); e[0] = (unsigned char)(10 + i); } }
            for (a_size i = 0; i < a_buf_num(a) && ga < 64; ++i) { { unsigned char *e = (unsigned char *)a_buf_at(a, i); got_a[ga++] = e ? *e : -1; } }
            for (int i = 0; i < nb; ++i) { got_b[gb++] = 50 + i; } /* no swap for the buffer: the second list is relayed */
            owned = ga;
            a_buf_die(a, cnt_dtor);
        }
    }
    else if (fam == 2)
    {
        f_begin(plan ? 1 : 0, 0);
        a_que *a = a_que_new((a_size)siz);
        f_end();
        f_put_log(f);
        isnull = a == NULL;
        if (a)
        {
            a_que *b = a_que_new((a_size)siz);
            for (int i = 0; i < na; ++i) { unsigned char *e = (unsigned char *)a_que_push_back(a); if (e) { memset(e, 0, (size_t)siz); e[0] = (unsigned char)(10 + i); } }
            for (int i = 0; i < nb; ++i) { unsigned char *e = (unsigned char *)a_que_push_back(b); if (e) { memset(e, 0, (size_t)siz); e[0] = (unsigned char)(50 + i); } }
            /* one element of each goes back to the pool: the queue owns parked nodes as well */
            int parked = 0;
            if (na > 1) { a_que_pull_fore(a); ++parked; }
            a_que_swap(a, b);
            swapped = 1;
            for (a_size i = 0; i < a_que_num(a) && ga < 64; ++i) { { unsigned char *e = (unsigned char *)a_que_at(a, (a_diff)i); got_a[ga++] = e ? *e : -1; } }
            for (a_size i = 0; i < a_que_num(b) && gb < 64; ++i) { { unsigned char *e = (unsigned char *)a_que_at(b, (a_diff)i); got_b[gb++] = e ? *e : -1; } }
            owned = ga + gb + parked;
            a_que_die(a, cnt_dtor);
            a_que_die(b, cnt_dtor);
        }
    }
    else
    {
        f_begin(plan ? 1 : 0, 0);
        a_str *a = a_str_new();
        f_end();
        f_put_log(f);
        isnull = a == NULL;
        if (a)
        {
            a_str *b = a_str_new();
            for (int i = 0; i < na; ++i) { a_str_catc(a, 10 + i); }
            for (int i = 0; i < nb; ++i) { a_str_catc(b, 50 + i); }
            a_str_swap(a, b);
            swapped = 1;
            for (a_size i = 0; i < a_str_len(a) && ga < 64; ++i) { got_a[ga++] = (unsigned char)a_str_ptr(a)[i]; }
            for (a_size i = 0; i < a_str_len(b) && gb < 64; ++i) { got_b[gb++] = (unsigned char)a_str_ptr(b)[i]; }
            /* both stay terminated through the swap */
            if ((ga && a_str_ptr(a)[ga] != 0) || (gb && a_str_ptr(b)[gb] != 0)) { got_a[0] = -1; }
            owned = 0;
            a_str_die(a);
            a_str_die(b);
        }
    }
    fprintf(f, ",\"failed\":%ld,\"null\":%d,\"swapped\":%d,\"a\":", f_failed, isnull, swapped);
    put_ints(f, got_a, ga);
    fputs(",\"b\":", f);
    put_ints(f, got_b, gb);
    fprintf(f, ",\"owned\":%d,\"dtor_calls\":%d", owned, ndtor);
    put_leak(f, base_id, badfree0);
}

int main(int argc, char **argv)
{
    if (argc < 2) { return 2; }
    FILE *f = fopen(argv[1], "w");
    if (!f) { perror(argv[1]); return 3; }
    f_install();
    long n = 0;
    static int const sizes[] = {1, 3, 8};
    for (int fam = 0; fam < 4; ++fam)
    {
        for (int si = 0; si < 3; ++si)
        {
            for (int na = 0; na <= 9; na += 3)
            {
                for (int nb = 0; nb <= 10; nb += 5)
                {
                    for (int plan = 0; plan < 2; ++plan) { life(f, fam, sizes[si], na, nb, plan); ++n; }
                }
            }
        }
    }
    fclose(f);
    printf("SUMMARY {\"events\":%ld}\n", n);
    return 0;
}
