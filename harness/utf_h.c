/* Conformance harness for C18 (UTF-8 codec).  Input: the TLC output of Utf8MC (byte strings
 * 2222222, code points 1111111, length table 1212121).  Every input buffer handed to the library is
 * a heap block of exactly `num` bytes, so under ASan a read beyond the stated length aborts.
 * Also: a native sweep over code points using the table exported by the specification. */
#include <stdio.h>
#include <stdlib.h>
#include <string.h>
#include <stdint.h>
#include <signal.h>
#include <unistd.h>
#include "a/utf.h"
#include "a/str.h"
#include "watchdog.h"

static long n_events;
static FILE *fo[64];
static int nb;
static char cur_desc[256];
static FILE *out(void) { return fo[(n_events++ / 256) % nb]; }
void __sanitizer_set_death_callback(void (*cb)(void));
static void on_death(void)
{
    printf("CRASH {%s}\n", cur_desc);
    fflush(stdout);
}
static void on_abort(int sig)
{
    (void)sig;
    on_death();
    _exit(97);
}
static int parse_ints(char const *s, long *out_, int max)
{
    int n = 0;
    while (*s && n < max)
    {
        if ((*s >= '0' && *s <= '9') || (*s == '-' && s[1] >= '0' && s[1] <= '9'))
        {
            char *e;
            out_[n++] = strtol(s, &e, 10);
            s = e;
        }
        else { ++s; }
    }
    return n;
}
static void put_bytes(FILE *f, unsigned char const *p, int n)
{
    fputc('[', f);
    for (int i = 0; i < n; ++i) { fprintf(f, i ? ",%u" : "%u", p[i]); }
    fputc(']', f);
}
/* exact-size copy: an over-read is an ASan heap-buffer-overflow */
static unsigned char *exact(unsigned char const *p, int n)
{
    unsigned char *q = (unsigned char *)malloc(n ? (size_t)n : 1);
    if (n) { memcpy(q, p, (size_t)n); }
    else { free(q); q = (unsigned char *)malloc(0); }
    return q;
}
static unsigned int dec(unsigned char const *p, int n, a_u32 *val)
{
    unsigned char *q = exact(p, n);
    unsigned int r = a_utf_decode(q, (a_size)n, val);
    free(q);
    return r;
}

static void ev_cp(uint32_t cp)
{
    wd_arm(20, "code point event");
    unsigned char enc[16];
    memset(enc, 0xAA, sizeof(enc));
    snprintf(cur_desc, sizeof(cur_desc), "\"f\":\"cp\",\"cp\":%u", cp);
    unsigned int n = a_utf_encode(cp, enc);
    if (n > 8) { n = 8; }
    FILE *f = out();
    fprintf(f, "{\"f\":\"cp\",\"cp\":%u,\"n\":%u,\"enc\":", cp, n);
    put_bytes(f, enc, (int)n);
    a_u32 v = 0, v2 = 0;
    unsigned int d = dec(enc, (int)n, &v), dn = dec(enc, (int)n, NULL);
    unsigned char more[16];
    memcpy(more, enc, n);
    more[n] = 0x80; more[n + 1] = 0x41; /* trailing bytes must not be consumed */
    unsigned int dm = dec(more, (int)n + 2, &v2);
    fprintf(f, ",\"dec_len\":%u,\"dec_cp\":%u,\"dec_len_noval\":%u,\"dec_len_more\":%u,\"dec_cp_more\":%u,\"prefix\":[", d, v, dn, dm, v2);
    for (unsigned int k = 1; k < n; ++k)
    {
        a_u32 t;
        unsigned int a = dec(enc, (int)k, &t), b = dec(enc, (int)k, NULL);
        fprintf(f, k > 1 ? ",%u" : "%u", a ? a : b);
    }
    fputs("]}\n", f);
}

static void ev_bytes(unsigned char const *b, int len)
{
    wd_arm(20, "byte string event");
    for (int num = 0; num <= len; ++num)
    {
        snprintf(cur_desc, sizeof(cur_desc), "\"f\":\"bytes\",\"num\":%d,\"b0\":%d,\"b1\":%d,\"len\":%d", num, len > 0 ? b[0] : -1, len > 1 ? b[1] : -1, len);
        a_u32 v = 0;
        unsigned int r = dec(b, num, &v), r2 = dec(b, num, NULL);
        FILE *f = out();
        fprintf(f, "{\"f\":\"bytes\",\"num\":%d,\"b\":", num);
        put_bytes(f, b, len);
        fprintf(f, ",\"len\":%u,\"len_noval\":%u}\n", r, r2);
    }
    /* the length counter over the whole string */
    snprintf(cur_desc, sizeof(cur_desc), "\"f\":\"length\",\"len\":%d,\"b0\":%d", len, len > 0 ? b[0] : -1);
    unsigned char *q = exact(b, len);
    a_size stop = 12345;
    a_size cnt = a_utf_length(q, (a_size)len, &stop);
    a_size fast = a_utf_length_(q, (a_size)len);   /* counter for text known to be well formed */
    free(q);
    FILE *f = out();
    fprintf(f, "{\"f\":\"length\",\"num\":%d,\"b\":", len);
    put_bytes(f, b, len);
    fputs(",\"decs\":[", f);
    int pos = 0, first = 1;
    for (;;)
    {
        unsigned int d = dec(b + pos, len - pos, NULL);
        fprintf(f, first ? "%u" : ",%u", d);
        first = 0;
        if (!d || pos > len) { break; }
        pos += (int)d;
    }
    fprintf(f, "],\"count\":%lu,\"stop\":%lu,\"fast\":%lu}\n", (unsigned long)cnt, (unsigned long)stop, (unsigned long)fast);
    /* the same count through the string object: the stated length is the string's length, the capacity behind it
       holds stale text that must not be counted */
    {
        a_str str;
        unsigned char *blk = (unsigned char *)malloc((size_t)len + 8);
        memcpy(blk, b, (size_t)len);
        memset(blk + len, 'q', 8);
        str.ptr_ = (char *)blk; str.num_ = (a_size)len; str.mem_ = (a_size)len + 8;
        snprintf(cur_desc, sizeof(cur_desc), "\"f\":\"length\",\"via\":\"a_utf_len\",\"len\":%d,\"b0\":%d", len, len > 0 ? b[0] : -1);
        stop = 12345;
        cnt = a_utf_len(&str, &stop);
        free(blk);
        f = out();
        fprintf(f, "{\"f\":\"length\",\"via\":\"a_utf_len\",\"num\":%d,\"b\":", len);
        put_bytes(f, b, len);
        fputs(",\"decs\":[", f);
        pos = 0; first = 1;
        for (;;)
        {
            unsigned int d = dec(b + pos, len - pos, NULL);
            fprintf(f, first ? "%u" : ",%u", d);
            first = 0;
            if (!d || pos > len) { break; }
            pos += (int)d;
        }
        fprintf(f, "],\"count\":%lu,\"stop\":%lu}\n", (unsigned long)cnt, (unsigned long)stop);
    }
}

int main(int argc, char **argv)
{
    if (argc < 6) { fprintf(stderr, "usage: %s <tlc-output> <out-prefix> <batches> <seed> <sweep-step>\n", argv[0]); return 2; }
    __sanitizer_set_death_callback(on_death);
    signal(SIGABRT, on_abort);
    FILE *fi = fopen(argv[1], "r");
    if (!fi) { perror(argv[1]); return 3; }
    nb = atoi(argv[3]);
    if (nb > 64) { nb = 64; }
    char name[512];
    for (int i = 0; i < nb; ++i)
    {
        snprintf(name, sizeof(name), "%s-%04d.ndjson", argv[2], i);
        fo[i] = fopen(name, "w");
        if (!fo[i]) { perror(name); return 3; }
    }
    static char line[1 << 16];
    static long v[8192];
    long nstr = 0, ncp = 0;
    long mincp[8] = {0}, mask[8] = {0};
    int have_table = 0;
    while (fgets(line, sizeof(line), fi))
    {
        if (strstr(line, "2222222"))
        {
            int n = parse_ints(line, v, 8192);
            unsigned char b[64];
            int len = (int)v[1];
            if (n != 2 + len || len > 60) { fprintf(stderr, "bad string line\n"); return 3; }
            for (int i = 0; i < len; ++i) { b[i] = (unsigned char)v[2 + i]; }
            ev_bytes(b, len);
            ++nstr;
        }
        else if (strstr(line, "1111111"))
        {
            int n = parse_ints(line, v, 8192);
            for (int i = 1; i < n; ++i) { ev_cp((uint32_t)v[i]); ++ncp; }
        }
        else if (strstr(line, "1212121"))
        {
            int n = parse_ints(line, v, 8192);
            if (n == 13)
            {
                for (int i = 0; i < 6; ++i) { mincp[i + 1] = v[1 + i]; mask[i + 1] = v[7 + i]; }
                have_table = 1;
            }
        }
    }
    /* seeded random code points through the event path too */
    uint64_t s = 0x9E3779B97F4A7C15ull ^ (strtoull(argv[4], 0, 10) * 1000003ull);
    for (int i = 0; i < 2000; ++i)
    {
        s ^= s << 13; s ^= s >> 7; s ^= s << 17;
        uint32_t cp = (uint32_t)(s >> (33 + (s % 24)));
        if (cp) { ev_cp(cp); ++ncp; }
    }
    for (int i = 0; i < nb; ++i) { fclose(fo[i]); }
    /* native sweep with the table exported by the specification: decode(encode(cp)) = (len(cp), cp) */
    unsigned long bad = 0, first_bad = 0, swept = 0;
    long step = atol(argv[5]);
    if (have_table && step > 0)
    {
        for (uint64_t cp = 1; cp <= 0x7FFFFFFFull; cp += (uint64_t)step)
        {
            if ((swept & 0xFFFFF) == 0) { wd_arm(120, "native code point sweep"); } /* re-armed every 2^20 code points */
            unsigned char enc[8];
            unsigned int want = 1;
            for (int k = 2; k <= 6; ++k)
            {
                if ((long)cp >= mincp[k]) { want = (unsigned int)k; }
            }
            unsigned int n = a_utf_encode((a_u32)cp, enc);
            a_u32 val = 0;
            unsigned int d = n <= 6 ? a_utf_decode(enc, n, &val) : 0;
            int ok = n == want && d == n && val == cp && (want == 1 ? enc[0] == cp : (enc[0] & mask[want]) == mask[want]);
            if (ok && n > 1) { ok = a_utf_decode(enc, n - 1, &val) == 0; }
            if (!ok)
            {
                if (!bad) { first_bad = (unsigned long)cp; }
                ++bad;
            }
            ++swept;
        }
    }
    printf("SUMMARY {\"events\":%ld,\"strings\":%ld,\"codepoints\":%ld,\"swept\":%lu,\"sweep_bad\":%lu,\"sweep_first_bad\":%lu,\"table\":%d}\n", n_events, nstr, ncp, swept, bad, first_bad, have_table);
    return 0;
}
