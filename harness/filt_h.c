/* Conformance harness for C16: a_tf, a_lpf, a_hpf.  Input: FiltersMC output (9090909 lines:
 * numerator, denominator, input history, expected outputs).  Emits ndjson for FiltersTrace. */
#include <stdio.h>
#include <stdlib.h>
#include <string.h>
#include "a/tf.h"
#include "a/lpf.h"
#include "a/hpf.h"
#include "num.h"

static long n_events, n_mismatch, n_cases;
static FILE *fo[64];
static int nb;
static FILE *out(void) { return fo[(n_events++ / 128) % nb]; }
static int parse_ints(char const *s, long *o, int max)
{
    int n = 0;
    while (*s && n < max)
    {
        if ((*s >= '0' && *s <= '9') || (*s == '-' && s[1] >= '0' && s[1] <= '9'))
        {
            char *e;
            o[n++] = strtol(s, &e, 10);
            s = e;
        }
        else { ++s; }
    }
    return n;
}
static void put_longs(FILE *f, long const *v, int n)
{
    fputc('[', f);
    for (int i = 0; i < n; ++i) { fprintf(f, i ? ",%ld" : "%ld", v[i]); }
    fputc(']', f);
}
static void run_tf(a_tf *tf, double const *x, int n, double *y)
{
    for (int i = 0; i < n; ++i) { y[i] = a_tf_iter(tf, x[i]); }
}

int main(int argc, char **argv)
{
    if (argc < 4) { fprintf(stderr, "usage: %s <tlc-output> <out-prefix> <batches>\n", argv[0]); return 2; }
    FILE *fi = fopen(argv[1], "r");
    if (!fi) { perror(argv[1]); return 3; }
    nb = atoi(argv[3]);
    if (nb > 64) { nb = 64; }
    char name[512];
    for (int i = 0; i < nb; ++i)
    {
        snprintf(name, sizeof(name), "%s-%04d.ndjson", argv[2], i);
        fo[i] = fopen(name, "w");
        if (!fo[i]) { perror(name); return 3; }
    }
    static char line[1 << 14];
    long v[256];
    while (fgets(line, sizeof(line), fi))
    {
        if (!strstr(line, "9090909")) { continue; }
        int n = parse_ints(line, v, 256);
        int nn = (int)v[1], nd = (int)v[2], nh = (int)v[3];
        if (n != 4 + nn + nd + 2 * nh || nn > 24 || nd > 24 || nh > 16) { fprintf(stderr, "bad line\n"); return 3; }
        long const *num = v + 4, *den = num + nn, *x = den + nd, *ey = x + nh;
        double dn[24], dd[24], in[25], outl[25], dx[17], y[17], y2[17], ys[18], y3[17], xs[18];
        for (int i = 0; i < nn; ++i) { dn[i] = (double)num[i]; }
        for (int i = 0; i < nd; ++i) { dd[i] = (double)den[i]; }
        for (int i = 0; i < nh; ++i) { dx[i] = (double)x[i]; }
        /* guard cells behind the delay lines */
        in[nn] = 12345.0;
        outl[nd] = 54321.0;
        a_tf tf;
        a_tf_init(&tf, (unsigned)nn, dn, in, (unsigned)nd, dd, outl);
        run_tf(&tf, dx, nh, y);
        a_tf_zero(&tf);
        run_tf(&tf, dx, nh, y2);                 /* zeroing restores the initial state */
        a_tf_zero(&tf);
        xs[0] = 0;
        for (int i = 0; i < nh; ++i) { xs[i + 1] = dx[i]; }
        run_tf(&tf, xs, nh + 1, ys);             /* input delayed by one step */
        a_tf_zero(&tf);
        for (int i = 0; i < nh; ++i) { xs[i] = 3 * dx[i]; }
        run_tf(&tf, xs, nh, y3);                 /* scaled input */
        int guards = in[nn] == 12345.0 && outl[nd] == 54321.0;
        FILE *f = out();
        fputs("{\"f\":\"tf\",\"num\":", f);
        put_longs(f, num, nn);
        fputs(",\"den\":", f);
        put_longs(f, den, nd);
        fputs(",\"x\":", f);
        put_longs(f, x, nh);
        fputs(",\"y\":", f);
        put_dyadics(f, y, nh);
        fputs(",\"y2\":", f);
        put_dyadics(f, y2, nh);
        fputs(",\"shift\":", f);
        put_dyadics(f, ys, nh + 1);
        fputs(",\"scaled\":", f);
        put_dyadics(f, y3, nh);
        fprintf(f, ",\"guards\":%d}\n", guards);
        ++n_cases;
        for (int i = 0; i < nh; ++i)
        {
            if (y[i] != (double)ey[i]) { ++n_mismatch; break; }
        }
        if (nn == 0 && nd == 0)
        {
            /* RC filters once per input history, alpha = k/8 */
            for (int k = 0; k <= 8; ++k)
            {
                a_lpf lp;
                a_hpf hp;
                double yl[17], yh[17];
                a_lpf_init(&lp, k / 8.0);
                a_hpf_init(&hp, k / 8.0);
                for (int i = 0; i < nh; ++i)
                {
                    yl[i] = a_lpf_iter(&lp, dx[i]);
                    yh[i] = a_hpf_iter(&hp, dx[i]);
                }
                f = out();
                fprintf(f, "{\"f\":\"lpf\",\"a\":%d,\"x\":", k);
                put_longs(f, x, nh);
                fputs(",\"y\":", f);
                put_dyadics(f, yl, nh);
                a_lpf_zero(&lp);
                fputs(",\"after_zero\":", f);
                put_dyadic(f, a_lpf_iter(&lp, dx[0]));
                fputs("}\n", f);
                f = out();
                fprintf(f, "{\"f\":\"hpf\",\"a\":%d,\"x\":", k);
                put_longs(f, x, nh);
                fputs(",\"y\":", f);
                put_dyadics(f, yh, nh);
                a_hpf_zero(&hp);
                fputs(",\"after_zero\":", f);
                put_dyadic(f, a_hpf_iter(&hp, dx[0]));
                fputs("}\n", f);
                /* constant input: settling / decay */
                a_lpf_init(&lp, k / 8.0);
                a_hpf_init(&hp, k / 8.0);
                double c = dx[0] ? dx[0] : 3.0, sl[4], sh[4];
                for (int i = 0; i < 4; ++i)
                {
                    sl[i] = a_lpf_iter(&lp, c);
                    sh[i] = a_hpf_iter(&hp, c);
                }
                f = out();
                fprintf(f, "{\"f\":\"settle\",\"a\":%d,\"c\":%d,\"lpf\":", k, (int)c);
                put_dyadics(f, sl, 4);
                fputs(",\"hpf\":", f);
                put_dyadics(f, sh, 4);
                fputs("}\n", f);
            }
        }
    }
    /* low-pass with extreme magnitudes: the convex combination must neither overflow nor leave the range
       of the values fed so far; alpha = 1 passes the input through exactly, alpha = 0 holds 0 */
    {
        static double const big[] = {1e308, -1e308, 1.0, 1e16, -1.0, 0.0, -1e16, 1.7e308};
        static double const al[] = {0.0, 0.5, 1.0, 0.25};
        for (int a = 0; a < 4; ++a)
        {
            for (int s0 = 0; s0 < 8; ++s0)
            {
                for (int s1 = 0; s1 < 8; ++s1)
                {
                    a_lpf lp;
                    a_lpf_init(&lp, al[a]);
                    double xs[3] = {big[s0], big[s1], big[(s0 + s1 + 1) % 8]}, ys[3];
                    for (int i = 0; i < 3; ++i) { ys[i] = a_lpf_iter(&lp, xs[i]); }
                    FILE *f = out();
                    fprintf(f, "{\"f\":\"lpf_big\",\"a4\":%d,\"x\":[", (int)(al[a] * 4));
                    for (int i = 0; i < 3; ++i) { if (i) { fputc(',', f); } put_ordered(f, xs[i]); }
                    fputs("],\"y\":[", f);
                    for (int i = 0; i < 3; ++i) { if (i) { fputc(',', f); } put_ordered(f, ys[i]); }
                    fputs("]}\n", f);
                }
            }
        }
    }
    /* coefficient generators on a grid of fc*ts = 10^e, e = -20..20, several splits of the product */
    for (int e = -20; e <= 20; ++e)
    {
        for (int s = -6; s <= 12; s += 3)
        {
            double fc = pow(10.0, (e + s) / 2.0 + (((e + s) % 2) ? 0.5 : 0.0)), ts = pow(10.0, e) / fc;
            /* the last two rounds put the cut-off frequency resp. the sampling time at the end of the floating-point range */
            if (s == 9) { fc = 1e308; ts = pow(10.0, e) / fc; }
            if (s == 12) { ts = 1e308; fc = pow(10.0, e) / ts; }
            if (!(fc > 0) || !(ts > 0) || !isfinite(fc) || !isfinite(ts)) { continue; }
            FILE *f = out();
            fprintf(f, "{\"f\":\"gen\",\"e\":%d,\"lpf\":", e);
            put_ordered(f, a_lpf_gen(fc, ts));
            fputs(",\"hpf\":", f);
            put_ordered(f, a_hpf_gen(fc, ts));
            {
                /* the macro spellings (constant initialisers) with compound expressions as arguments: same coefficient */
                double const f_hi = 1.5 * fc, f_lo = 0.5 * fc, t_a = 0.25 * ts, t_b = 0.75 * ts;
                a_lpf const l2 = A_LPF_2(f_hi - f_lo, t_a + t_b), l1 = A_LPF_1(a_lpf_gen(fc, ts));
                a_hpf const h2 = A_HPF_2(f_hi - f_lo, t_a + t_b), h1 = A_HPF_1(a_hpf_gen(fc, ts));
                fputs(",\"lpf_macro\":[", f);
                put_ordered(f, A_LPF_GEN(f_hi - f_lo, t_a + t_b)); fputc(',', f); put_ordered(f, l2.alpha); fputc(',', f); put_ordered(f, l1.alpha);
                fputs("],\"hpf_macro\":[", f);
                put_ordered(f, A_HPF_GEN(f_hi - f_lo, t_a + t_b)); fputc(',', f); put_ordered(f, h2.alpha); fputc(',', f); put_ordered(f, h1.alpha);
                fputs("],\"lpf_ref\":", f); put_ordered(f, a_lpf_gen((a_real)(f_hi - f_lo), (a_real)(t_a + t_b)));
                fputs(",\"hpf_ref\":", f); put_ordered(f, a_hpf_gen((a_real)(f_hi - f_lo), (a_real)(t_a + t_b)));
                fprintf(f, ",\"zeroed\":%d", l2.output == 0 && l1.output == 0 && h2.output == 0 && h2.input == 0 && h1.output == 0 && h1.input == 0);
            }
            fputs("}\n", f);
        }
    }
    for (int i = 0; i < nb; ++i) { fclose(fo[i]); }
    printf("SUMMARY {\"events\":%ld,\"tf_cases\":%ld,\"mismatch\":%ld}\n", n_events, n_cases, n_mismatch);
    return 0;
}
