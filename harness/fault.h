/* Allocator shim for C07: a_alloc is a replaceable function pointer, so no hook in the
 * library is needed.  The shim keeps a ledger of live blocks, numbers the allocation
 * requests (size > 0) made while `counting` is on, fails them according to the fault
 * plan (single request k / every request from k on) and records every request as JSON. */
#ifndef VERIF_FAULT_H
#define VERIF_FAULT_H
#include <stdio.h>
#include <stdlib.h>
#include <string.h>
#include <signal.h>
#include <unistd.h>
#include "a/a.h"

typedef struct
{
    void *ptr;
    size_t size;
    int id;
} fblk;
static fblk f_live[512];
static int f_nlive, f_nextid;
static long f_req, f_single, f_from, f_failed, f_badfree;
static int f_counting;
static char f_log[16384];
static size_t f_loglen;

static void f_logf(char const *t, int blk, long size, int ok, int id)
{
    if (f_loglen + 112 < sizeof(f_log))
    {
        f_loglen += (size_t)snprintf(f_log + f_loglen, sizeof(f_log) - f_loglen, "{\"t\":\"%s\",\"blk\":%d,\"size\":%ld,\"ok\":%d,\"id\":%d}", t, blk, size, ok, id);
    }
}
static int f_find(void *p)
{
    for (int i = 0; i < f_nlive; ++i)
    {
        if (f_live[i].ptr == p) { return i; }
    }
    return -1;
}
static void *f_shim(void *addr, a_size size)
{
    int old = addr ? f_find(addr) : -1;
    int oldid = old >= 0 ? f_live[old].id : (addr ? -1 : 0);
    if (addr && old < 0) { ++f_badfree; } /* free/realloc of a block that is not live */
    if (size == 0)
    {
        if (f_counting) { f_logf("free", oldid, 0L, 1, 0); }
        if (old >= 0)
        {
            free(addr);
            f_live[old] = f_live[--f_nlive];
        }
        return NULL;
    }
    int fail = 0;
    if (f_counting)
    {
        ++f_req;
        if ((f_single && f_req == f_single) || (f_from && f_req >= f_from)) { fail = 1; }
    }
    if (fail)
    {
        ++f_failed;
        f_logf("alloc", oldid, (long)size, 0, 0);
        return NULL; /* a failed realloc leaves the old block alive */
    }
    /* a resize always moves the block (and releases the old one), so a pointer kept across a growing call is stale */
    void *np = malloc(size);
    if (!np) { abort(); }
    if (old >= 0)
    {
        memcpy(np, addr, f_live[old].size < size ? f_live[old].size : size);
        free(addr);
    }
    int id;
    if (old >= 0)
    {
        id = f_live[old].id;
        f_live[old].ptr = np;
        f_live[old].size = size;
    }
    else
    {
        id = ++f_nextid;
        if (f_nlive < 512)
        {
            f_live[f_nlive].ptr = np;
            f_live[f_nlive].size = size;
            f_live[f_nlive].id = id;
            ++f_nlive;
        }
    }
    if (f_counting) { f_logf("alloc", oldid, (long)size, 1, id); }
    return np;
}
/* watchdog: a library call (and the harness's reading of its result) that does not finish within 30 s is reported like a
   crash - the harness prints HANG and its own CRASH line, and exits with status 96; every f_begin re-arms it */
static void (*f_on_hang)(void);
static void f_alarm(int sig)
{
    (void)sig;
    fputs("HANG\n", stdout);
    if (f_on_hang) { f_on_hang(); }
    fflush(stdout);
    _exit(96);
}
/* the log is a comma separated list: patch separators in afterwards */
static void f_begin(long single, long from)
{
    alarm(30);
    f_req = 0;
    f_failed = 0;
    f_single = single;
    f_from = from;
    f_loglen = 0;
    f_log[0] = 0;
    f_counting = 1;
}
static void f_end(void)
{
    f_counting = 0;
    f_single = f_from = 0;
}
static void f_put_log(FILE *f)
{
    /* entries were written back to back as {...}{...}: emit with commas */
    fputc('[', f);
    for (size_t i = 0; i < f_loglen; ++i)
    {
        fputc(f_log[i], f);
        if (f_log[i] == '}' && i + 1 < f_loglen) { fputc(',', f); }
    }
    fputc(']', f);
}
static void f_install(void) { a_alloc = f_shim; signal(SIGALRM, f_alarm); }
#endif
