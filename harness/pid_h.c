/* Conformance harness for C12 (plain PID): replays PidMC transitions (5050505) into a_pid_run/pos/inc/zero,
 * compares every state field natively, logs ndjson for PidTrace; plus seeded random integer histories. */
#include <stdio.h>
#include <stdlib.h>
#include <string.h>
#include <stdint.h>
#include "a/pid.h"
#include "num.h"

static long n_events, n_edges, n_mismatch;
static FILE *fo[64];
static int nb;
static FILE *out(void) { return fo[(n_events++ / 512) % nb]; }
static int parse_ints(char const *s, long *o, int max)
{
    int n = 0;
    while (*s && n < max)
    {
        if ((*s >= '0' && *s <= '9') || (*s == '-' && s[1] >= '0' && s[1] <= '9'))
        {
            char *e;
            o[n++] = strtol(s, &e, 10);
            s = e;
        }
        else { ++s; }
    }
    return n;
}
static char const *opn[] = {"?", "run", "pos", "inc", "zero"};
static void put_state(FILE *f, char const *name, a_pid const *p)
{
    double v[5] = {p->sum, p->out, p->var, p->fdb, p->err};
    fprintf(f, "\"%s\":", name);
    put_dyadics(f, v, 5);
}
static FILE *hist_file;
static void log_step(int op, double set, double fdb, a_pid const *pre, a_pid const *post, double ret, int chain)
{
    FILE *f = hist_file ? (++n_events, hist_file) : out();
    double par[7] = {pre->kp, pre->ki, pre->kd, pre->summin, pre->summax, pre->outmin, pre->outmax};
    fprintf(f, "{\"op\":\"%s\",\"chain\":%d,\"set\":", opn[op], chain);
    put_dyadic(f, set);
    fputs(",\"fdb\":", f);
    put_dyadic(f, fdb);
    fputs(",\"par\":", f);
    put_dyadics(f, par, 7);
    fputc(',', f);
    put_state(f, "pre", pre);
    fputc(',', f);
    put_state(f, "post", post);
    fputs(",\"ret\":", f);
    put_dyadic(f, ret);
    fputs("}\n", f);
}
static double apply(int op, a_pid *p, double set, double fdb)
{
    switch (op)
    {
    case 1: return a_pid_run(p, set, fdb);
    case 2: return a_pid_pos(p, set, fdb);
    case 3: return a_pid_inc(p, set, fdb);
    default: a_pid_zero(p); return 0;
    }
}
static uint64_t rng_s;
static uint64_t rnd(void)
{
    rng_s ^= rng_s << 13;
    rng_s ^= rng_s >> 7;
    rng_s ^= rng_s << 17;
    return rng_s;
}

int main(int argc, char **argv)
{
    if (argc < 6) { fprintf(stderr, "usage: %s <tlc-output> <out-prefix> <batches> <seed> <nhist>\n", argv[0]); return 2; }
    FILE *fi = fopen(argv[1], "r");
    if (!fi) { perror(argv[1]); return 3; }
    nb = atoi(argv[3]);
    long const log_every = argc > 6 ? atol(argv[6]) : 1;
    if (nb > 64) { nb = 64; }
    char name[512];
    for (int i = 0; i < nb; ++i)
    {
        snprintf(name, sizeof(name), "%s-%04d.ndjson", argv[2], i);
        fo[i] = fopen(name, "w");
        if (!fo[i]) { perror(name); return 3; }
    }
    static char line[1 << 12];
    long v[64];
    while (fgets(line, sizeof(line), fi))
    {
        if (!strstr(line, "5050505")) { continue; }
        int n = parse_ints(line, v, 64);
        if (n != 21) { fprintf(stderr, "bad line %d\n", n); return 3; }
        a_pid p, pre;
        p.kp = (double)v[4]; p.ki = (double)v[5]; p.kd = (double)v[6];
        p.summin = (double)v[7]; p.summax = (double)v[8]; p.outmin = (double)v[9]; p.outmax = (double)v[10];
        p.sum = (double)v[11]; p.out = (double)v[12]; p.var = (double)v[13]; p.fdb = (double)v[14]; p.err = (double)v[15];
        pre = p;
        double ret = apply((int)v[1], &p, (double)v[2], (double)v[3]);
        ++n_edges;
        if (p.sum != (double)v[16] || p.out != (double)v[17] || p.var != (double)v[18] || p.fdb != (double)v[19] || p.err != (double)v[20] ||
            (v[1] != 4 && ret != p.out))
        {
            if (n_mismatch++ < 10)
            {
                printf("MISMATCH {\"op\":\"%s\",\"set\":%ld,\"fdb\":%ld,\"par\":[%ld,%ld,%ld,%ld,%ld,%ld,%ld],\"pre\":[%ld,%ld,%ld,%ld,%ld],\"expected\":[%ld,%ld,%ld,%ld,%ld],\"got\":[%g,%g,%g,%g,%g]}\n",
                       opn[v[1]], v[2], v[3], v[4], v[5], v[6], v[7], v[8], v[9], v[10], v[11], v[12], v[13], v[14], v[15], v[16], v[17], v[18], v[19], v[20],
                       p.sum, p.out, p.var, p.fdb, p.err);
            }
        }
        /* every edge is compared natively above; for very large state graphs only every log_every-th one is also
           written out for the TLC trace validation */
        if (n_edges % log_every == 0) { log_step((int)v[1], (double)v[2], (double)v[3], &pre, &p, ret, 0); }
    }
    /* seeded random integer histories (longer than the exhaustive bound) */
    rng_s = 0x9E3779B97F4A7C15ull ^ (strtoull(argv[4], 0, 10) * 1000003ull);
    rnd();
    int nh = atoi(argv[5]);
    for (int h = 0; h < nh; ++h)
    {
        a_pid p, pre;
        hist_file = fo[h % nb]; /* a chained history stays in one batch */
        p.kp = (double)((int)(rnd() % 7) - 2); p.ki = (double)(rnd() % 4); p.kd = (double)((int)(rnd() % 5) - 1);
        p.summax = (double)(rnd() % 12); p.summin = -(double)(rnd() % 12);
        p.outmin = -(double)(rnd() % 40); p.outmax = p.outmin + (double)(rnd() % 60);
        a_pid_zero(&p);
        for (int i = 0; i < 200; ++i)
        {
            int op = (rnd() % 50 == 0) ? 4 : (h % 3 == 0 ? 2 : h % 3 == 1 ? 3 : 1 + (int)(rnd() % 3));
            double set = (double)((int)(rnd() % 21) - 10), fdb = (double)((int)(rnd() % 21) - 10);
            pre = p;
            double ret = apply(op, &p, set, fdb);
            log_step(op, set, fdb, &pre, &p, ret, i > 0);
        }
    }
    for (int i = 0; i < nb; ++i) { fclose(fo[i]); }
    printf("SUMMARY {\"events\":%ld,\"edges\":%ld,\"mismatch\":%ld}\n", n_events, n_edges, n_mismatch);
    return 0;
}
