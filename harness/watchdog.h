/* Watchdog for the numeric harnesses: wd_arm(seconds, what) before a library call (re-armed by the next one).  A call that
 * does not return makes the harness print HANG {"what":...} and exit with status 96, which the checks report as a hang:
 * violation instead of waiting for the whole-run limit. */
#ifndef VERIF_WATCHDOG_H
#define VERIF_WATCHDOG_H
#include <signal.h>
#include <unistd.h>
#include <stdio.h>
#include <string.h>
static char wd_what[160];
static void wd_alarm(int sig)
{
    (void)sig;
    char buf[256];
    int n = snprintf(buf, sizeof(buf), "\nHANG {\"what\":\"%s\"}\n", wd_what);
    if (n > 0 && write(1, buf, (size_t)n)) {}
    _exit(96);
}
static void wd_arm(unsigned secs, char const *what)
{
    static int installed;
    if (!installed) { signal(SIGALRM, wd_alarm); installed = 1; }
    strncpy(wd_what, what, sizeof(wd_what) - 1);
    alarm(secs);
}
#endif
