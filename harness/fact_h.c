/* Conformance harness for C08: a_real_plu / a_real_ldl / a_real_llt and the routines derived from them.
 * Input: FactorMC output (2020202: kind, n, aux, matrix entries as numerator/denominator pairs).
 * Duplicate inputs (the generator emits every generated transition) are skipped.  Emits ndjson. */
#include <stdio.h>
#include <stdlib.h>
#include <string.h>
#include <stdint.h>
#include "a/linalg.h"
#include "num.h"

static long n_events, n_dups;
static FILE *fo[64];
static int nb;
static FILE *out(void) { return fo[(n_events++ / 32) % nb]; }
static int parse_ints(char const *s, long *o, int max)
{
    int n = 0;
    while (*s && n < max)
    {
        if ((*s >= '0' && *s <= '9') || (*s == '-' && s[1] >= '0' && s[1] <= '9'))
        {
            char *e;
            o[n++] = strtol(s, &e, 10);
            s = e;
        }
        else { ++s; }
    }
    return n;
}
#define HS (1 << 22)
static uint64_t seen[HS];
static int is_dup(char const *line)
{
    uint64_t h = 1469598103934665603ull;
    for (char const *p = line; *p; ++p) { h = (h ^ (unsigned char)*p) * 1099511628211ull; }
    if (!h) { h = 1; }
    for (size_t i = h % HS;; i = (i + 1) % HS)
    {
        if (seen[i] == h) { return 1; }
        if (!seen[i]) { seen[i] = h; return 0; }
    }
}
static void put_m(FILE *f, char const *name, a_real const *v, int n)
{
    double d[160];
    for (int i = 0; i < n; ++i) { d[i] = (double)v[i]; }
    fprintf(f, ",\"%s\":", name);
    put_dyadics(f, d, n);
}

/* the same matrix scaled by 2^s (exact): the factorization must still succeed and the log-determinant must move by
   exactly n*s*ln 2, also where the determinant itself is far outside the floating-point range */
static void put_scaled(FILE *f, int kind, int n, a_real const *A, a_real const *b)
{
    /* beyond the range of the next narrower type as well: 2^60 (float), 2^400 (double), 2^4000 (long double) */
    int const S = sizeof(a_real) == 4 ? 60 : sizeof(a_real) == 8 ? 400 : 4000;
    /* ... and down into the subnormal range (entries stay exact: they are small multiples of 1/4) */
    /* the smallest normal exponent: pivots of magnitude >= 2 stay normal, entries below become subnormal */
    int const SUB = sizeof(a_real) == 4 ? -127 : sizeof(a_real) == 8 ? -1023 : -16383;
    int const sh[] = {S, -S, SUB};
    a_real B[160];
    a_uint p[16];
    int sign;
    fputs(",\"scaled\":[", f);
    for (int k = 0; k < 3; ++k)
    {
        int rc;
        long double ln = 0;
        for (int i = 0; i < n * n; ++i) { B[i] = (a_real)ldexpl((long double)A[i], sh[k]); }
        if (kind <= 2) { rc = a_real_plu((a_uint)n, B, p, &sign); if (rc == 0) { ln = a_real_plu_lndet((a_uint)n, B); } }
        else if (kind <= 4) { rc = a_real_ldl((a_uint)n, B); if (rc == 0) { ln = a_real_ldl_lndet((a_uint)n, B); } }
        else { rc = a_real_llt((a_uint)n, B); if (rc == 0) { ln = a_real_llt_lndet((a_uint)n, B); } }
        fprintf(f, "%s{\"rc\":%d,\"l2\":", k ? "," : "", rc);
        put_value(f, (double)(ln / 0.69314718055994530942L - (long double)n * sh[k]));
        /* the solution of the scaled system with the scaled right-hand side is the same vector */
        fputs(",\"x\":", f);
        if (rc == 0)
        {
            a_real bs[16], xs[16];
            double dx[16];
            for (int i = 0; i < n; ++i) { bs[i] = (a_real)ldexpl((long double)b[i], sh[k]); }
            if (kind <= 2) { a_real_plu_solve((a_uint)n, B, p, bs, xs); }
            else
            {
                memcpy(xs, bs, sizeof(a_real) * (size_t)n);
                if (kind <= 4) { a_real_ldl_solve((a_uint)n, B, xs); }
                else { a_real_llt_solve((a_uint)n, B, xs); }
            }
            for (int i = 0; i < n; ++i) { dx[i] = (double)xs[i]; }
            put_dyadics(f, dx, n);
        }
        else { fputs("[]", f); }
        fputc('}', f);
    }
    fputc(']', f);
}

int main(int argc, char **argv)
{
    if (argc < 4) { fprintf(stderr, "usage: %s <tlc-output> <out-prefix> <batches>\n", argv[0]); return 2; }
    FILE *fi = fopen(argv[1], "r");
    if (!fi) { perror(argv[1]); return 3; }
    nb = atoi(argv[3]);
    if (nb > 64) { nb = 64; }
    char name[512];
    for (int i = 0; i < nb; ++i)
    {
        snprintf(name, sizeof(name), "%s-%04d.ndjson", argv[2], i);
        fo[i] = fopen(name, "w");
        if (!fo[i]) { perror(name); return 3; }
    }
    long const stride = argc > 4 ? atol(argv[4]) : 1; /* take every stride-th case (used for the additional real widths) */
    long n_seen = 0;
    static char line[1 << 16];
    long v[700];
    long by_kind[8] = {0};
    while (fgets(line, sizeof(line), fi))
    {
        if (!strstr(line, "2020202")) { continue; }
        if (is_dup(line)) { ++n_dups; continue; }
        if (stride > 1 && (n_seen++ % stride)) { continue; }
        int cnt = parse_ints(line, v, 700);
        int kind = (int)v[1], n = (int)v[2], aux = (int)v[3], nn = n * n;
        if (cnt != 4 + 2 * nn || n > 12) { fprintf(stderr, "bad line\n"); return 3; }
        /* every array handed to the library is a heap block of exactly the documented size: n*n for matrices, n for vectors
           (under ASan a write or read one element beyond it aborts) */
        a_real A[160];
        a_real *W = (a_real *)malloc(sizeof(a_real) * (size_t)(v[2] * v[2])), *L = (a_real *)malloc(sizeof(a_real) * (size_t)(v[2] * v[2])),
               *U = (a_real *)malloc(sizeof(a_real) * (size_t)(v[2] * v[2])), *P = (a_real *)malloc(sizeof(a_real) * (size_t)(v[2] * v[2])),
               *P2 = (a_real *)malloc(sizeof(a_real) * (size_t)(v[2] * v[2])), *I1 = (a_real *)malloc(sizeof(a_real) * (size_t)(v[2] * v[2])),
               *I2 = (a_real *)malloc(sizeof(a_real) * (size_t)(v[2] * v[2])), *b = (a_real *)malloc(sizeof(a_real) * (size_t)v[2]),
               *x = (a_real *)malloc(sizeof(a_real) * (size_t)v[2]), *tmp = (a_real *)malloc(sizeof(a_real) * (size_t)v[2]), *d = (a_real *)malloc(sizeof(a_real) * (size_t)v[2]);
        for (int i = 0; i < nn; ++i) { A[i] = (a_real)v[4 + 2 * i] / (a_real)v[5 + 2 * i]; }
        for (int i = 0; i < n; ++i) { b[i] = (a_real)(i % 2 ? -2 * (i + 1) : (i + 1)); }
        if (n > 5)
        {
            /* larger orders: a right-hand side with a small integer solution, so that the solution stays exactly representable */
            for (int i = 0; i < n; ++i)
            {
                b[i] = 0;
                for (int j = 0; j < n; ++j) { b[i] += A[i * n + j] * (a_real)((j % 3) - 1 + (j == 0)); }
            }
        }
        memcpy(W, A, sizeof(a_real) * (size_t)nn);
        by_kind[kind]++;
        FILE *f = out();
        fprintf(f, "{\"kind\":%d,\"n\":%d,\"aux\":%d,\"A\":", kind, n, aux);
        { double dA[160]; for (int i = 0; i < nn; ++i) { dA[i] = (double)A[i]; } put_dyadics(f, dA, nn); }
        put_m(f, "b", b, n);
        a_real xs[16];
        int xs_ok = 1;
        if (kind <= 2)
        {
            a_uint p[16];
            int sign = 7;
            int rc = a_real_plu((a_uint)n, W, p, &sign);
            fprintf(f, ",\"rc\":%d", rc);
            if (rc == 0)
            {
                a_real_plu_L((a_uint)n, W, L);
                a_real_plu_U((a_uint)n, W, U);
                a_real_plu_P((a_uint)n, p, P);
                a_real_plu_P_((a_uint)n, p, P2);
                a_real_plu_solve((a_uint)n, W, p, b, x);
                a_real_plu_inv((a_uint)n, W, p, tmp, I1);
                a_real_plu_inv_((a_uint)n, W, p, I2);
                a_real_plu_apply((a_uint)n, p, b, tmp);
                fprintf(f, ",\"sign\":%d,\"p\":[", sign);
                for (int i = 0; i < n; ++i) { fprintf(f, i ? ",%u" : "%u", p[i]); }
                fputs("]", f);
                put_m(f, "L", L, nn);
                put_m(f, "U", U, nn);
                put_m(f, "P", P, nn);
                put_m(f, "PT", P2, nn);
                put_m(f, "Pb", tmp, n);
                put_m(f, "x", x, n);
                put_m(f, "inv", I1, nn);
                put_m(f, "inv2", I2, nn);
                fputs(",\"det\":", f);
                put_dyadic(f, a_real_plu_det((a_uint)n, W, sign));
                fprintf(f, ",\"sgndet\":%d,\"lndet2\":", a_real_plu_sgndet((a_uint)n, W, sign));
                put_dyadic(f, a_real_plu_lndet((a_uint)n, W) / 0.69314718055994530942);
                fputs(",\"lnd\":", f); put_value(f, a_real_plu_lndet((a_uint)n, W) / 0.69314718055994530942);
                put_scaled(f, kind, n, A, b);
            }
        }
        else if (kind <= 4)
        {
            int rc = a_real_ldl((a_uint)n, W);
            fprintf(f, ",\"rc\":%d", rc);
            if (rc == 0)
            {
                a_real_ldl_L((a_uint)n, W, L);
                a_real_ldl_D((a_uint)n, W, d);
                memcpy(x, b, sizeof(a_real) * (size_t)n);
                a_real_ldl_solve((a_uint)n, W, x);
                {
                    /* the strided pair (a right-hand side stored as the last column of a matrix of decoys) */
                    a_real M[160];
                    int okd = 1;
                    for (int i = 0; i < nn; ++i) { M[i] = (a_real)(1000 + i); }
                    for (int r = 0; r < n; ++r) { M[r * n + n - 1] = b[r]; }
                    a_real_ldl_lower_((a_uint)n, W, M + n - 1);
                    a_real_ldl_upper_((a_uint)n, W, M + n - 1);
                    for (int i = 0; i < nn; ++i) { if (i % n != n - 1 && M[i] != (a_real)(1000 + i)) { okd = 0; } }
                    for (int r = 0; r < n; ++r) { xs[r] = M[r * n + n - 1]; }
                    xs_ok = okd;
                }
                a_real_ldl_inv((a_uint)n, W, tmp, I1);
                a_real_ldl_inv_((a_uint)n, W, I2);
                put_m(f, "L", L, nn);
                put_m(f, "D", d, n);
                put_m(f, "x", x, n);
                put_m(f, "xs", xs, n); fprintf(f, ",\"xs_ok\":%d", xs_ok);
                put_m(f, "inv", I1, nn);
                put_m(f, "inv2", I2, nn);
                fputs(",\"det\":", f);
                put_dyadic(f, a_real_ldl_det((a_uint)n, W));
                fprintf(f, ",\"sgndet\":%d,\"lndet2\":", a_real_ldl_sgndet((a_uint)n, W));
                put_dyadic(f, a_real_ldl_lndet((a_uint)n, W) / 0.69314718055994530942);
                fputs(",\"lnd\":", f); put_value(f, a_real_ldl_lndet((a_uint)n, W) / 0.69314718055994530942);
                put_scaled(f, kind, n, A, b);
            }
        }
        else
        {
            int rc = a_real_llt((a_uint)n, W);
            fprintf(f, ",\"rc\":%d", rc);
            if (rc == 0)
            {
                a_real_llt_L((a_uint)n, W, L);
                memcpy(x, b, sizeof(a_real) * (size_t)n);
                a_real_llt_solve((a_uint)n, W, x);
                {
                    /* the strided pair (a right-hand side stored as the last column of a matrix of decoys) */
                    a_real M[160];
                    int okd = 1;
                    for (int i = 0; i < nn; ++i) { M[i] = (a_real)(1000 + i); }
                    for (int r = 0; r < n; ++r) { M[r * n + n - 1] = b[r]; }
                    a_real_llt_lower_((a_uint)n, W, M + n - 1);
                    a_real_llt_upper_((a_uint)n, W, M + n - 1);
                    for (int i = 0; i < nn; ++i) { if (i % n != n - 1 && M[i] != (a_real)(1000 + i)) { okd = 0; } }
                    for (int r = 0; r < n; ++r) { xs[r] = M[r * n + n - 1]; }
                    xs_ok = okd;
                }
                a_real_llt_inv((a_uint)n, W, tmp, I1);
                a_real_llt_inv_((a_uint)n, W, I2);
                put_m(f, "L", L, nn);
                put_m(f, "x", x, n);
                put_m(f, "xs", xs, n); fprintf(f, ",\"xs_ok\":%d", xs_ok);
                put_m(f, "inv", I1, nn);
                put_m(f, "inv2", I2, nn);
                fputs(",\"det\":", f);
                put_dyadic(f, a_real_llt_det((a_uint)n, W));
                fputs(",\"lndet2\":", f);
                put_dyadic(f, a_real_llt_lndet((a_uint)n, W) / 0.69314718055994530942);
                fputs(",\"lnd\":", f); put_value(f, a_real_llt_lndet((a_uint)n, W) / 0.69314718055994530942);
                put_scaled(f, kind, n, A, b);
            }
        }
        fputs("}\n", f);
        free(W); free(L); free(U); free(P); free(P2); free(I1); free(I2); free(b); free(x); free(tmp); free(d);
    }
    for (int i = 0; i < nb; ++i) { fclose(fo[i]); }
    printf("SUMMARY {\"events\":%ld,\"duplicates_skipped\":%ld,\"plu\":%ld,\"plu_singular\":%ld,\"ldl\":%ld,\"ldl_singular\":%ld,\"llt\":%ld,\"llt_not_pd\":%ld}\n", n_events, n_dups,
           by_kind[1], by_kind[2], by_kind[3], by_kind[4], by_kind[5], by_kind[6]);
    return 0;
}
