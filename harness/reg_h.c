/* Harness for the regression extension (specs/ext/Regress*.tla).  Input: RegressMC output
 * 1414141 [n, x.., y..] (simple) and 1515151 [c1, c2, b, u11, u12, u21, u22, y1, y2] (linear). */
#include <stdio.h>
#include <stdlib.h>
#include <string.h>
#include "a/regress_simple.h"
#include "a/regress_linear.h"
#include "a/math.h"
#include "num.h"

static int parse_ints(char const *s, long *o, int max)
{
    int n = 0;
    while (*s && n < max)
    {
        if ((*s >= '0' && *s <= '9') || (*s == '-' && s[1] >= '0' && s[1] <= '9')) { char *e; o[n++] = strtol(s, &e, 10); s = e; }
        else { ++s; }
    }
    return n;
}
static void put3(FILE *f, char const *name, a_regress_linear const *m)
{
    fprintf(f, ",\"%s\":[", name);
    put_value(f, (double)m->coef_p[0]); fputc(',', f); put_value(f, (double)m->coef_p[1]); fputc(',', f); put_value(f, (double)m->bias);
    fputc(']', f);
}

int main(int argc, char **argv)
{
    if (argc < 3) { return 2; }
    FILE *fi = fopen(argv[1], "r"), *f = fopen(argv[2], "w");
    if (!fi || !f) { return 3; }
    static char line[4096];
    long v[64], n_events = 0;
    while (fgets(line, sizeof(line), fi))
    {
        int simple = strstr(line, "1414141") != NULL, linear = strstr(line, "1515151") != NULL;
        if (!simple && !linear) { continue; }
        int cnt = parse_ints(line, v, 64);
        if (simple)
        {
            int n = (int)v[1];
            if (cnt != 2 + 2 * n) { fprintf(stderr, "bad simple line\n"); return 3; }
            a_real *x = (a_real *)malloc(sizeof(a_real) * (size_t)n), *y = (a_real *)malloc(sizeof(a_real) * (size_t)n);
            for (int i = 0; i < n; ++i) { x[i] = (a_real)v[2 + i]; y[i] = (a_real)v[2 + n + i]; }
            a_real xm = a_real_mean((a_size)n, x), ym = a_real_mean((a_size)n, y);
            a_regress_simple r[4];
            for (int i = 0; i < 4; ++i) { a_regress_simple_init(&r[i], 77, -55); }
            a_regress_simple_ols(&r[0], (a_size)n, x, y);
            a_regress_simple_olsx(&r[1], (a_size)n, x, y, xm);
            a_regress_simple_olsy(&r[2], (a_size)n, x, y, ym);
            a_regress_simple_ols_(&r[3], (a_size)n, x, y, xm, ym);
            fputs("{\"f\":\"simple\",\"x\":[", f);
            for (int i = 0; i < n; ++i) { fprintf(f, i ? ",%ld" : "%ld", v[2 + i]); }
            fputs("],\"y\":[", f);
            for (int i = 0; i < n; ++i) { fprintf(f, i ? ",%ld" : "%ld", v[2 + n + i]); }
            fputs("],\"fits\":[", f);
            for (int i = 0; i < 4; ++i)
            {
                fputs(i ? ",[" : "[", f); put_value(f, (double)r[i].coef); fputc(',', f); put_value(f, (double)r[i].bias); fputc(']', f);
            }
            a_real ev = a_regress_simple_eval(&r[0], 2);
            fputs("],\"eval2\":", f); put_value(f, (double)ev);
            fputs(",\"evar\":", f); put_value(f, r[0].coef != 0 ? (double)a_regress_simple_evar(&r[0], ev) : 0.0);
            a_regress_simple_zero(&r[0]);
            fprintf(f, ",\"zero\":[%d,%d]}\n", (int)r[0].coef, (int)r[0].bias);
            free(x); free(y);
        }
        else
        {
            if (cnt != 10) { fprintf(stderr, "bad linear line\n"); return 3; }
            a_real c[2], u[4], y[2], err[2], pdm[2];
            a_regress_linear m;
#define RESET() do { c[0] = (a_real)v[1]; c[1] = (a_real)v[2]; a_regress_linear_init(&m, c, 2, (a_real)v[3]); } while (0)
            for (int i = 0; i < 4; ++i) { u[i] = (a_real)v[4 + i]; }
            y[0] = (a_real)v[8]; y[1] = (a_real)v[9];
            RESET();
            fprintf(f, "{\"f\":\"linear\",\"m\":[%ld,%ld,%ld],\"u\":[%ld,%ld,%ld,%ld],\"y\":[%ld,%ld],\"eval\":", v[1], v[2], v[3], v[4], v[5], v[6], v[7], v[8], v[9]);
            put_value(f, (double)a_regress_linear_eval(&m, u));
            a_regress_linear_err(&m, 2, u, y, err);
            fputs(",\"err\":[", f); put_value(f, (double)err[0]); fputc(',', f); put_value(f, (double)err[1]);
            a_regress_linear_pdm(&m, 2, u, pdm, 1);
            fputs("],\"pdm\":[", f); put_value(f, (double)pdm[0]); fputc(',', f); put_value(f, (double)pdm[1]); fputc(']', f);
            RESET(); a_regress_linear_gd(&m, u, 3, (a_real)0.5); put3(f, "gd", &m);
            RESET(); a_regress_linear_sgd(&m, 2, u, y, (a_real)0.5); put3(f, "sgd", &m);
            RESET(); a_regress_linear_err(&m, 2, u, y, err); a_regress_linear_bgd(&m, 2, u, err, (a_real)0.5); put3(f, "bgd", &m);
            a_regress_linear_zero(&m);
            fprintf(f, ",\"zero\":[%d,%d,%d]}\n", (int)c[0], (int)c[1], (int)m.bias);
        }
        ++n_events;
    }
    fclose(f);
    printf("SUMMARY {\"events\":%ld}\n", n_events);
    return 0;
}
