/* Conformance harness for C15: a_poly_eval/evar/swap and a_trajpoly3/5/7.  Input: PolyMC output
 * (7070707 trajectory cases, 6060606 polynomial cases).  Emits ndjson for PolyTrace. */
#include <stdio.h>
#include <stdlib.h>
#include <string.h>
#include "a/poly.h"
#include "a/trajpoly3.h"
#include "a/trajpoly5.h"
#include "a/trajpoly7.h"
#include "num.h"

static long n_events;
static FILE *fo[64];
static int nb;
static FILE *out(void) { return fo[(n_events++ / 64) % nb]; }
static int parse_ints(char const *s, long *o, int max)
{
    int n = 0;
    while (*s && n < max)
    {
        if ((*s >= '0' && *s <= '9') || (*s == '-' && s[1] >= '0' && s[1] <= '9'))
        {
            char *e;
            o[n++] = strtol(s, &e, 10);
            s = e;
        }
        else { ++s; }
    }
    return n;
}
static double dur(long code) { return code < 0 ? 1.0 / (double)(1 << (-code)) : (double)(1 << code); }

int main(int argc, char **argv)
{
    if (argc < 4) { fprintf(stderr, "usage: %s <tlc-output> <out-prefix> <batches>\n", argv[0]); return 2; }
    FILE *fi = fopen(argv[1], "r");
    if (!fi) { perror(argv[1]); return 3; }
    nb = atoi(argv[3]);
    if (nb > 64) { nb = 64; }
    char name[512];
    for (int i = 0; i < nb; ++i)
    {
        snprintf(name, sizeof(name), "%s-%04d.ndjson", argv[2], i);
        fo[i] = fopen(name, "w");
        if (!fo[i]) { perror(name); return 3; }
    }
    static char line[1 << 14];
    long v[256];
    long ntraj = 0, npoly = 0;
    while (fgets(line, sizeof(line), fi))
    {
        int traj = strstr(line, "7070707") != NULL, poly = strstr(line, "6060606") != NULL;
        if (!traj && !poly) { continue; }
        int n = parse_ints(line, v, 256);
        int na = (int)v[1], nbv = (int)v[2];
        if (n != 3 + na + nbv) { fprintf(stderr, "bad line\n"); return 3; }
        long const *a = v + 3, *b = a + na;
        FILE *f = out();
        if (traj)
        {
            int deg = (int)a[0];
            double ts = dur(a[1]);
            double p0 = (double)b[0], p1 = (double)b[1], v0 = (double)b[2], v1 = (double)b[3], a0 = (double)b[4], a1 = (double)b[5], j0 = (double)b[6], j1 = (double)b[7];
            /* coefficient arrays of exactly the documented lengths (deg+1, deg, deg-1, deg-2) on the heap: one element too many
               written by an accessor aborts under ASan */
            double *c = (double *)calloc((size_t)deg + 1, sizeof(double)), *c1 = (double *)calloc((size_t)deg, sizeof(double)),
                   *c2 = (double *)calloc((size_t)deg - 1, sizeof(double)), *c3 = (double *)calloc((size_t)deg - 2, sizeof(double));
            a_trajpoly3 t3;
            a_trajpoly5 t5;
            a_trajpoly7 t7;
            if (deg == 3) { a_trajpoly3_gen(&t3, ts, p0, p1, v0, v1); a_trajpoly3_c0(&t3, c); a_trajpoly3_c1(&t3, c1); a_trajpoly3_c2(&t3, c2); }
            else if (deg == 5) { a_trajpoly5_gen(&t5, ts, p0, p1, v0, v1, a0, a1); a_trajpoly5_c0(&t5, c); a_trajpoly5_c1(&t5, c1); a_trajpoly5_c2(&t5, c2); }
            else { a_trajpoly7_gen(&t7, ts, p0, p1, v0, v1, a0, a1, j0, j1); a_trajpoly7_c0(&t7, c); a_trajpoly7_c1(&t7, c1); a_trajpoly7_c2(&t7, c2); a_trajpoly7_c3(&t7, c3); }
            fprintf(f, "{\"f\":\"traj\",\"deg\":%d,\"ts\":", deg);
            put_dyadic(f, ts);
            fprintf(f, ",\"bc\":{\"p0\":%ld,\"p1\":%ld,\"v0\":%ld,\"v1\":%ld,\"a0\":%ld,\"a1\":%ld,\"j0\":%ld,\"j1\":%ld},\"c\":", b[0], b[1], b[2], b[3], b[4], b[5], b[6], b[7]);
            put_dyadics(f, c, deg + 1);
            fputs(",\"c1\":", f);
            put_dyadics(f, c1, deg);
            fputs(",\"c2\":", f);
            put_dyadics(f, c2, deg - 1);
            fputs(",\"c3\":", f);
            put_dyadics(f, c3, deg == 7 ? deg - 2 : 0);
            fputs(",\"samples\":[", f);
            double times[4] = {0, ts, ts / 2, -0.5};
            for (int i = 0; i < 4; ++i)
            {
                double t = times[i], pos, vel, acc, jer = 0;
                if (deg == 3) { pos = a_trajpoly3_pos(&t3, t); vel = a_trajpoly3_vel(&t3, t); acc = a_trajpoly3_acc(&t3, t); }
                else if (deg == 5) { pos = a_trajpoly5_pos(&t5, t); vel = a_trajpoly5_vel(&t5, t); acc = a_trajpoly5_acc(&t5, t); }
                else { pos = a_trajpoly7_pos(&t7, t); vel = a_trajpoly7_vel(&t7, t); acc = a_trajpoly7_acc(&t7, t); jer = a_trajpoly7_jer(&t7, t); }
                fputs(i ? ",{\"t\":" : "{\"t\":", f);
                put_dyadic(f, t);
                fputs(",\"pos\":", f);
                put_dyadic(f, pos);
                fputs(",\"vel\":", f);
                put_dyadic(f, vel);
                fputs(",\"acc\":", f);
                put_dyadic(f, acc);
                fputs(",\"jer\":", f);
                put_dyadic(f, jer);
                fputc('}', f);
            }
            fputs("]}\n", f);
            free(c); free(c1); free(c2); free(c3);
            ++ntraj;
        }
        else
        {
            double c[16], s1[16], s2[16];
            for (int i = 0; i < na; ++i) { c[i] = (double)a[i]; }
            double x = (double)b[0] / 2.0; /* evaluation points are halves */
            double ev = a_poly_eval(c, (a_size)na, x), er = a_poly_evar(c, (a_size)na, x);
            memcpy(s1, c, sizeof(double) * (size_t)na);
            a_poly_swap(s1, (a_size)na);
            memcpy(s2, s1, sizeof(double) * (size_t)na);
            a_poly_swap(s2, (a_size)na);
            fputs("{\"f\":\"poly\",\"c\":[", f);
            for (int i = 0; i < na; ++i) { fprintf(f, i ? ",%ld" : "%ld", a[i]); }
            fputs("],\"x\":", f);
            put_dyadic(f, x);
            fputs(",\"eval\":", f);
            put_dyadic(f, ev);
            fputs(",\"evar\":", f);
            put_dyadic(f, er);
            fputs(",\"swapped\":", f);
            put_dyadics(f, s1, na);
            fputs(",\"swapped2\":", f);
            put_dyadics(f, s2, na);
            fputs("}\n", f);
            ++npoly;
        }
    }
    for (int i = 0; i < nb; ++i) { fclose(fo[i]); }
    printf("SUMMARY {\"events\":%ld,\"traj\":%ld,\"poly\":%ld}\n", n_events, ntraj, npoly);
    return 0;
}
