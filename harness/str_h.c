/* Conformance harness for a_str (C06): replays StrMC transitions (marker 3333333) into the real
 * code, compares natively, logs ndjson for StrTrace.  The pre-state is materialised with an
 * allocation of exactly `mem` bytes; bytes behind the content are poisoned with 0xEE so that a
 * terminator has to be written by the call under test. */
#include <stdio.h>
#include <stdlib.h>
#include <string.h>
#include <stdint.h>
#include <signal.h>
#include <unistd.h>
#include "a/str.h"
#include "a/utf.h"
#include "fault.h"

#define MAXL 512
#define HUGE_M 1000000
static long n_edges, n_events, n_mismatch, n_drift, n_nontrivial, skip_until;
static long op_cnt[40];
static int mismatch_printed;
static char cur_desc[512];
void __sanitizer_set_death_callback(void (*cb)(void));
static void on_death(void)
{
    fprintf(stdout, "CRASH {\"edge\":%ld,%s}\n", n_edges, cur_desc);
    fflush(stdout);
}
static void on_abort(int sig)
{
    (void)sig;
    on_death(); /* UBSan (abort_on_error=1) raises SIGABRT without running the death callback */
    _exit(97);
}
static char const *opn[] = {"?", "catc", "catc_", "catn", "catn_", "cats", "cats_", "cat", "cat_", "catf", "utf_catc", "getc", "getc_", "getn", "getn_",
                            "rtrim", "rtrim_", "ltrim", "ltrim_", "trim", "trim_", "setn", "setn_", "setm", "setm_", "exit", "cmpn", "cmps", "cmp", "utf_len", "acc"};
static int parse_ints(char const *s, int *out, int max)
{
    int n = 0;
    while (*s && n < max)
    {
        if ((*s >= '0' && *s <= '9') || (*s == '-' && s[1] >= '0' && s[1] <= '9'))
        {
            char *e;
            out[n++] = (int)strtol(s, &e, 10);
            s = e;
        }
        else { ++s; }
    }
    return n;
}
static void put_bytes(FILE *f, unsigned char const *a, int n)
{
    fputc('[', f);
    for (int i = 0; i < n; ++i) { fprintf(f, i ? ",%d" : "%d", a[i]); }
    fputc(']', f);
}
static void put_ints(FILE *f, int const *a, int n)
{
    fputc('[', f);
    for (int i = 0; i < n; ++i) { fprintf(f, i ? ",%d" : "%d", a[i]); }
    fputc(']', f);
}
static void mk(a_str *o, int const *s, int n, int mem)
{
    int counting = f_counting; /* the harness's own allocation is not a request of the library */
    f_counting = 0;
    o->ptr_ = mem ? (char *)a_alloc(NULL, (a_size)mem) : NULL;
    f_counting = counting;
    o->num_ = (a_size)n;
    o->mem_ = (a_size)mem;
    if (mem) { memset(o->ptr_, 0xEE, (size_t)mem); }
    for (int i = 0; i < n; ++i) { o->ptr_[i] = (char)s[i]; }
}
static int sgn(int x) { return (x > 0) - (x < 0); }
static void mismatch(char const *what, int op, int a1)
{
    ++n_mismatch;
    if (mismatch_printed++ < 12) { printf("MISMATCH {\"kind\":\"str\",\"what\":\"%s\",%s}\n", what, cur_desc); }
}
static int call_catf(a_str *o, int f)
{
    switch (f)
    {
    case 1: return a_str_catf(o, "%s", "");
    case 2: return a_str_catf(o, "x=%d", 7);
    case 3: return a_str_catf(o, "%s", "abcde");
    case 4: return a_str_catf(o, "%d", -1234567);
    case 5: return a_str_catf(o, "%s", "123456789012");
    case 6: return a_str_catf(o, "%s", "aaaaaaa");
    case 7: return a_str_catf(o, "%s", "aaaaaaaa");
    default: return a_str_catf(o, "%.*s", 5, "aaaaaaaaa");
    }
}

static long last_reqs, n_fault_runs, n_fault_edges;
static FILE *fault_out;

static int fault_noretry;
static int fault_edge(int const *v, long single, long from)
{
    int op = v[1], a1 = v[2], mem = v[5], n = v[7], n2 = v[8], nblk = v[9];
    int const *s = v + 11, *s2 = s + n, *blk = s2 + n2;
    a_str o, other;
    int base_id = f_nextid;
    long badfree0 = f_badfree;
    mk(&o, s, n, mem);
    int pre_after = -1;
    if (n < mem) { o.ptr_[n] = 0; pre_after = 0; } /* a terminated string: a failed call must leave it terminated */
    unsigned char b[MAXL + 8];
    for (int i = 0; i < nblk; ++i) { b[i] = (unsigned char)blk[i]; }
    b[nblk] = 0;
    unsigned char got[MAXL + 8];
    int ngot = 0, ret = 0;
    char *ex = NULL;
    a_size k = a1 == HUGE_M ? (a_size)-1 : (a_size)a1;
    FILE *f = fault_out;
    fprintf(f, "{\"fam\":\"str\",\"op\":\"%s\",\"a1\":%d,\"a2\":0,\"plan\":\"%s\",\"k\":%ld,\"pre\":{\"mem\":%d,\"siz\":1,\"after\":%d,\"seq\":", opn[op], a1,
            single ? "single" : "from", single ? single : from, mem, pre_after);
    put_ints(f, s, n);
    fputs("},\"live0\":[", f);
    {
        int first = 1;
        for (int i = 0; i < f_nlive; ++i)
        {
            if (f_live[i].id > base_id) { fprintf(f, first ? "%d" : ",%d", f_live[i].id); first = 0; }
        }
    }
    fputs("]", f);
    f_begin(single, from);
#include "str_ops.inc"
    f_end();
    int failed = (int)f_failed, ret_fail;
    switch (op)
    {
    case 1: case 2: ret_fail = ret == ~0; break;
    case 9: ret_fail = ret <= 0; break; /* a_str_catv documents 0 on failure */
    case 25: ret_fail = ex == NULL; break;
    default: ret_fail = ret == 4; break;
    }
    fprintf(f, ",\"failed\":%d,\"reqs\":", failed);
    f_put_log(f);
    int pnum = (int)(o.num_ > 100000 ? 100000 : o.num_), pmem = (int)(o.mem_ > 100000 ? 100000 : o.mem_);
    int readable = pnum <= pmem && pnum <= MAXL;
    unsigned char pb[MAXL + 8];
    for (int i = 0; readable && i < pnum; ++i) { pb[i] = (unsigned char)o.ptr_[i]; }
    int after = (readable && pnum < pmem) ? (unsigned char)o.ptr_[pnum] : -1;
    fprintf(f, ",\"fail\":{\"ret_fail\":%d,\"num\":%d,\"mem\":%d,\"siz\":1,\"after\":%d,\"seq\":", ret_fail, readable ? pnum : -1, pmem, after);
    put_bytes(f, pb, readable ? pnum : 0);
    if (fault_noretry)
    {
        /* the string is destroyed right after the failed call */
        fputs("},\"noretry\":1,\"retry\":{\"ok\":0", f);
        goto destroy_it;
    }
    /* retry with a healthy allocator */
    ret = 0; ex = NULL; ngot = 0;
    f_begin(0, 0);
#include "str_ops.inc"
    f_end();
    int retry_ok;
    switch (op)
    {
    case 1: case 2: retry_ok = ret != ~0; break;
    case 9: retry_ok = ret >= 0; break;
    case 25: retry_ok = ex != NULL; break;
    default: retry_ok = ret == 0; break;
    }
    pnum = (int)(o.num_ > 100000 ? 100000 : o.num_); pmem = (int)(o.mem_ > 100000 ? 100000 : o.mem_);
    readable = pnum <= pmem && pnum <= MAXL;
    for (int i = 0; readable && i < pnum; ++i) { pb[i] = (unsigned char)o.ptr_[i]; }
    fprintf(f, "},\"retry\":{\"ok\":%d,\"num\":%d,\"mem\":%d,\"seq\":", retry_ok, readable ? pnum : -1, pmem);
    put_bytes(f, pb, readable ? pnum : 0);
destroy_it:
    fputs("},\"expected\":", f);
    put_ints(f, s2, n2);
    a_str_dtor(&o);
    fputs(",\"leak\":[", f);
    int first = 1;
    for (int i = 0; i < f_nlive; ++i)
    {
        if (f_live[i].id > base_id) { fprintf(f, first ? "%d" : ",%d", f_live[i].id); first = 0; }
    }
    fprintf(f, "],\"badfree\":%ld}\n", f_badfree - badfree0);
    (void)k; (void)got; (void)ngot; (void)other;
    ++n_fault_runs;
    return 0;
}

static int run_edge(int const *v, int nv, FILE *fo)
{
    int op = v[1], a1 = v[2], eret = v[3], term = v[4], mem = v[5], mem2 = v[6], n = v[7], n2 = v[8], nblk = v[9], nout = v[10];
    int const *s = v + 11, *s2 = s + n, *blk = s2 + n2, *out = blk + nblk;
    if (nv != 11 + n + n2 + nblk + nout || op < 1 || op > 30 || n > MAXL || n2 > MAXL) { fprintf(stderr, "bad str edge\n"); return 3; }
    snprintf(cur_desc, sizeof(cur_desc), "\"op\":\"%s\",\"a1\":%d,\"n\":%d,\"mem\":%d,\"nblk\":%d", opn[op], a1, n, mem, nblk);
    op_cnt[op]++;
    a_str o, other;
    mk(&o, s, n, mem);
    unsigned char b[MAXL + 8];
    for (int i = 0; i < nblk; ++i) { b[i] = (unsigned char)blk[i]; }
    b[nblk] = 0;
    unsigned char got[MAXL + 8];
    int ngot = 0, ret = 0;
    char *ex = NULL;
    a_size k = a1 == HUGE_M ? (a_size)-1 : (a_size)a1;
    f_begin(0, 0);
#include "str_ops.inc"
    f_end();
    last_reqs = f_req;
    if ((op == 21 || op == 22) && ret == 0 && (int)o.num_ > n && o.num_ <= o.mem_)
    {
        for (int i = n; i < (int)o.num_; ++i) { o.ptr_[i] = 'z'; }
    }
    int pnum = (int)(o.num_ > 100000 ? 100000 : o.num_), pmem = (int)(o.mem_ > 100000 ? 100000 : o.mem_);
    int readable = pnum <= pmem && pnum <= MAXL;
    unsigned char pb[MAXL + 8];
    for (int i = 0; readable && i < pnum; ++i) { pb[i] = (unsigned char)o.ptr_[i]; }
    int after = (readable && pnum < pmem) ? (unsigned char)o.ptr_[pnum] : -1;
    int lognum = readable ? pnum : 0;
    /* native comparison */
    int ok = 1;
    if (pnum > pmem) { mismatch("len>mem", op, a1); ok = 0; }
    else if (pnum != n2) { mismatch("length", op, a1); ok = 0; }
    else
    {
        for (int i = 0; ok && i < pnum; ++i) { ok = pb[i] == (unsigned char)s2[i]; }
        if (!ok) { mismatch("content", op, a1); }
    }
    /* pops return the byte as a plain `char` converted to int: its signedness is the platform's, so
       bytes >= 0x80 are compared modulo 256 (the property does not fix the representation) */
    if (ok && (op == 11 || op == 12) && n > 0) { if (((ret % 256) + 256) % 256 != eret) { mismatch("return-value", op, a1); ok = 0; } }
    else if (ok && ret != eret) { mismatch("return-value", op, a1); ok = 0; }
    if (ok && term && after != 0) { mismatch("not-terminated", op, a1); ok = 0; }
    if (ok && (op == 13 || op == 14 || op == 29 || op == 30 || (op == 25 && ex)))
    {
        if (ngot != nout) { mismatch(op == 25 ? "handed-over-string" : "popped-bytes", op, a1); ok = 0; }
        for (int i = 0; ok && i < nout; ++i)
        {
            if (got[i] != (unsigned char)out[i]) { mismatch(op == 25 ? "handed-over-string" : "popped-bytes", op, a1); ok = 0; }
        }
    }
    if (ok && pmem != mem2) { ++n_drift; }
    n_nontrivial += (pmem != mem) || term || op >= 15;
    fprintf(fo, "{\"op\":\"%s\",\"a1\":%d,\"blk\":", opn[op], a1);
    put_ints(fo, blk, nblk);
    fprintf(fo, ",\"pre\":{\"mem\":%d,\"s\":", mem);
    put_ints(fo, s, n);
    fprintf(fo, "},\"post\":{\"mem\":%d,\"after\":%d,\"s\":", pmem, after);
    put_bytes(fo, pb, lognum);
    fprintf(fo, "},\"ret\":%d,\"out\":", ret);
    put_bytes(fo, got, ngot > 0 ? ngot : 0);
    fprintf(fo, ",\"outok\":%d}\n", ngot >= 0);
    ++n_events;
    a_str_dtor(&o);
    return 0;
}

/* long random histories on ONE live string object: every step is logged with the content before and after and judged
 * by itself (StrTrace); lengths far beyond the exhaustively explored ones */
static uint64_t srnd_s;
static unsigned srnd(void)
{
    srnd_s ^= srnd_s << 13; srnd_s ^= srnd_s >> 7; srnd_s ^= srnd_s << 17;
    return (unsigned)(srnd_s >> 24);
}
static int do_str_random(unsigned long seed, int nhist, int nops, char const *prefix, int nb)
{
    FILE *fos[64];
    char name[512];
    if (nb > 64) { nb = 64; }
    for (int i = 0; i < nb; ++i)
    {
        snprintf(name, sizeof(name), "%s-%04d.ndjson", prefix, i);
        fos[i] = fopen(name, "w");
        if (!fos[i]) { perror(name); return 3; }
    }
    static int const ops[] = {1, 1, 2, 3, 3, 4, 5, 5, 6, 7, 7, 8, 9, 9, 10, 10, 11, 12, 13, 14, 15, 16, 17, 18, 19, 20, 21, 22, 23, 26, 27, 28, 29, 30};
    static int const cps[] = {65, 233, 8364, 128512, 1114111, 2097152, 67108864, 2147483647};
    static unsigned char const alpha[] = {97, 98, 32, 9, 0, 200, 0xC3, 0xA9, 45, 122};
    srnd_s = 0x9E3779B97F4A7C15ull ^ (seed * 1000003ull);
    /* capacity sweep: every request size from several starting capacities (with a short content that must survive) */
    {
        static int const start[] = {0, 8, 128, 300, 1000};
        for (int si = 0; si < 5; ++si)
        {
            for (int k = 1; k <= 1600; k += (k < 700 ? 1 : 7))
            {
                a_str o;
                a_str_ctor(&o);
                if (start[si]) { a_str_setm(&o, (a_size)start[si]); a_str_cats(&o, "ab"); }
                int n = (int)o.num_, mem = (int)o.mem_;
                int ret = a_str_setm(&o, (a_size)k);
                FILE *fo = fos[(n_events / 256) % nb];
                int pre[4] = {97, 98, 0, 0};
                fprintf(fo, "{\"op\":\"setm\",\"a1\":%d,\"blk\":[],\"pre\":{\"mem\":%d,\"s\":", k, mem);
                put_ints(fo, pre, n);
                fprintf(fo, "},\"post\":{\"mem\":%d,\"after\":%d,\"s\":", (int)o.mem_, (o.num_ < o.mem_) ? (unsigned char)o.ptr_[o.num_] : -1);
                put_bytes(fo, (unsigned char const *)o.ptr_, (int)o.num_);
                fprintf(fo, "},\"ret\":%d,\"out\":[],\"outok\":1}\n", ret);
                ++n_events; ++n_edges;
                a_str_dtor(&o);
            }
        }
    }
    /* pop sweep: long contents, pops that leave 0, a quarter, half (+-1) and all but one byte of the capacity */
    {
        static int const lens[] = {15, 16, 100, 255, 256, 257, 263, 300, 511, 512, 527, 600, 1000, 1039};
        static unsigned char src[1100];
        static int pre[1100];
        static unsigned char got2[1100];
        for (int i = 0; i < 1100; ++i) { src[i] = (unsigned char)(33 + i % 90); }
        for (int li = 0; li < 14; ++li)
        {
            for (int which = 0; which < 2; ++which)
            {
                for (int ti = 0; ti < 8; ++ti)
                {
                    a_str o;
                    a_str_ctor(&o);
                    int L = lens[li];
                    if (a_str_catn(&o, src, (a_size)L) != 0) { a_str_dtor(&o); continue; }
                    int mem = (int)o.mem_;
                    int r = ti == 0 ? 0 : ti == 1 ? mem / 4 : ti == 2 ? mem / 2 - 1 : ti == 3 ? mem / 2 : ti == 4 ? mem / 2 + 1 : ti == 5 ? L - 1 : ti == 6 ? mem / 8 : L / 2;
                    if (r < 0) { r = 0; }
                    if (r > L) { r = L; }
                    int k = L - r;
                    for (int i = 0; i < L; ++i) { pre[i] = src[i]; }
                    memset(got2, 0, sizeof(got2));
                    snprintf(cur_desc, sizeof(cur_desc), "\"op\":\"%s\",\"a1\":%d,\"n\":%d,\"mem\":%d,\"popsweep\":1", which ? "getn_" : "getn", k, L, mem);
                    int ret = (int)(which ? a_str_getn_(&o, got2, (a_size)k) : a_str_getn(&o, got2, (a_size)k));
                    int pnum = (int)o.num_, pmem = (int)o.mem_;
                    int readable = pnum <= pmem && pnum <= 1100;
                    FILE *fo = fos[(n_events / 256) % nb];
                    fprintf(fo, "{\"op\":\"%s\",\"a1\":%d,\"blk\":[],\"pre\":{\"mem\":%d,\"s\":", which ? "getn_" : "getn", k, mem);
                    put_ints(fo, pre, L);
                    fprintf(fo, "},\"post\":{\"mem\":%d,\"after\":%d,\"s\":", pmem, (readable && pnum < pmem) ? (unsigned char)o.ptr_[pnum] : -1);
                    put_bytes(fo, (unsigned char const *)o.ptr_, readable ? pnum : 0);
                    fprintf(fo, "},\"ret\":%d,\"out\":", ret);
                    put_bytes(fo, got2, ret > 0 && ret <= 1100 ? ret : 0);
                    fprintf(fo, ",\"outok\":1}\n");
                    ++n_events; ++n_edges;
                    /* the object stays usable: one more terminated append after the pop, judged like any other step */
                    if (readable)
                    {
                        for (int q = 0; q < pnum; ++q) { pre[q] = (unsigned char)o.ptr_[q]; }
                        snprintf(cur_desc, sizeof(cur_desc), "\"op\":\"catc\",\"n\":%d,\"mem\":%d,\"popsweep\":2", pnum, pmem);
                        int rc2 = a_str_catc(&o, 'Q');
                        int qn = (int)o.num_, qm = (int)o.mem_, rd = qn <= qm && qn <= 1100;
                        fprintf(fo, "{\"op\":\"catc\",\"a1\":0,\"blk\":[81],\"pre\":{\"mem\":%d,\"s\":", pmem);
                        put_ints(fo, pre, pnum);
                        fprintf(fo, "},\"post\":{\"mem\":%d,\"after\":%d,\"s\":", qm, (rd && qn < qm) ? (unsigned char)o.ptr_[qn] : -1);
                        put_bytes(fo, (unsigned char const *)o.ptr_, rd ? qn : 0);
                        fprintf(fo, "},\"ret\":%d,\"out\":[],\"outok\":1}\n", rc2);
                        ++n_events; ++n_edges;
                    }
                    a_str_dtor(&o);
                }
            }
        }
    }
    for (int h = 0; h < nhist; ++h)
    {
        a_str o, other;
        a_str_ctor(&o);
        for (int t = 0; t < nops; ++t)
        {
            int n = (int)o.num_, mem = (int)o.mem_, op = ops[srnd() % (sizeof(ops) / sizeof(ops[0]))];
            if (n > MAXL - 40 && op <= 10) { op = 13; }
            int blk[8], nblk = 1 + (int)(srnd() % 4), a1 = 0;
            for (int i = 0; i < nblk; ++i) { blk[i] = alpha[srnd() % sizeof(alpha)]; }
            if (op == 1 || op == 2) { nblk = 1; }
            if (op == 9) { a1 = 1 + (int)(srnd() % 8); nblk = 0; }
            if (op == 10) { a1 = cps[srnd() % 8]; nblk = 0; }
            if (op == 13 || op == 14) { a1 = srnd() % 6 == 0 ? HUGE_M : (int)(srnd() % 12); nblk = 0; }
            if (op >= 15 && op <= 20) { nblk = (int)(srnd() % 3); for (int i = 0; i < nblk; ++i) { blk[i] = alpha[srnd() % 4]; } }
            if (op == 21 || op == 22) { a1 = n - 3 + (int)(srnd() % 7); if (a1 < 0) { a1 = 0; } if (op == 22 && a1 > mem) { a1 = mem; } nblk = 0; }
            if (op == 23) { a1 = (int)(srnd() % (unsigned)(n + 20)); nblk = 0; }
            if (op == 29 && !mem) { op = 23; a1 = 8; nblk = 0; }
            if (op == 30) { if (!mem) { op = 23; a1 = 8; } else { a1 = (int)(srnd() % (unsigned)(2 * n + 12)) - n - 4; } nblk = 0; }
            if (op == 11 || op == 12) { nblk = 0; }
            /* record the state before */
            int pre[MAXL + 8];
            for (int i = 0; i < n; ++i) { pre[i] = (unsigned char)o.ptr_[i]; }
            /* bytes exposed by a growing setn are unspecified: the harness fills them below like run_edge does */
            snprintf(cur_desc, sizeof(cur_desc), "\"op\":\"%s\",\"a1\":%d,\"n\":%d,\"mem\":%d,\"nblk\":%d,\"random\":1", opn[op], a1, n, mem, nblk);
            unsigned char b[MAXL + 8], got[MAXL + 8];
            for (int i = 0; i < nblk; ++i) { b[i] = (unsigned char)blk[i]; }
            b[nblk] = 0;
            int ngot = 0, ret = 0;
            char *ex = NULL;
            a_size k = a1 == HUGE_M ? (a_size)-1 : (a_size)a1;
            (void)ex;
            f_begin(0, 0);
#include "str_ops.inc"
            f_end();
            if ((op == 21 || op == 22) && ret == 0 && (int)o.num_ > n && o.num_ <= o.mem_)
            {
                for (int i = n; i < (int)o.num_; ++i) { o.ptr_[i] = 'z'; }
            }
            int pnum = (int)o.num_, pmem = (int)o.mem_;
            int readable = pnum <= pmem && pnum <= MAXL;
            FILE *fo = fos[(n_events / 256) % nb];
            fprintf(fo, "{\"op\":\"%s\",\"a1\":%d,\"blk\":", opn[op], a1);
            put_ints(fo, blk, nblk);
            fprintf(fo, ",\"pre\":{\"mem\":%d,\"s\":", mem);
            put_ints(fo, pre, n);
            fprintf(fo, "},\"post\":{\"mem\":%d,\"after\":%d,\"s\":", pmem, (readable && pnum < pmem) ? (unsigned char)o.ptr_[pnum] : -1);
            put_bytes(fo, (unsigned char const *)o.ptr_, readable ? pnum : 0);
            fprintf(fo, "},\"ret\":%d,\"out\":", ret);
            put_bytes(fo, got, ngot > 0 ? ngot : 0);
            fprintf(fo, ",\"outok\":%d}\n", ngot >= 0);
            ++n_events;
            ++n_edges;
        }
        a_str_dtor(&o);
    }
    for (int i = 0; i < nb; ++i) { fclose(fos[i]); }
    printf("SUMMARY {\"edges\":%ld,\"events\":%ld}\n", n_edges, n_events);
    return 0;
}

int main(int argc, char **argv)
{
    if (argc >= 7 && !strcmp(argv[1], "random"))
    {
        __sanitizer_set_death_callback(on_death);
        signal(SIGABRT, on_abort);
        f_install();
    f_on_hang = on_death;
        return do_str_random(strtoul(argv[2], 0, 10), atoi(argv[3]), atoi(argv[4]), argv[5], atoi(argv[6]));
    }
    if (argc < 5 || strcmp(argv[1], "edges")) { fprintf(stderr, "usage: %s edges <tlc-output> <out-prefix> <batches> [skip]\n", argv[0]); return 2; }
    __sanitizer_set_death_callback(on_death);
    signal(SIGABRT, on_abort);
    f_install();
    f_on_hang = on_death;
    if (argc > 6)
    {
        fault_out = fopen(argv[6], skip_until ? "a" : "w");
        if (!fault_out) { perror(argv[6]); return 3; }
    }
    if (argc > 5) { skip_until = atol(argv[5]); }
    FILE *fi = fopen(argv[2], "r");
    if (!fi) { perror(argv[2]); return 3; }
    int nb = atoi(argv[4]);
    if (nb > 64) { nb = 64; }
    FILE *fo[64];
    char name[512];
    for (int i = 0; i < nb; ++i)
    {
        snprintf(name, sizeof(name), "%s-%04d.ndjson", argv[3], i);
        fo[i] = fopen(name, skip_until ? "a" : "w");
        if (!fo[i]) { perror(name); return 3; }
    }
    static char line[1 << 16];
    static int v[4096];
    while (fgets(line, sizeof(line), fi))
    {
        if (!strstr(line, "3333333")) { continue; }
        int n = parse_ints(line, v, 4096);
        ++n_edges;
        if (n_edges <= skip_until) { continue; }
        int rc = run_edge(v, n, fo[(n_edges / 1024) % nb]);
        if (rc) { return rc; }
        if (fault_out && last_reqs > 0)
        {
            long R = last_reqs;
            ++n_fault_edges;
            for (long k = 1; k <= R; ++k)
            {
                if ((rc = fault_edge(v, k, 0)) != 0) { return rc; }
                if (k < R && (rc = fault_edge(v, 0, k)) != 0) { return rc; }
            }
            fault_noretry = 1;
            if ((rc = fault_edge(v, 0, 1)) != 0) { return rc; }
            fault_noretry = 0;
        }
    }
    for (int i = 0; i < nb; ++i) { fclose(fo[i]); }
    if (fault_out) { fclose(fault_out); }
    printf("FAULTS {\"edges\":%ld,\"runs\":%ld}\n", n_fault_edges, n_fault_runs);
    printf("SUMMARY {\"edges\":%ld,\"events\":%ld,\"mismatch\":%ld,\"drift\":%ld,\"nontrivial\":%ld,\"ops\":[", n_edges, n_events, n_mismatch, n_drift, n_nontrivial);
    for (int i = 0; i < 31; ++i) { printf(i ? ",%ld" : "%ld", op_cnt[i]); }
    printf("]}\n");
    return 0;
}
