"""Shared machinery for the liba TLA+ model-based checks.

Everything here is plumbing: run TLC / SANY / Apalache under a timeout, parse
TLC's own counters, build a conformance harness from /repo's working tree with
sanitizers, split / validate ndjson traces in parallel, write evidence, apply
the known-findings rule.  No oracle lives here; oracles are in specs/*.tla.
"""
import os, sys, re, json, time, shutil, subprocess, tempfile, hashlib, glob
from concurrent.futures import ThreadPoolExecutor

VERIF = os.path.dirname(os.path.dirname(os.path.abspath(__file__)))
REPO = os.environ.get("VERIF_REPO", "/repo")
SPECS = os.path.join(VERIF, "specs")
HARNESS = os.path.join(VERIF, "harness")
JAR = "/opt/veriftools/tla/tla2tools.jar:/opt/veriftools/tla/CommunityModules-deps.jar"
NCPU = os.cpu_count() or 4

EXIT_OK, EXIT_VIOLATION, EXIT_BROKEN = 0, 1, 2


class Broken(Exception):
    """The check itself failed (spec error, build error, timeout) - never a violation."""


def log(*a):
    print(*a, file=sys.stderr, flush=True)


# --------------------------------------------------------------------------
# scratch space (outside /repo and /verif; removed at the end of a run)
ALL_SCRATCH = []


class Scratch:
    def __init__(self, tag):
        ALL_SCRATCH.append(self)
        base = os.environ.get("VERIF_TMP") or tempfile.gettempdir()
        self.dir = tempfile.mkdtemp(prefix="liba-verif-%s-" % tag, dir=base)

    def path(self, *p):
        return os.path.join(self.dir, *p)

    def sub(self, name):
        d = self.path(name)
        os.makedirs(d, exist_ok=True)
        return d

    def cleanup(self):
        if os.environ.get("VERIF_KEEP"):
            log("scratch kept:", self.dir)
        else:
            shutil.rmtree(self.dir, ignore_errors=True)


# --------------------------------------------------------------------------
# TLC
class TlcResult:
    def __init__(self):
        self.rc = None; self.out = ""; self.generated = 0; self.distinct = 0
        self.depth = 0; self.violation = None; self.error = None
        self.coverage = {}; self.wall = 0.0; self.printed = []

    def ok(self):
        return self.rc == 0 and not self.violation and not self.error


_RE_STATES = re.compile(r"(\d+) states generated, (\d+) distinct states found")
_RE_DEPTH = re.compile(r"depth of the complete state graph search is (\d+)")
_RE_COV = re.compile(r"^<(\w+) line (\d+), col \d+ to line \d+, col \d+ of module (\w+)>: (\d+):(\d+)", re.M)


def tlc(spec, cfg, scratch, workers=None, env=None, timeout=600, heap="6g",
        simulate=None, depth=None, coverage=False, seed=None, deadlock=True,
        dfs_queue=False, capture_prefix=None, stdout_path=None, tag=None):
    """Run TLC on <spec>.tla with <cfg>; returns TlcResult.

    capture_prefix: lines containing this marker (PrintT output) are collected
    into result.printed instead of being kept in result.out.
    stdout_path: stream stdout to this file (for very large emit runs)."""
    workers = workers or NCPU
    tag = tag or os.path.basename(spec).replace(".tla", "")
    md = tempfile.mkdtemp(prefix="md-%s-" % tag, dir=scratch.dir)
    jopts = ["-XX:+UseParallelGC", "-Xss64m", "-Xmx" + heap]
    if dfs_queue:
        jopts.append("-Dtlc2.tool.queue.IStateQueue=StateDeque")
    jopts.append("-DTLA-Library=" + os.path.join(SPECS, "lib"))
    jopts.append("-Djava.io.tmpdir=" + md)          # TLC unpacks library modules into a temp dir: keep it inside the scratch
    cmd = ["java"] + jopts + ["-cp", JAR, "tlc2.TLC", "-workers", str(workers),
           "-metadir", md, "-config", cfg, "-noGenerateSpecTE"]
    if not deadlock:
        cmd += ["-deadlock"]
    if coverage:
        cmd += ["-coverage", "1"]
    if simulate:
        cmd += ["-simulate", "num=%d" % simulate]
        if depth:
            cmd += ["-depth", str(depth)]
    if seed is not None:
        cmd += ["-seed", str(seed)]
    cmd.append(spec)
    e = dict(os.environ)
    e.pop("JAVA_TOOL_OPTIONS", None)
    if env:
        e.update({k: str(v) for k, v in env.items()})
    r = TlcResult()
    t0 = time.time()
    try:
        if stdout_path:
            with open(stdout_path, "w") as fo:
                p = subprocess.run(cmd, stdout=fo, stderr=subprocess.STDOUT, env=e,
                                   timeout=timeout, cwd=os.path.dirname(spec))
            r.rc = p.returncode
            # keep only the non-emit lines in memory
            keep = []
            with open(stdout_path, errors="replace") as fi:
                for line in fi:
                    if capture_prefix and capture_prefix in line:
                        continue
                    keep.append(line)
                    if len(keep) > 20000:
                        keep = keep[:200] + keep[-5000:]
            r.out = "".join(keep)
        else:
            p = subprocess.run(cmd, stdout=subprocess.PIPE, stderr=subprocess.STDOUT, env=e,
                               timeout=timeout, cwd=os.path.dirname(spec), text=True, errors="replace")
            r.rc = p.returncode
            if capture_prefix:
                keep = []
                for line in p.stdout.splitlines():
                    (r.printed if capture_prefix in line else keep).append(line)
                r.out = "\n".join(keep)
            else:
                r.out = p.stdout
    except subprocess.TimeoutExpired:
        r.rc = -9
        r.error = "TLC timeout after %ss: %s" % (timeout, " ".join(cmd[-4:]))
    r.wall = time.time() - t0
    shutil.rmtree(md, ignore_errors=True)
    m = _RE_STATES.findall(r.out)
    if m:
        r.generated, r.distinct = int(m[-1][0]), int(m[-1][1])
    mi = re.search(r"Finished computing initial states: (\d+) (?:distinct )?states? generated", r.out)
    r.init_states = int(mi.group(1)) if mi else 1
    m = _RE_DEPTH.search(r.out)
    if m:
        r.depth = int(m.group(1))
    for name, line, mod, a, b in _RE_COV.findall(r.out):
        k = name
        if k in r.coverage:
            r.coverage[k] = (r.coverage[k][0] + int(a), r.coverage[k][1] + int(b))
        else:
            r.coverage[k] = (int(a), int(b))
    if "Invariant " in r.out and " is violated" in r.out:
        r.violation = re.search(r"Invariant (\S+) is violated", r.out).group(1)
    elif "Action property" in r.out and "is violated" in r.out:
        r.violation = "action-property"
    elif re.search(r"Error: .*(violated|Deadlock reached)", r.out):
        r.violation = re.search(r"Error: (.*)", r.out).group(1)
    elif r.error is None and (r.rc != 0 or "Error:" in r.out):
        if "Error:" in r.out:
            i = r.out.index("Error:")
            r.error = r.out[i:i + 1500]
        else:
            r.error = "TLC exit code %s\n%s" % (r.rc, r.out[-1500:])
    return r


def tlc_must_pass(res, what):
    if res.error:
        raise Broken("%s: TLC failed: %s" % (what, res.error))
    if res.violation:
        raise Broken("%s: design-level violation in the model (%s); the model no longer describes a correct design:\n%s"
                     % (what, res.violation, res.out[-3000:]))
    return res


def sany(path):
    p = subprocess.run(["java", "-DTLA-Library=" + os.path.join(SPECS, "lib"), "-cp", JAR, "tla2sany.SANY", path], stdout=subprocess.PIPE,
                       stderr=subprocess.STDOUT, text=True, cwd=os.path.dirname(path), timeout=120)
    bad = p.returncode != 0 or "*** Errors" in p.stdout or "Fatal errors" in p.stdout or "Could not find module" in p.stdout
    return (not bad), p.stdout


def write_cfg(path, lines):
    with open(path, "w") as f:
        f.write("\n".join(lines) + "\n")
    return path


# --------------------------------------------------------------------------
# trace validation: one single-worker TLC per batch file, many in parallel
def validate_traces(spec, cfg, files, scratch, env_extra=None, par=None, timeout=900, heap="2g", dfs=False):
    """Returns list of (file, accepted:bool, TlcResult). A batch is accepted iff TLC
    terminates normally (POSTCONDITION TraceAccepted holds, no invariant violated)."""
    par = par or max(1, min(len(files), NCPU - 2))

    def one(f):
        env = {"TRACE": f}
        if env_extra:
            env.update(env_extra)
        r = tlc(spec, cfg, scratch, workers=1, env=env, timeout=timeout, heap=heap,
                deadlock=False, dfs_queue=dfs, tag="tv")
        acc = r.rc == 0 and not r.violation and not r.error
        return (f, acc, r)

    with ThreadPoolExecutor(max_workers=par) as ex:
        return list(ex.map(one, files))


SELFTEST = []          # filled when VERIF_SELFTEST is set: one record per trace specification used in this run


def _numeric_leaves(x, path=()):
    if isinstance(x, bool):
        return
    if isinstance(x, int):
        yield path
    elif isinstance(x, list):
        for i, v in enumerate(x):
            yield from _numeric_leaves(v, path + (i,))
    elif isinstance(x, dict):
        for k, v in x.items():
            yield from _numeric_leaves(v, path + (k,))


def binding_selftest(spec, cfg, files, scratch, samples=10, seed=1):
    """Demonstrate that the trace specification constrains what was recorded: take recorded events, change ONE numeric
    field of each (by an eighth of its value, at least 3), and count how many of the corrupted events TLC rejects (a rejected event or a failed evaluation)."""
    import random
    rng = random.Random(seed)
    events = []
    for f in files[:3]:
        with open(f) as fh:
            lines = fh.readlines()
        for ln in rng.sample(lines, min(len(lines), 6)):
            try:
                events.append(json.loads(ln))
            except ValueError:
                pass
    rng.shuffle(events)
    out = []
    fields = []
    for k, ev in enumerate(events[:samples]):
        leaves = list(_numeric_leaves(ev))
        if not leaves:
            continue
        path = rng.choice(leaves)
        tgt = ev
        for key in path[:-1]:
            tgt = tgt[key]
        tgt[path[-1]] += max(3, abs(tgt[path[-1]]) // 8)      # large enough to leave every tolerance band
        fp = scratch.path("selftest-%s-%d.ndjson" % (os.path.basename(spec).replace(".tla", ""), k))
        with open(fp, "w") as fh:
            fh.write(json.dumps(ev) + "\n")
        out.append(fp)
        fields.append(".".join(str(x) for x in path))
    if not out:
        return
    rej = 0
    accepted_fields = []
    for (f, acc, r), fld in zip(validate_traces(spec, cfg, out, scratch, timeout=300), fields):
        if (not acc) or '"TRACE-BAD"' in r.out:
            rej += 1
        else:
            accepted_fields.append(fld)
    SELFTEST.append({"trace_spec": os.path.basename(spec), "single_field_corruptions": len(out), "rejected": rej, "accepted_fields": accepted_fields})


def validate_collect(spec, cfg, files, scratch, timeout=3000, heap="3g", max_bad=40):
    """Validate trace batches; every event is consumed by the trace spec, rejected ones are printed
    as TRACE-BAD <index>.  Returns (events_validated, [(file, index, event_dict)]).
    Raises Broken if TLC fails or a batch is not consumed completely."""
    if os.environ.get("VERIF_SELFTEST") and files and not any(t["trace_spec"] == os.path.basename(spec) for t in SELFTEST):
        binding_selftest(spec, cfg, files, scratch)
    results = validate_traces(spec, cfg, files, scratch, timeout=timeout, heap=heap)
    total = 0
    bad = []
    # An evaluation error while judging an event (TLC's 32-bit integers overflow when a recorded value is far outside the
    # exact domain the expectations live in) is isolated: the event is re-judged alone; if the error repeats, the event
    # is counted as rejected ("unjudgeable: magnitudes outside the domain of the specification") and the rest of the batch
    # is validated without it.  Any other TLC failure is a broken check.
    queue = list(results)
    rounds = 0
    unjudged_batches = 0

    def unjudgeable(f, k, line):
        try:
            ev = json.loads(line)
        except ValueError:
            ev = {"raw": line[:500]}
        if isinstance(ev, dict):
            ev = dict(ev, _unjudgeable="evaluating the specification on this event overflows TLC's integers: a recorded value is far outside the exact domain of the expectations")
        bad.append((f, k, ev))

    while queue:
        f, acc, r = queue.pop(0)
        if not acc and "Overflow when computing" in (r.error or "") + r.out:
            rounds += 1
            if rounds > (12 if bad else 80):
                # enough isolated: with rejected events already in hand the verdict stands; what is left is only counted
                if bad:
                    unjudged_batches += 1
                    continue
                raise Broken("trace validation: more than 80 overflowing batches and no judgeable rejection: %s" % f)
            with open(f) as fh:
                lines = fh.readlines()
            if len(lines) <= 1:
                unjudgeable(f, 1, lines[0] if lines else "")
                continue
            states = [int(x) for x in re.findall(r"^l = (\d+)$", r.out, re.M)]
            k = max(states) if states else 0                      # the event being judged when the evaluation failed
            pinned = False
            if 1 <= k <= len(lines):
                one = scratch.path("ovf-%d-%s" % (rounds, os.path.basename(f))[:120])
                with open(one, "w") as fo:
                    fo.write(lines[k - 1])
                (f1, acc1, r1), = validate_traces(spec, cfg, [one], scratch, timeout=timeout, heap=heap)
                if not acc1 and "Overflow when computing" in (r1.error or "") + r1.out:
                    unjudgeable(f, k, lines[k - 1])
                    rest = scratch.path("rest-%d-%s" % (rounds, os.path.basename(f))[:120])
                    with open(rest, "w") as fo:
                        fo.writelines(lines[:k - 1] + lines[k:])
                    queue += validate_traces(spec, cfg, [rest], scratch, timeout=timeout, heap=heap)
                    pinned = True
            if not pinned:
                # the position could not be read off TLC's report: halve the batch
                h = len(lines) // 2
                parts = []
                for tag, chunk in (("a", lines[:h]), ("b", lines[h:])):
                    pth = scratch.path("half-%d%s-%s" % (rounds, tag, os.path.basename(f))[:120])
                    with open(pth, "w") as fo:
                        fo.writelines(chunk)
                    parts.append(pth)
                queue += validate_traces(spec, cfg, parts, scratch, timeout=timeout, heap=heap)
            continue
        if not acc:
            raise Broken("trace validation failed to run on %s: %s\n%s" % (f, r.error or r.violation, r.out[-1500:]))
        idx = sorted(set(int(x) for x in re.findall(r'"TRACE-BAD", (\d+)', r.out)))
        total += max(0, r.distinct - 1)
        if idx:
            want = set(idx[:max_bad])
            with open(f) as fh:
                for i, line in enumerate(fh, 1):
                    if i in want:
                        try:
                            bad.append((f, i, json.loads(line)))
                        except ValueError:
                            bad.append((f, i, {"raw": line[:500]}))
            total -= len(idx)
    return total, bad


def rejected_detail(r):
    """Summarise why a trace batch was rejected (last matched line etc.)."""
    out = r.out
    m = re.findall(r"TRACE-POS (\d+)", out)
    pos = m[-1] if m else None
    tail = out[-2500:]
    return {"rc": r.rc, "violation": r.violation, "error": (r.error or "")[:1500], "last_pos": pos, "tail": tail}


# --------------------------------------------------------------------------
# building harnesses from /repo's working tree
CFG_SWITCHES = ["ASINH", "ACOSH", "ATANH", "EXPM1", "LOG1P", "ATAN2", "HYPOT", "CSQRT", "CPOW", "CEXP", "CLOG",
                "CSIN", "CCOS", "CTAN", "CSINH", "CCOSH", "CTANH", "CASIN", "CACOS", "CATAN", "CASINH", "CACOSH", "CATANH"]


def write_config_header(path, real=8, switches=None, default=1):
    """Generate the a.cmake.h equivalent (what include/a.cmake.h.in expands to)."""
    sw = {k: default for k in CFG_SWITCHES}
    if switches:
        sw.update(switches)
    ver = "0.0.0"; maj = mnr = pat = 0
    try:
        txt = open(os.path.join(REPO, "CMakeLists.txt")).read()
        m = re.search(r"project\(\s*liba\b[^)]*VERSION\s+(\d+)\.(\d+)\.(\d+)", txt) or \
            re.search(r"set\(PROJECT_VERSION\s+(\d+)\.(\d+)\.(\d+)", txt)
        if not m:
            m = re.search(r"VERSION\s+(\d+)\.(\d+)\.(\d+)", txt)
        if m:
            maj, mnr, pat = map(int, m.groups()); ver = "%d.%d.%d" % (maj, mnr, pat)
    except OSError:
        pass
    L = ["/* generated by /verif/lib/vlib.py */",
         '#define A_VERSION "%s"' % ver, "#define A_VERSION_MAJOR %d" % maj,
         "#define A_VERSION_MINOR %d" % mnr, "#define A_VERSION_PATCH %d" % pat,
         "#define A_VERSION_TWEAK 20000101",
         "#if !defined A_SIZE_POINTER", "#define A_SIZE_POINTER 8", "#endif",
         "#if !defined A_BYTE_ORDER", "#define A_BYTE_ORDER 1234", "#endif",
         "#if !defined A_SIZE_REAL", "#define A_SIZE_REAL %d" % real, "#endif"]
    for k in CFG_SWITCHES:
        if sw[k]:
            L.append("#define A_HAVE_%s 1" % k)
    with open(path, "w") as f:
        f.write("\n".join(L) + "\n")


SAN_FLAGS = ["-fsanitize=address,undefined", "-fno-sanitize=nonnull-attribute", "-fno-sanitize-recover=all", "-fno-omit-frame-pointer"]


def cc_build(out, sources, scratch, defs=(), sanitize=True, opt="-O1", real=8, switches=None, default_switch=1,
             extra=(), cfgdir=None, cxx=False, libs=("-lm",), timeout=600):
    cfgdir = cfgdir or scratch.sub("cfg-%d-%s" % (real, hashlib.md5(json.dumps([switches, default_switch], sort_keys=True).encode()).hexdigest()[:8]))
    hdr = os.path.join(cfgdir, "a.verif.h")
    if not os.path.exists(hdr):
        write_config_header(hdr, real=real, switches=switches, default=default_switch)
    cmd = ["g++" if cxx else "gcc", opt, "-g", "-std=gnu11" if not cxx else "-std=gnu++17", "-w",
           "-I" + os.path.join(REPO, "include"), "-I" + cfgdir, "-I" + HARNESS,
           '-DA_HAVE_H="a.verif.h"', "-DA_EXPORTS", "-DLIBA_VERIF=1"]
    if sanitize:
        cmd += SAN_FLAGS
    if os.environ.get("VERIF_COV"):
        cmd += ["--coverage"]          # tools/covaudit.py: which lines of the anchored code no harness ever executes
    cmd += ["-D" + d for d in defs]
    cmd += list(extra)
    cmd += list(sources) + ["-o", out] + list(libs)
    p = subprocess.run(cmd, stdout=subprocess.PIPE, stderr=subprocess.STDOUT, text=True, timeout=timeout)
    if p.returncode != 0:
        raise Broken("harness build failed: %s\n%s" % (" ".join(cmd), p.stdout[-4000:]))
    return out


def repo_src(*names):
    return [os.path.join(REPO, "src", n) for n in names]


SAN_ENV = {"ASAN_OPTIONS": "detect_leaks=0:abort_on_error=0:exitcode=99:allocator_may_return_null=1:detect_stack_use_after_return=0",
           "UBSAN_OPTIONS": "print_stacktrace=1:halt_on_error=1:abort_on_error=1:exitcode=98"}


def run_harness(cmd, timeout=900, env=None, stdin=None, cwd=None):
    e = dict(os.environ); e.update(SAN_ENV)
    if env:
        e.update({k: str(v) for k, v in env.items()})
    t0 = time.time()
    try:
        p = subprocess.run(cmd, stdout=subprocess.PIPE, stderr=subprocess.PIPE, text=True, errors="replace",
                           timeout=timeout, env=e, input=stdin, cwd=cwd)
    except subprocess.TimeoutExpired as ex:
        class R: pass
        r = R(); r.returncode = -9; r.stdout = (ex.stdout or b"").decode(errors="replace") if isinstance(ex.stdout, bytes) else (ex.stdout or "")
        r.stderr = "TIMEOUT after %ss" % timeout; r.wall = time.time() - t0
        return r
    p.wall = time.time() - t0
    return p


def parallel(fn, items, par=None):
    with ThreadPoolExecutor(max_workers=par or NCPU) as ex:
        return list(ex.map(fn, items))


# --------------------------------------------------------------------------
# known findings
def load_known():
    """known_findings.txt lines:
       finding: property=C05 key=<key> <text>
       fixed: property=C19 <commit> <text>
    """
    res = {}
    p = os.path.join(VERIF, "known_findings.txt")
    if not os.path.exists(p):
        return res
    for line in open(p):
        line = line.strip()
        m = re.match(r"finding:\s+property=(\S+)\s+key=(\S+)\s+(.*)", line)
        if m:
            res.setdefault(m.group(1), {})[m.group(2)] = m.group(3)
    return res


# --------------------------------------------------------------------------
class Check:
    """One run of one property's check: collects counters, violations, evidence."""

    def __init__(self, pid, tier, level, seed=None):
        self.pid = pid; self.tier = tier; self.level = level
        self.seed = int(seed if seed is not None else os.environ.get("VERIF_SEED", "1") or 1)
        self.t0 = time.time()
        self.cov = {"evaluations": 0, "distinct_nontrivial": 0, "states": 0, "transitions": 0,
                    "traces_validated_against_impl": 0, "samples": [], "rule": "", "exhaustive": False,
                    "spec_drift": 0, "parts": {}}
        self.assumptions = []
        self.violations = []   # (key, detail dict)
        self.known_hits = {}
        self.known = load_known().get(pid, {})
        self.scratch = Scratch(pid)
        self.notes = []

    # counters
    def add(self, key, n=1):
        self.cov[key] = self.cov.get(key, 0) + n

    def part(self, name, **kw):
        self.cov["parts"].setdefault(name, {}).update(kw)

    def sample(self, s, limit=6):
        if len(self.cov["samples"]) < limit:
            self.cov["samples"].append(s)

    def add_tlc(self, res, name):
        self.cov["states"] += res.distinct
        self.cov["transitions"] += res.generated
        self.part(name, tlc_states_distinct=res.distinct, tlc_states_generated=res.generated,
                  tlc_depth=res.depth, tlc_wall_s=round(res.wall, 1))

    def violation(self, key, detail):
        """key identifies the failing (op, input-class); listed keys are known findings."""
        if key in self.known:
            self.known_hits.setdefault(key, 0)
            self.known_hits[key] += 1
            return False
        self.violations.append((key, detail))
        return True

    def finish(self, exhaustive=None):
        if exhaustive is not None:
            self.cov["exhaustive"] = bool(exhaustive)
        wall = time.time() - self.t0
        ev = {"property_id": self.pid, "tier": self.tier, "seed": self.seed, "level": self.level,
              "coverage": self.cov, "assumptions": self.assumptions, "wall_s": round(wall, 2),
              "violations": len(self.violations), "known_findings_seen": self.known_hits, "notes": self.notes}
        if SELFTEST:
            self.cov["binding_selftest"] = list(SELFTEST)
        if not self.cov["samples"]:
            self.cov["samples"] = ["(no sample recorded)"]
        evdir = os.environ.get("VERIF_EVIDENCE_DIR", os.path.join(VERIF, "evidence"))    # seeded-change runs write elsewhere
        os.makedirs(evdir, exist_ok=True)
        evp = os.path.join(evdir, self.pid + ".json")
        with open(evp, "w") as f:
            json.dump(ev, f, indent=1, default=str)
        for k, n in sorted(self.known_hits.items()):
            print("KNOWN-FINDING: property=%s key=%s (%d case(s)) %s" % (self.pid, k, n, self.known.get(k, "")))
        rc = EXIT_OK
        if self.violations:
            os.makedirs(os.path.join(VERIF, "out"), exist_ok=True)
            body = json.dumps({"property": self.pid, "tier": self.tier, "seed": self.seed,
                               "violations": [{"key": k, "detail": d} for k, d in self.violations[:50]]},
                              indent=1, default=str)
            h = hashlib.sha1(body.encode()).hexdigest()[:10]
            rp = os.path.join(VERIF, "out", "%s-%s.json" % (self.pid, h))
            with open(rp, "w") as f:
                f.write(body)
            for k, d in self.violations[:8]:
                log("violation key=%s: %s" % (k, json.dumps(d, default=str)[:1200]))
            print("VIOLATION property=%s replay=%s" % (self.pid, rp))
            rc = EXIT_VIOLATION
        else:
            print("OK property=%s tier=%s states=%d transitions=%d traces=%d evaluations=%d wall=%.1fs" % (
                self.pid, self.tier, self.cov["states"], self.cov["transitions"],
                self.cov["traces_validated_against_impl"], self.cov["evaluations"], wall))
        self.scratch.cleanup()
        return rc


def drop_partial_lines(files):
    """After a harness crash the last line of a trace file may be incomplete: cut it off."""
    out = []
    for f in files:
        try:
            with open(f, "rb+") as fh:
                data = fh.read()
                if data and not data.endswith(b"\n"):
                    i = data.rfind(b"\n")
                    fh.seek(0); fh.truncate(); fh.write(data[:i + 1] if i >= 0 else b"")
            if os.path.getsize(f) > 0:
                out.append(f)
        except OSError:
            pass
    return out


def split_file_lines(path, nparts, outdir, prefix, max_lines=50000):
    """Split an ndjson file into roughly equal batches (each <= max_lines)."""
    with open(path) as f:
        lines = f.readlines()
    n = len(lines)
    if n == 0:
        return []
    per = min(max_lines, max(1, (n + nparts - 1) // nparts))
    files = []
    for i in range(0, n, per):
        fp = os.path.join(outdir, "%s-%04d.ndjson" % (prefix, len(files)))
        with open(fp, "w") as fo:
            fo.writelines(lines[i:i + per])
        files.append(fp)
    return files
