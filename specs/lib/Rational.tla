------------------------------- MODULE Rational -------------------------------
(* Exact rationals as reduced pairs <<p, q>> with q > 0, over TLC's 32-bit
   integers (TLC reports an overflow as an error, it does not wrap, so a model
   that leaves the range fails loudly).                                      *)
EXTENDS Integers, Sequences
RECURSIVE GcdN(_, _)
GcdN(a, b) == IF b = 0 THEN a ELSE GcdN(b, a % b)
AbsI(x) == IF x < 0 THEN -x ELSE x
RNorm(p, q) == IF p = 0 THEN <<0, 1>>
               ELSE LET g == GcdN(AbsI(p), AbsI(q))  s == IF q < 0 THEN -1 ELSE 1 IN <<(s * p) \div g, (s * q) \div g>>
RQ(i) == <<i, 1>>
\* sums over the least common denominator (denominators are mostly powers of two here: keeps values small)
RAdd(a, b) == LET g == GcdN(a[2], b[2]) IN RNorm(a[1] * (b[2] \div g) + b[1] * (a[2] \div g), (a[2] \div g) * b[2])
RSub(a, b) == LET g == GcdN(a[2], b[2]) IN RNorm(a[1] * (b[2] \div g) - b[1] * (a[2] \div g), (a[2] \div g) * b[2])
RMul(a, b) == LET g1 == GcdN(AbsI(a[1]), b[2])  g2 == GcdN(AbsI(b[1]), a[2]) IN    \* cross-reduce first: keeps products small
              IF a[1] = 0 \/ b[1] = 0 THEN <<0, 1>>
              ELSE RNorm((a[1] \div g1) * (b[1] \div g2), (a[2] \div g2) * (b[2] \div g1))
RDiv(a, b) == RMul(a, IF b[1] < 0 THEN <<-b[2], -b[1]>> ELSE <<b[2], b[1]>>)
RNeg(a) == <<-a[1], a[2]>>
RAbs(a) == <<AbsI(a[1]), a[2]>>
RLt(a, b) == LET g == GcdN(a[2], b[2]) IN a[1] * (b[2] \div g) < b[1] * (a[2] \div g)
RLe(a, b) == LET g == GcdN(a[2], b[2]) IN a[1] * (b[2] \div g) <= b[1] * (a[2] \div g)
REq(a, b) == LET g == GcdN(a[2], b[2]) IN a[1] * (b[2] \div g) = b[1] * (a[2] \div g)
RMin(a, b) == IF RLe(a, b) THEN a ELSE b
RMax(a, b) == IF RLe(a, b) THEN b ELSE a
RSign(a) == IF a[1] > 0 THEN 1 ELSE IF a[1] < 0 THEN -1 ELSE 0
\* a logged dyadic value [n, k] stands for n / 2^k
RDy(d) == RNorm(d[1], 2 ^ d[2])
\* a logged value: exact dyadic [n,k] or approximation [n,16,1]; Near: equal, resp. within 2^-13
RVal(d) == RNorm(d[1], 2 ^ d[2])
Near(d, r) == IF d[2] < 0 THEN FALSE
              ELSE IF Len(d) = 2 THEN REq(RDy(d), r)
              ELSE LET diff == d[1] * r[2] - r[1] * 65536 IN (IF diff < 0 THEN -diff ELSE diff) <= 8 * r[2]
\* tolerant in both encodings: |value - r| <= 2^-13 (for quantities that are only claimed to a few ulps)
NearTol(d, r) == IF d[2] < 0 THEN FALSE
                 ELSE LET diff == d[1] * r[2] - r[1] * (2 ^ d[2])
                          ad == IF diff < 0 THEN -diff ELSE diff IN
                      IF d[2] >= 13 THEN ad <= r[2] * (2 ^ (d[2] - 13)) ELSE ad * (2 ^ (13 - d[2])) <= r[2]
RECURSIVE RSum(_, _)
RSum(s, i) == IF i > Len(s) THEN <<0, 1>> ELSE RAdd(s[i], RSum(s, i + 1))
\* order-preserving code of a finite double: <<sign, hi, mid, lo>> = sign and the bit pattern of |x| split 31/17/16
DLe(a, b) == LET key(x) == <<x[2], x[3], x[4]>> IN
             IF a[1] # b[1] THEN a[1] < b[1]
             ELSE IF a[1] >= 0 THEN (a[2] < b[2] \/ (a[2] = b[2] /\ (a[3] < b[3] \/ (a[3] = b[3] /\ a[4] <= b[4]))))
             ELSE (b[2] < a[2] \/ (a[2] = b[2] /\ (b[3] < a[3] \/ (a[3] = b[3] /\ b[4] <= a[4]))))
DLt(a, b) == DLe(a, b) /\ a # b
DZero == <<0, 0, 0, 0>>
DOne == <<1, 536346624, 0, 0>>          \* 1.0 = 0x3FF0000000000000: hi = bits >> 33
=============================================================================
