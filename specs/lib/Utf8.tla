-------------------------------- MODULE Utf8 --------------------------------
(* The (original, up to six byte) UTF-8 code of a_utf_encode / a_utf_decode:
   code points 1 .. 2^31-1.  Bytes are integers 0..255.                     *)
EXTENDS Integers, Sequences
Pow64(k) == CASE k = 0 -> 1 [] k = 1 -> 64 [] k = 2 -> 4096 [] k = 3 -> 262144 [] k = 4 -> 16777216 [] k = 5 -> 1073741824
\* number of bytes the table prescribes
ULen(cp) == IF cp < 128 THEN 1 ELSE IF cp < 2048 THEN 2 ELSE IF cp < 65536 THEN 3
            ELSE IF cp < 2097152 THEN 4 ELSE IF cp < 67108864 THEN 5 ELSE 6
LeadMask(n) == CASE n = 1 -> 0 [] n = 2 -> 192 [] n = 3 -> 224 [] n = 4 -> 240 [] n = 5 -> 248 [] n = 6 -> 252
\* lowest code point that needs n bytes (anything smaller encoded in n bytes is over-long)
MinCp(n) == CASE n = 1 -> 0 [] n = 2 -> 128 [] n = 3 -> 2048 [] n = 4 -> 65536 [] n = 5 -> 2097152 [] n = 6 -> 67108864
Encode(cp) == LET n == ULen(cp) IN
  [i \in 1..n |-> IF i = 1 THEN LeadMask(n) + (cp \div Pow64(n - 1))
                  ELSE 128 + ((cp \div Pow64(n - i)) % 64)]
IsCont(b) == b >= 128 /\ b < 192
\* length class announced by a lead byte; 0 = not a valid lead (continuation byte, 0xFE, 0xFF)
LeadLen(b) == IF b < 128 THEN 1 ELSE IF b < 192 THEN 0 ELSE IF b < 224 THEN 2 ELSE IF b < 240 THEN 3
              ELSE IF b < 248 THEN 4 ELSE IF b < 252 THEN 5 ELSE IF b < 254 THEN 6 ELSE 0
=============================================================================
