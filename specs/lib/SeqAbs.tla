------------------------------ MODULE SeqAbs ------------------------------
(* The abstract indexable sequence behind a_vec and a_buf, with the documented
   meaning of every operation for every index, including out-of-range ones.
   Elements are integers v = 10*key + tag: the comparison callback looks at the
   key only, the tag makes (in)stability of the sorted-insert variants visible.
   Indices are 0-based as in the C API; HUGE stands for the largest a_size
   (used by callers as an "end" sentinel).                                   *)
EXTENDS Integers, Sequences, FiniteSets, SequencesExt
HUGE == 1000000
FILL == 0                       \* value the harness writes into slots exposed by a growing Setn
Key(v) == v \div 10
Min2(a, b) == IF a < b THEN a ELSE b

Sorted(s) == \A i \in 1..(Len(s) - 1) : Key(s[i]) <= Key(s[i + 1])
Bag(s) == [v \in {s[i] : i \in 1..Len(s)} |-> Cardinality({i \in 1..Len(s) : s[i] = v})]

\* insert v before position i (0-based); i >= Len means append.  Result position returned too.
InsPos(s, i) == IF i >= Len(s) THEN Len(s) ELSE i
InsAt(s, i, v) == LET p == InsPos(s, i) IN SubSeq(s, 1, p) \o <<v>> \o SubSeq(s, p + 1, Len(s))
InsertBlock(s, i, blk) == LET p == InsPos(s, i) IN SubSeq(s, 1, p) \o blk \o SubSeq(s, p + 1, Len(s))
\* remove at i; i >= Len-1 means the last element.  Only for non-empty s.
RemPos(s, i) == IF i >= Len(s) - 1 THEN Len(s) - 1 ELSE i
RemAt(s, i) == LET p == RemPos(s, i) IN SubSeq(s, 1, p) \o SubSeq(s, p + 2, Len(s))
\* erase cnt elements from i; running past the end truncates; i >= Len is out of bounds (no change)
EraseOK(s, i) == i < Len(s)
EraseAt(s, i, cnt) == LET c == Min2(cnt, Len(s) - i) IN SubSeq(s, 1, i) \o SubSeq(s, i + c + 1, Len(s))

CountLT(s, k) == Cardinality({i \in 1..Len(s) : Key(s[i]) < k})
CountLE(s, k) == Cardinality({i \in 1..Len(s) : Key(s[i]) <= k})
\* first element moved right before the first element that is not smaller (stays in front of equals)
SortForeOf(s) == IF Len(s) <= 1 THEN s ELSE
  LET x == s[1]  r == Tail(s)  p == CountLT(r, Key(x)) IN SubSeq(r, 1, p) \o <<x>> \o SubSeq(r, p + 1, Len(r))
\* last element moved left behind the last element that is not greater
SortBackOf(s) == IF Len(s) <= 1 THEN s ELSE
  LET x == s[Len(s)]  r == SubSeq(s, 1, Len(s) - 1)  p == CountLE(r, Key(x)) IN SubSeq(r, 1, p) \o <<x>> \o SubSeq(r, p + 1, Len(r))
\* sorted insert: after its equals; returns position
PushSortPos(s, v) == CountLE(s, Key(v))
\* canonical sorted permutation (stable); the real sort is libc qsort, not stable: compared by keys + bag
RECURSIVE StableSort(_)
StableSort(s) == IF Len(s) <= 1 THEN s ELSE
  LET r == StableSort(SubSeq(s, 1, Len(s) - 1)) IN SortBackOf(r \o <<s[Len(s)]>>)
Keys(s) == [i \in 1..Len(s) |-> Key(s[i])]
=============================================================================
