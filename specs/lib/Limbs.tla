-------------------------------- MODULE Limbs --------------------------------
(* Unsigned integers wider than TLC's 32-bit integers, as little-endian byte
   sequences (base 256).  Only what the integer-math and CRC specifications
   need: comparison, addition, multiplication, bit access.                  *)
EXTENDS Integers, Sequences
RECURSIVE StripL(_)
StripL(a) == IF a # <<>> /\ a[Len(a)] = 0 THEN StripL(SubSeq(a, 1, Len(a) - 1)) ELSE a
Dig(a, i) == IF i <= Len(a) THEN a[i] ELSE 0
Max2(x, y) == IF x > y THEN x ELSE y
\* -1, 0, 1
RECURSIVE CmpFrom(_, _, _)
CmpFrom(a, b, i) == IF i = 0 THEN 0 ELSE IF Dig(a, i) < Dig(b, i) THEN -1 ELSE IF Dig(a, i) > Dig(b, i) THEN 1 ELSE CmpFrom(a, b, i - 1)
LCmp(a, b) == CmpFrom(a, b, Max2(Len(a), Len(b)))
LEq(a, b) == LCmp(a, b) = 0
LLe(a, b) == LCmp(a, b) <= 0
LLt(a, b) == LCmp(a, b) < 0
\* carry propagation of a sequence of non-negative "wide digits"
RECURSIVE Carry(_, _, _)
Carry(w, i, c) == IF i > Len(w) THEN (IF c = 0 THEN <<>> ELSE <<c % 256>> \o Carry(w, i, c \div 256))
                  ELSE LET t == w[i] + c IN <<t % 256>> \o Carry(w, i + 1, t \div 256)
LAdd(a, b) == Carry([i \in 1..Max2(Len(a), Len(b)) |-> Dig(a, i) + Dig(b, i)], 1, 0)
LAddSmall(a, k) == LAdd(a, <<k % 256, (k \div 256) % 256>>)
\* schoolbook product: column sums stay far below 2^31 for operands of at most 16 bytes
RECURSIVE ColSum(_, _, _, _)
ColSum(a, b, k, i) == IF i > k THEN 0 ELSE Dig(a, i) * Dig(b, k + 1 - i) + ColSum(a, b, k, i + 1)
LMul(a, b) == IF a = <<>> \/ b = <<>> THEN <<>> ELSE Carry([k \in 1..(Len(a) + Len(b) - 1) |-> ColSum(a, b, k, 1)], 1, 0)
LBit(a, i) == (Dig(a, (i \div 8) + 1) \div (2 ^ (i % 8))) % 2      \* bit i, i >= 0
LFromInt(x) == <<x % 256, (x \div 256) % 256, (x \div 65536) % 256, (x \div 16777216) % 256>>   \* 0 <= x < 2^31
IsBytes(a) == \A i \in 1..Len(a) : a[i] \in 0..255
=============================================================================
