------------------------------ MODULE RbtMC ------------------------------
(* Exhaustive configuration of Rbt with edge emission for the generation
   direction: every generated transition is printed once as a flat tuple
     <<"E", opcode, k, ret, pre.root, pre.left, pre.right, pre.par, pre.tag,
                            post.root, post.left, ..., post.tag, cases>>   *)
EXTENDS Rbt, Json
OpCode(o) == CASE o = "ins" -> 1 [] o = "rem" -> 2 [] o = "get" -> 3 [] OTHER -> 0
SetSeq(s) == [i \in 1..20 |-> IF i \in s THEN 1 ELSE 0]
Emit == PrintT(ToJson(<<7777777, OpCode(lastOp'), lastArg', lastRet',
                 t.root, t.left, t.right, t.par, t.tag,
                 t'.root, t'.left, t'.right, t'.par, t'.tag, SetSeq(lastCase')>>))
NoEmit == TRUE
TI == INSTANCE TreeIter
IterOK == TI!IterInv(t)
=============================================================================
