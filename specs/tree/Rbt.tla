------------------------------- MODULE Rbt -------------------------------
(* Red-black container of liba (src/rbt.c, include/a/rbt.h).
   State as in Avl: t = [root,left,right,par,tag] with tag = colour (0 red, 1 black),
   S = ghost abstract set.  sd is -1 when the node under repair is a left child and
   +1 for the mirror image, so each mirrored branch of a_rbt_insert_adjust and
   a_rbt_remove_adjust is written once.
   SetPC = a_rbt_set_parent_color, SetP = a_rbt_set_parent, SetParents = a_rbt_set_parents. *)
EXTENDS TreeBase, TLC
CONSTANT N
Keys == 1..N
VARIABLES t, S, lastOp, lastArg, lastRet, lastCase
vars == <<t, S, lastOp, lastArg, lastRet, lastCase>>
view == <<t, S>>
Z == [k \in Keys |-> 0]
Empty == [root |-> 0, left |-> Z, right |-> Z, par |-> Z, tag |-> Z]

\* case labels
L_DUP == 1  L_ROOT == 2  L_PBLACK == 3  L_I1 == 4  L_I2L == 5  L_I2R == 6  L_I3L == 7  L_I3R == 8
L_R_NOLEFT == 9  L_R_NORIGHT == 10  L_R_DIRECT == 11  L_R_DEEP == 12
L_F1L == 13  L_F1R == 14  L_F2STOP == 15  L_F2UP == 16  L_F3L == 17  L_F3R == 18  L_F4L == 19  L_F4R == 20
Labels == 1..20

SetPC(tr, n, p, c) == IF n = 0 THEN tr ELSE [tr EXCEPT !.par[n] = p, !.tag[n] = c]
SetP(tr, n, p) == IF n = 0 THEN tr ELSE [tr EXCEPT !.par[n] = p]
SetParents(tr, node, newn, color) ==
  LET P == tr.par[node]
      t1 == [tr EXCEPT !.par[newn] = tr.par[node], !.tag[newn] = tr.tag[node]]
      t2 == SetPC(t1, node, newn, color)
  IN NewChild(t2, P, node, newn)
IsRed(tr, n) == IF n = 0 THEN FALSE ELSE tr.tag[n] = 0
BlackOrNull(tr, n) == IF n = 0 THEN TRUE ELSE tr.tag[n] = 1

\* a_rbt_insert_adjust; returns <<tree, labels>>
RECURSIVE InsAdj(_, _, _, _)
InsAdj(tr, node, parent, labs) ==
  IF parent = 0 THEN <<SetPC(tr, node, 0, 1), labs \cup {L_ROOT}>>
  ELSE IF tr.tag[parent] = 1 THEN <<tr, labs \cup {L_PBLACK}>>
  ELSE LET g == tr.par[parent]
           sd == IF parent # tr.right[g] THEN -1 ELSE 1
           uncle == Child(tr, g, -sd)
       IN IF IsRed(tr, uncle)
          THEN LET t1 == SetPC(SetPC(tr, uncle, g, 1), parent, g, 1)
                   np == t1.par[g]
                   t2 == SetPC(t1, g, np, 0)
               IN InsAdj(t2, g, np, labs \cup {L_I1})
          ELSE LET inner == Child(tr, parent, -sd)
                   c2 == node = inner
                   tmpA == Child(tr, node, sd)
                   tA1 == SetChild(SetChild(tr, parent, tmpA, -sd), node, parent, sd)
                   tA2 == SetPC(SetPC(tA1, tmpA, parent, 1), parent, node, 0)
                   tB == IF c2 THEN tA2 ELSE tr
                   par2 == IF c2 THEN node ELSE parent
                   tmp == IF c2 THEN Child(tA2, node, -sd) ELSE inner
                   t3 == SetChild(SetChild(tB, g, tmp, sd), par2, g, -sd)
                   t4 == SetPC(t3, tmp, g, 1)
                   l2 == IF c2 THEN {IF sd < 0 THEN L_I2L ELSE L_I2R} ELSE {}
                   l3 == {IF sd < 0 THEN L_I3L ELSE L_I3R}
               IN <<SetParents(t4, g, par2, 0), labs \cup l2 \cup l3>>

RECURSIVE Descend(_, _, _)
Descend(tr, cur, k) ==
  IF k < cur THEN (IF tr.left[cur] = 0 THEN <<cur, -1>> ELSE Descend(tr, tr.left[cur], k))
  ELSE IF k > cur THEN (IF tr.right[cur] = 0 THEN <<cur, 1>> ELSE Descend(tr, tr.right[cur], k))
  ELSE <<cur, 2>>

\* a_rbt_insert; returns <<tree, ret, labels>>
InsertT(tr, k) ==
  IF tr.root = 0
  THEN LET r == InsAdj([tr EXCEPT !.root = k, !.left[k] = 0, !.right[k] = 0, !.par[k] = 0, !.tag[k] = 0], k, 0, {})
       IN <<r[1], 0, r[2]>>
  ELSE LET d == Descend(tr, tr.root, k) IN
       IF d[2] = 2 THEN <<tr, d[1], {L_DUP}>>
       ELSE LET t1 == [SetChild(tr, d[1], k, d[2]) EXCEPT !.par[k] = d[1], !.tag[k] = 0, !.left[k] = 0, !.right[k] = 0]
                r == InsAdj(t1, k, d[1], {})
            IN <<r[1], 0, r[2]>>

\* a_rbt_remove_adjust; returns <<tree, labels>>
RECURSIVE RemAdj(_, _, _, _)
RemAdj(tr, node, parent, labs) ==
  LET sd == IF node # tr.right[parent] THEN -1 ELSE 1
      sib0 == Child(tr, parent, -sd)
      c1 == tr.tag[sib0] = 0
      n1 == Child(tr, sib0, sd)
      tC1a == SetChild(SetChild(tr, parent, n1, -sd), sib0, parent, sd)
      tC1b == SetParents(SetPC(tC1a, n1, parent, 1), parent, sib0, 0)
      t1 == IF c1 THEN tC1b ELSE tr
      la == labs \cup (IF c1 THEN {IF sd < 0 THEN L_F1L ELSE L_F1R} ELSE {})
      sib == IF c1 THEN n1 ELSE sib0
      far == Child(t1, sib, -sd)
  IN IF BlackOrNull(t1, far)
     THEN LET near == Child(t1, sib, sd) IN
          IF BlackOrNull(t1, near)
          THEN LET t2 == SetPC(t1, sib, parent, 0) IN
               IF t2.tag[parent] = 0 THEN <<[t2 EXCEPT !.tag[parent] = 1], la \cup {L_F2STOP}>>
               ELSE LET np == t2.par[parent] IN
                    IF np # 0 THEN RemAdj(t2, parent, np, la \cup {L_F2UP}) ELSE <<t2, la \cup {L_F2STOP}>>
          ELSE LET x == Child(t1, near, -sd)
                   t3 == SetChild(SetChild(SetChild(t1, sib, x, sd), near, sib, -sd), parent, near, -sd)
                   t3b == SetPC(t3, x, sib, 1)
                   tmp2 == Child(t3b, near, sd)
                   t4 == SetChild(SetChild(t3b, parent, tmp2, -sd), near, parent, sd)
                   t4b == SetP(SetPC(t4, sib, near, 1), tmp2, parent)
               IN <<SetParents(t4b, parent, near, 1),
                    la \cup {IF sd < 0 THEN L_F3L ELSE L_F3R, IF sd < 0 THEN L_F4L ELSE L_F4R}>>
     ELSE LET tmp2 == Child(t1, sib, sd)
              t4 == SetChild(SetChild(t1, parent, tmp2, -sd), sib, parent, sd)
              t4b == SetP(SetPC(t4, far, sib, 1), tmp2, parent)
          IN <<SetParents(t4b, parent, sib, 1), la \cup {IF sd < 0 THEN L_F4L ELSE L_F4R}>>

RECURSIVE LeftMost(_, _, _)
LeftMost(tr, p, s) == IF tr.left[s] = 0 THEN <<p, s>> ELSE LeftMost(tr, s, tr.left[s])

\* a_rbt_remove; returns <<tree, labels>>
RemoveT(tr, node) ==
  LET child == tr.right[node]  tmp == tr.left[node] IN
  IF tmp = 0 THEN
     LET parent == tr.par[node]  pc == tr.tag[node]
         t1 == NewChild(tr, parent, node, child)
     IN IF child # 0 THEN <<Clear(SetPC(t1, child, parent, pc), node), {L_R_NOLEFT}>>
        ELSE IF pc = 1 /\ parent # 0
             THEN LET r == RemAdj(t1, 0, parent, {L_R_NOLEFT}) IN <<Clear(r[1], node), r[2]>>
             ELSE <<Clear(t1, node), {L_R_NOLEFT}>>
  ELSE IF child = 0 THEN
     LET parent == tr.par[node]
         t1 == SetPC(tr, tmp, tr.par[node], tr.tag[node])
     IN <<Clear(NewChild(t1, parent, node, tmp), node), {L_R_NORIGHT}>>
  ELSE
     LET direct == tr.left[child] = 0
         ps == IF direct THEN <<child, child>> ELSE LeftMost(tr, child, tr.left[child])
         parent == ps[1]  succ == ps[2]
         child2 == tr.right[succ]
         t1 == IF direct THEN tr
               ELSE SetP([tr EXCEPT !.left[parent] = child2, !.right[succ] = child], child, succ)
         lf == tr.left[node]
         t2 == SetP([t1 EXCEPT !.left[succ] = lf], lf, succ)
         np == tr.par[node]  nc == tr.tag[node]
         t3 == NewChild(t2, np, node, succ)
         scol == t3.tag[succ]
         t4 == IF child2 # 0 THEN SetPC(t3, child2, parent, 1) ELSE t3
         adjust == IF child2 # 0 THEN 0 ELSE IF scol = 1 THEN parent ELSE 0
         t5 == [t4 EXCEPT !.par[succ] = np, !.tag[succ] = nc]
         lab == {IF direct THEN L_R_DIRECT ELSE L_R_DEEP}
     IN IF adjust # 0 THEN LET r == RemAdj(t5, 0, adjust, lab) IN <<Clear(r[1], node), r[2]>>
        ELSE <<Clear(t5, node), lab>>

-----------------------------------------------------------------------------
\* Property C02 as predicates on an arbitrary structure
\* black height of the subtree at n; -1 when two paths disagree
RECURSIVE BH(_, _)
BH(tr, n) == IF n = 0 THEN 1 ELSE
  LET a == BH(tr, tr.left[n]) b == BH(tr, tr.right[n]) IN
  IF a < 0 \/ b < 0 \/ a # b THEN -1 ELSE a + tr.tag[n]
RootBlackOf(tr) == tr.root # 0 => tr.tag[tr.root] = 1
NoRedRedOf(tr) == \A n \in Nodes(tr, tr.root) : tr.tag[n] = 0 => BlackOrNull(tr, tr.left[n]) /\ BlackOrNull(tr, tr.right[n])
EqualBHOf(tr) == BH(tr, tr.root) > 0
GoodRbt(tr, set) == /\ Finite(tr, DOMAIN tr.left)
                    /\ BstOf(tr) /\ RootBlackOf(tr) /\ NoRedRedOf(tr) /\ EqualBHOf(tr) /\ ParentOKOf(tr) /\ RefinesOf(tr, set)

TypeOK == /\ t.root \in 0..N /\ t.left \in [Keys -> 0..N] /\ t.right \in [Keys -> 0..N]
          /\ t.par \in [Keys -> 0..N] /\ t.tag \in [Keys -> 0..1] /\ S \subseteq Keys
Bst == BstOf(t)
RootBlack == RootBlackOf(t)
NoRedRed == NoRedRedOf(t)
EqualBH == EqualBHOf(t)
ParentOK == ParentOKOf(t)
Refines == RefinesOf(t, S)
Inv == TypeOK /\ Bst /\ RootBlack /\ NoRedRed /\ EqualBH /\ ParentOK /\ Refines

Init == /\ t = Empty /\ S = {}
        /\ lastOp = "init" /\ lastArg = 0 /\ lastRet = 0 /\ lastCase = {}
Insert(k) == LET r == InsertT(t, k) IN
  /\ t' = r[1] /\ S' = S \cup {k}
  /\ lastOp' = "ins" /\ lastArg' = k /\ lastRet' = r[2] /\ lastCase' = r[3]
Remove(k) == /\ k \in S
             /\ LET r == RemoveT(t, k) IN
                /\ t' = r[1] /\ S' = S \ {k}
                /\ lastOp' = "rem" /\ lastArg' = k /\ lastRet' = 0 /\ lastCase' = r[2]
Search(k) == /\ UNCHANGED <<t, S>>
             /\ lastOp' = "get" /\ lastArg' = k /\ lastRet' = SearchT(t, t.root, k) /\ lastCase' = {}
Next == \E k \in Keys : Insert(k) \/ Remove(k) \/ Search(k)
Spec == Init /\ [][Next]_vars

DupInsertIsNoOp == lastOp = "ins" /\ L_DUP \in lastCase => lastRet = lastArg
InsertRet == lastOp = "ins" => (lastRet = 0 \/ L_DUP \in lastCase)
SearchIffPresent == lastOp = "get" => (lastRet = (IF lastArg \in S THEN lastArg ELSE 0))
DupNoChange == [][(lastOp' = "ins" /\ lastArg' \in S) => (t' = t /\ S' = S)]_vars
=============================================================================
