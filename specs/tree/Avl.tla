------------------------------- MODULE Avl -------------------------------
(* AVL container of liba (src/avl.c, include/a/avl.h).

   Abstract state: S, the set of keys inserted and not yet removed (SetAbs view).
   Implementation-shaped state: t = [root, left, right, par, tag] with tag = the
   stored balance factor.  One atomic action per public call, as in the code
   (the library is sequential; the linearization point is the call's return).

   The helper operators transcribe the C helpers one to one:
     Rotate = a_avl_rotate, Rotate2 = a_avl_rotate2, HandleGrowth = a_avl_handle_growth,
     GrowLoop/InsertAdjust = a_avl_insert_adjust, HandleShrink = a_avl_handle_shrink,
     HandleRemove = a_avl_handle_remove, RemoveT = a_avl_remove, InsertT = a_avl_insert.
   Each returns, besides the tree, the set of case labels it went through, so that
   coverage of every case can be demonstrated (Labels below).
*)
EXTENDS TreeBase, TLC
CONSTANT N
Keys == 1..N
VARIABLES t, S,          \* tree, ghost abstract set
          lastOp, lastArg, lastRet, lastCase   \* observation of the last call (hidden by VIEW)
vars == <<t, S, lastOp, lastArg, lastRet, lastCase>>
view == <<t, S>>

Z == [k \in Keys |-> 0]
Empty == [root |-> 0, left |-> Z, right |-> Z, par |-> Z, tag |-> Z]

\* case labels
L_DUP == 1   L_ROOT == 2   L_LEAF_BAL == 3   L_GROW_UP == 4   L_GROW_ABSORB == 5
L_GROW_SINGLE == 6   L_GROW_DOUBLE == 7
L_RM_ROOT == 10  L_RM_SIMPLE == 11  L_RM_SUCC_DIRECT == 12  L_RM_SUCC_DEEP == 13
L_SH_STOP == 14  L_SH_UP == 15  L_SH_SINGLE_STOP == 16  L_SH_SINGLE_UP == 17  L_SH_DOUBLE == 18
L_SH_TWICE == 19   \* a removal that rotated at two different levels
Labels == {1,2,3,4,5,6,7,10,11,12,13,14,15,16,17,18,19}
RotLabels == {6,7,16,17,18}

AddBf(tr, n, a) == [tr EXCEPT !.tag[n] = @ + a]

Rotate(tr, A, sign) ==
  LET P == tr.par[A]
      B == Child(tr, A, -sign)
      E == Child(tr, B, sign)
      t1 == SetChild(tr, A, E, -sign)
      t2 == SetPar(t1, A, B)
      t3 == SetChild(t2, B, A, sign)
      t4 == SetPar(t3, B, P)
      t5 == SetPar(t4, E, A)
  IN NewChild(t5, P, A, B)

\* returns <<tree, E>>
Rotate2(tr, B, A, sign) ==
  LET P == tr.par[A]
      E == Child(tr, B, sign)
      F == Child(tr, E, -sign)
      G == Child(tr, E, sign)
      e == tr.tag[E]
      t1 == SetChild(tr, A, G, -sign)
      t2 == [t1 EXCEPT !.par[A] = E, !.tag[A] = IF sign * e >= 0 THEN 0 ELSE -e]
      t3 == SetChild(t2, B, F, sign)
      t4 == [t3 EXCEPT !.par[B] = E, !.tag[B] = IF sign * e <= 0 THEN 0 ELSE -e]
      t5 == SetChild(SetChild(t4, E, A, sign), E, B, -sign)
      t6 == [t5 EXCEPT !.par[E] = P, !.tag[E] = 0]
      t7 == SetPar(SetPar(t6, F, B), G, A)
  IN <<NewChild(t7, P, A, E), E>>

\* returns <<tree, done, label>>
HandleGrowth(tr, parent, node, sign) ==
  LET cur == tr.tag[parent]  new == cur + sign IN
  IF cur = 0 THEN <<AddBf(tr, parent, sign), FALSE, L_GROW_UP>>
  ELSE IF new = 0 THEN <<AddBf(tr, parent, sign), TRUE, L_GROW_ABSORB>>
  ELSE IF sign * tr.tag[node] > 0
       THEN <<AddBf(AddBf(Rotate(tr, parent, -sign), parent, -sign), node, -sign), TRUE, L_GROW_SINGLE>>
       ELSE <<Rotate2(tr, node, parent, -sign)[1], TRUE, L_GROW_DOUBLE>>

\* returns <<tree, labels>>
RECURSIVE GrowLoop(_, _, _)
GrowLoop(tr, node, labs) ==
  LET parent == tr.par[node] IN
  IF parent = 0 THEN <<tr, labs>>
  ELSE LET sign == IF tr.left[parent] = node THEN -1 ELSE 1
           r == HandleGrowth(tr, parent, node, sign)
       IN IF r[2] THEN <<r[1], labs \cup {r[3]}>> ELSE GrowLoop(r[1], parent, labs \cup {r[3]})

InsertAdjust(tr, node) ==
  LET parent == tr.par[node] IN
  IF parent = 0 THEN <<tr, {L_ROOT}>>
  ELSE LET t1 == AddBf(tr, parent, IF tr.left[parent] = node THEN -1 ELSE 1) IN
       IF t1.tag[parent] = 0 THEN <<t1, {L_LEAF_BAL}>> ELSE GrowLoop(t1, parent, {})

\* descent of a_avl_insert: returns <<parent, side>>, side 2 = key already present
RECURSIVE Descend(_, _, _)
Descend(tr, cur, k) ==
  IF k < cur THEN (IF tr.left[cur] = 0 THEN <<cur, -1>> ELSE Descend(tr, tr.left[cur], k))
  ELSE IF k > cur THEN (IF tr.right[cur] = 0 THEN <<cur, 1>> ELSE Descend(tr, tr.right[cur], k))
  ELSE <<cur, 2>>

\* returns <<tree, ret, labels>>; ret = resident node for a duplicate, 0 (null) otherwise
InsertT(tr, k) ==
  IF tr.root = 0
  THEN <<[tr EXCEPT !.root = k, !.left[k] = 0, !.right[k] = 0, !.par[k] = 0, !.tag[k] = 0], 0, {L_ROOT}>>
  ELSE LET d == Descend(tr, tr.root, k) IN
       IF d[2] = 2 THEN <<tr, d[1], {L_DUP}>>
       ELSE LET t1 == [SetChild(tr, d[1], k, d[2]) EXCEPT !.par[k] = d[1], !.tag[k] = 0, !.left[k] = 0, !.right[k] = 0]
                r == InsertAdjust(t1, k)
            IN <<r[1], 0, r[2]>>

\* returns <<tree, nextparent, left, label>>
HandleShrink(tr, parent, sign) ==
  LET cur == tr.tag[parent]  new == cur + sign
      Up(t1, node, lab) == LET p == t1.par[node] IN <<t1, p, IF p # 0 THEN (IF t1.left[p] = node THEN 1 ELSE 0) ELSE 0, lab>>
  IN
  IF cur = 0 THEN <<AddBf(tr, parent, sign), 0, 0, L_SH_STOP>>
  ELSE IF new = 0 THEN Up(AddBf(tr, parent, sign), parent, L_SH_UP)
  ELSE LET node == Child(tr, parent, sign) IN
       IF sign * tr.tag[node] >= 0
       THEN LET t1 == Rotate(tr, parent, -sign) IN
            IF t1.tag[node] = 0 THEN <<AddBf(t1, node, -sign), 0, 0, L_SH_SINGLE_STOP>>
            ELSE Up(AddBf(AddBf(t1, parent, -sign), node, -sign), node, L_SH_SINGLE_UP)
       ELSE LET r == Rotate2(tr, node, parent, -sign) IN Up(r[1], r[2], L_SH_DOUBLE)

RECURSIVE ShrinkLoop(_, _, _, _, _)
ShrinkLoop(tr, parent, left, labs, rots) ==
  LET r == HandleShrink(tr, parent, IF left = 1 THEN 1 ELSE -1)
      rots2 == rots + (IF r[4] \in RotLabels THEN 1 ELSE 0)
      labs2 == labs \cup {r[4]} \cup (IF rots2 >= 2 THEN {L_SH_TWICE} ELSE {})
  IN IF r[2] = 0 THEN <<r[1], labs2>> ELSE ShrinkLoop(r[1], r[2], r[3], labs2, rots2)

RECURSIVE LeftMost(_, _, _)
LeftMost(tr, q, y) == IF tr.left[y] = 0 THEN <<q, y>> ELSE LeftMost(tr, y, tr.left[y])

\* returns <<tree, node, left, label>>
HandleRemove(tr, X) ==
  LET Y0 == tr.right[X] IN
  IF tr.left[Y0] = 0
  THEN LET Y == Y0
           t1 == [tr EXCEPT !.left[Y] = tr.left[X]]
           t2 == SetPar(t1, tr.left[X], Y)
           t3 == [t2 EXCEPT !.par[Y] = tr.par[X], !.tag[Y] = tr.tag[X]]
       IN <<NewChild(t3, tr.par[X], X, Y), Y, 0, L_RM_SUCC_DIRECT>>
  ELSE LET qy == LeftMost(tr, Y0, tr.left[Y0])
           Q == qy[1]  Y == qy[2]
           t1 == [tr EXCEPT !.left[Q] = tr.right[Y]]
           t2 == SetPar(t1, tr.right[Y], Q)
           t3 == [t2 EXCEPT !.right[Y] = tr.right[X]]
           t4 == SetPar(t3, tr.right[X], Y)
           t5 == [t4 EXCEPT !.left[Y] = tr.left[X]]
           t6 == SetPar(t5, tr.left[X], Y)
           t7 == [t6 EXCEPT !.par[Y] = tr.par[X], !.tag[Y] = tr.tag[X]]
       IN <<NewChild(t7, tr.par[X], X, Y), Q, 1, L_RM_SUCC_DEEP>>

\* returns <<tree, labels>>; the removed node's own fields are cleared in the model
\* (the code leaves them stale; the projection ignores nodes that are not linked)
RemoveT(tr, node) ==
  IF tr.left[node] # 0 /\ tr.right[node] # 0
  THEN LET r == HandleRemove(tr, node)
           s == ShrinkLoop(r[1], r[2], r[3], {r[4]}, 0)
       IN <<Clear(s[1], node), s[2]>>
  ELSE LET child == IF tr.left[node] # 0 THEN tr.left[node] ELSE tr.right[node]
           parent == tr.par[node] IN
       IF parent # 0
       THEN LET isLeft == tr.left[parent] = node
                t1 == IF isLeft THEN [tr EXCEPT !.left[parent] = child] ELSE [tr EXCEPT !.right[parent] = child]
                t2 == SetPar(t1, child, parent)
                s == ShrinkLoop(t2, parent, IF isLeft THEN 1 ELSE 0, {L_RM_SIMPLE}, 0)
            IN <<Clear(s[1], node), s[2]>>
       ELSE <<Clear([SetPar(tr, child, 0) EXCEPT !.root = child], node), {L_RM_ROOT}>>

-----------------------------------------------------------------------------
\* Property C01, as predicates on an arbitrary structure (also used by AvlTrace on
\* structures read back from the real code)
BalancedOf(tr) == \A n \in Nodes(tr, tr.root) :
                     LET d == Height(tr, tr.right[n]) - Height(tr, tr.left[n]) IN d \in {-1, 0, 1}
FactorOKOf(tr) == \A n \in Nodes(tr, tr.root) : tr.tag[n] = Height(tr, tr.right[n]) - Height(tr, tr.left[n])
GoodAvl(tr, set) == /\ Finite(tr, DOMAIN tr.left)
                    /\ BstOf(tr) /\ BalancedOf(tr) /\ FactorOKOf(tr) /\ ParentOKOf(tr) /\ RefinesOf(tr, set)

TypeOK == /\ t.root \in 0..N /\ t.left \in [Keys -> 0..N] /\ t.right \in [Keys -> 0..N]
          /\ t.par \in [Keys -> 0..N] /\ t.tag \in [Keys -> -1..1] /\ S \subseteq Keys
Bst == BstOf(t)
Balanced == BalancedOf(t)
FactorOK == FactorOKOf(t)
ParentOK == ParentOKOf(t)
Refines == RefinesOf(t, S)
Inv == TypeOK /\ Bst /\ Balanced /\ FactorOK /\ ParentOK /\ Refines

-----------------------------------------------------------------------------
Init == /\ t = Empty /\ S = {}
        /\ lastOp = "init" /\ lastArg = 0 /\ lastRet = 0 /\ lastCase = {}

Insert(k) == LET r == InsertT(t, k) IN
  /\ t' = r[1] /\ S' = S \cup {k}
  /\ lastOp' = "ins" /\ lastArg' = k /\ lastRet' = r[2] /\ lastCase' = r[3]

Remove(k) == /\ k \in S
             /\ LET r == RemoveT(t, k) IN
                /\ t' = r[1] /\ S' = S \ {k}
                /\ lastOp' = "rem" /\ lastArg' = k /\ lastRet' = 0 /\ lastCase' = r[2]

Search(k) == /\ UNCHANGED <<t, S>>
             /\ lastOp' = "get" /\ lastArg' = k /\ lastRet' = SearchT(t, t.root, k) /\ lastCase' = {}

Next == \E k \in Keys : Insert(k) \/ Remove(k) \/ Search(k)
Spec == Init /\ [][Next]_vars

\* action-level properties (checked as invariants over the observation variables)
DupInsertIsNoOp == lastOp = "ins" /\ L_DUP \in lastCase => lastRet = lastArg
InsertRet == lastOp = "ins" => (lastRet = 0 \/ L_DUP \in lastCase)
SearchIffPresent == lastOp = "get" => (lastRet = (IF lastArg \in S THEN lastArg ELSE 0))
\* a duplicate insert changes nothing: stated as an action property
DupNoChange == [][(lastOp' = "ins" /\ lastArg' \in S) => (t' = t /\ S' = S)]_vars
=============================================================================
