--------------------------- MODULE TreeIterTrace ---------------------------
(* Validates what the real iterators and the real tear-down produced on a
   given shape (harness/tree_h.c, mode "iter").  One event per shape:
     shape                         the linked structure (node id = key rank)
     fwd rev pre prerev post postrev   sequences produced by the foreach macros
     next prev pnext pprev qnext qprev result of one step from every node
     tears                         tear-down runs: start node, restart point,
                                   hand-out order, remaining structure after each
                                   step (first run), root and cursor at the end,
                                   result of one more call
   The oracle is TreeIter's reference orders, computed by TLC from the shape. *)
EXTENDS TreeIter, Json, IOUtils, TLC
VARIABLES l
Tr == ndJsonDeserialize(IOEnv.TRACE)

ToTree(x) == [root |-> x.root, left |-> x.left, right |-> x.right, par |-> x.par, tag |-> x.tag]
ToRest(x, n) == [root |-> x.root, left |-> x.left, right |-> x.right, par |-> x.par, tag |-> [i \in 1..n |-> 0]]
InRange(tr, n) == /\ tr.root \in 0..n
                  /\ \A i \in 1..n : tr.left[i] \in 0..n /\ tr.right[i] \in 0..n /\ tr.par[i] \in 0..n
SeqInRange(s, n) == \A i \in 1..Len(s) : s[i] \in 1..n

StepsOK(tr, e) ==
  LET io == InOrder(tr, tr.root)  pr == PreOrder(tr, tr.root)  prr == PreOrderRev(tr, tr.root)
      po == PostOrder(tr, tr.root)  por == PostOrderRev(tr, tr.root) IN
  \A n \in All(tr) :
     /\ e.next[n] = Succ(io, n) /\ e.prev[n] = Succ(Reverse(io), n)
     /\ e.pnext[n] = Succ(pr, n) /\ e.pprev[n] = Succ(prr, n)
     /\ e.qnext[n] = Succ(po, n) /\ e.qprev[n] = Succ(por, n)
     \* successor and predecessor steps are mutually inverse
     /\ IF e.next[n] # 0 THEN e.prev[e.next[n]] = n ELSE TRUE
     /\ IF e.prev[n] # 0 THEN e.next[e.prev[n]] = n ELSE TRUE

TearOK(tr, x, n) ==
  /\ SeqInRange(x.order, n)
  /\ TearOrderOK(tr, x.order)
  /\ x.final_root = 0 /\ x.final_next = 0 /\ x.extra = 0
  /\ Len(x.rests) \in {0, Len(x.order)}
  /\ \A i \in 1..Len(x.rests) :
       LET r == ToRest(x.rests[i], n)
           handed == {x.order[j] : j \in 1..i} IN
       /\ InRange(r, n) /\ Finite(r, 1..n)
       /\ Nodes(r, r.root) = All(tr) \ handed
       /\ ParentOKOf(r)

Accept(e) ==
  LET tr == ToTree(e.shape) IN
  /\ InRange(tr, e.n) /\ Finite(tr, 1..e.n)
  /\ SeqInRange(e.fwd, e.n) /\ SeqInRange(e.rev, e.n) /\ SeqInRange(e.pre, e.n) /\ SeqInRange(e.prerev, e.n)
  /\ SeqInRange(e.post, e.n) /\ SeqInRange(e.postrev, e.n)
  /\ OrdersOK(tr, e.fwd, e.rev, e.pre, e.prerev, e.post, e.postrev)
  \* the lower-case spelling of every macro yields the same sequence; the tear-down loop macros hand out every node exactly once
  /\ e.fwd2 = e.fwd /\ e.rev2 = e.rev /\ e.pre2 = e.pre /\ e.prerev2 = e.prerev /\ e.post2 = e.post /\ e.postrev2 = e.postrev
  /\ Len(e.fortear) = e.n /\ {e.fortear[i] : i \in 1..Len(e.fortear)} = 1..e.n /\ e.fortear2 = e.fortear
  /\ StepsOK(tr, e)
  /\ \A i \in 1..Len(e.tears) : TearOK(tr, e.tears[i], e.n)

TraceInit == l = 1
Step == /\ l <= Len(Tr)
        /\ (IF Accept(Tr[l]) = TRUE THEN TRUE ELSE PrintT(<<"TRACE-BAD", l>>))   \* evaluated as a value; rejected events are reported, validation goes on
        /\ l' = l + 1
TraceNext == Step
TraceAccepted == LET d == TLCGet("stats").diameter IN
                 IF d - 1 = Len(Tr) THEN TRUE ELSE Print(<<"TRACE-POS", d, "of", Len(Tr)>>, FALSE)
=============================================================================
