----------------------------- MODULE TreeIter -----------------------------
(* Iteration protocols and destructive tear-down of the AVL and red-black
   containers (the two files implement them identically): a_*_head/tail/next/prev,
   a_*_pre_next/pre_prev, a_*_post_head/post_tail/post_next/post_prev, a_*_tear.

   Two layers:
   - reference orders, defined recursively on the shape (this is what the
     documentation promises): InOrder, PreOrder (root-left-right), PreOrderRev
     (root-right-left), PostOrder (left-right-root), PostOrderRev (right-left-root);
   - the step functions, transcribed from the C code, driven by Walk.
   IterInv(tr) states property C03 for one tree; it is checked (a) as a state
   invariant on every tree reachable in Avl/Rbt, and (b) by TreeIterTrace on the
   sequences the real iterators produce.                                      *)
EXTENDS TreeBase, SequencesExt

RECURSIVE PreOrder(_, _)
PreOrder(tr, n) == IF n = 0 THEN <<>> ELSE <<n>> \o PreOrder(tr, tr.left[n]) \o PreOrder(tr, tr.right[n])
RECURSIVE PreOrderRev(_, _)
PreOrderRev(tr, n) == IF n = 0 THEN <<>> ELSE <<n>> \o PreOrderRev(tr, tr.right[n]) \o PreOrderRev(tr, tr.left[n])
RECURSIVE PostOrder(_, _)
PostOrder(tr, n) == IF n = 0 THEN <<>> ELSE PostOrder(tr, tr.left[n]) \o PostOrder(tr, tr.right[n]) \o <<n>>
RECURSIVE PostOrderRev(_, _)
PostOrderRev(tr, n) == IF n = 0 THEN <<>> ELSE PostOrderRev(tr, tr.right[n]) \o PostOrderRev(tr, tr.left[n]) \o <<n>>

\* ---- transcription of the step functions
RECURSIVE Deep(_, _, _)       \* while (node->side) node = node->side
Deep(tr, n, sd) == IF Child(tr, n, sd) = 0 THEN n ELSE Deep(tr, Child(tr, n, sd), sd)
IHead(tr) == IF tr.root = 0 THEN 0 ELSE Deep(tr, tr.root, -1)
ITail(tr) == IF tr.root = 0 THEN 0 ELSE Deep(tr, tr.root, 1)

RECURSIVE Climb(_, _, _, _)   \* do { leaf = node; node = parent(node); } while (node && node->side != leaf)
Climb(tr, leaf, node, sd) == IF node # 0 /\ Child(tr, node, sd) # leaf THEN Climb(tr, node, tr.par[node], sd) ELSE node
Next(tr, n) == IF tr.right[n] # 0 THEN Deep(tr, tr.right[n], -1) ELSE Climb(tr, n, tr.par[n], -1)
Prev(tr, n) == IF tr.left[n] # 0 THEN Deep(tr, tr.left[n], 1) ELSE Climb(tr, n, tr.par[n], 1)

RECURSIVE PreClimb(_, _, _, _)
PreClimb(tr, leaf, node, sd) ==
  IF node = 0 THEN 0
  ELSE IF Child(tr, node, sd) # 0 /\ Child(tr, node, sd) # leaf THEN Child(tr, node, sd)
  ELSE PreClimb(tr, node, tr.par[node], sd)
PreNext(tr, n) == IF tr.left[n] # 0 THEN tr.left[n] ELSE IF tr.right[n] # 0 THEN tr.right[n] ELSE PreClimb(tr, n, tr.par[n], 1)
PrePrev(tr, n) == IF tr.right[n] # 0 THEN tr.right[n] ELSE IF tr.left[n] # 0 THEN tr.left[n] ELSE PreClimb(tr, n, tr.par[n], -1)

RECURSIVE PostDeep(_, _, _)   \* A_AVL_POST(head, tail) with head = sd side
PostDeep(tr, n, sd) == IF Child(tr, n, sd) # 0 THEN PostDeep(tr, Child(tr, n, sd), sd)
                       ELSE IF Child(tr, n, -sd) # 0 THEN PostDeep(tr, Child(tr, n, -sd), sd)
                       ELSE n
PostHead(tr) == IF tr.root = 0 THEN 0 ELSE PostDeep(tr, tr.root, -1)
PostTail(tr) == IF tr.root = 0 THEN 0 ELSE PostDeep(tr, tr.root, 1)
PostNext(tr, n) == LET p == tr.par[n] IN
  IF p # 0 /\ tr.right[p] # 0 /\ tr.right[p] # n THEN PostDeep(tr, tr.right[p], -1) ELSE p
PostPrev(tr, n) == LET p == tr.par[n] IN
  IF p # 0 /\ tr.left[p] # 0 /\ tr.left[p] # n THEN PostDeep(tr, tr.left[p], 1) ELSE p

\* nodes dereferenced by PostDeep
RECURSIVE PostDeepReads(_, _, _)
PostDeepReads(tr, n, sd) == {n} \cup (IF Child(tr, n, sd) # 0 THEN PostDeepReads(tr, Child(tr, n, sd), sd)
                                       ELSE IF Child(tr, n, -sd) # 0 THEN PostDeepReads(tr, Child(tr, n, -sd), sd)
                                       ELSE {})
\* a_*_tear(root, &next): returns [tr, node, next, reads]
Tear(tr, next) ==
  LET start == IF next # 0 THEN next ELSE tr.root IN
  IF start = 0 THEN [tr |-> tr, node |-> 0, next |-> next, reads |-> {}]
  ELSE LET node == PostDeep(tr, start, -1)
           p == tr.par[node]
       IN [tr |-> NewChild(tr, p, node, 0), node |-> node, next |-> p,
           reads |-> PostDeepReads(tr, start, -1) \cup (IF p # 0 THEN {p} ELSE {})]

\* ---- drivers
StepOf(tr, n, proto) ==
  CASE proto = "next" -> Next(tr, n) [] proto = "prev" -> Prev(tr, n)
    [] proto = "pnext" -> PreNext(tr, n) [] proto = "pprev" -> PrePrev(tr, n)
    [] proto = "qnext" -> PostNext(tr, n) [] proto = "qprev" -> PostPrev(tr, n)
RECURSIVE Walk(_, _, _, _)
Walk(tr, cur, proto, fuel) == IF cur = 0 \/ fuel = 0 THEN <<>> ELSE <<cur>> \o Walk(tr, StepOf(tr, cur, proto), proto, fuel - 1)

\* full tear-down from a start node: returns the sequence of Tear results
RECURSIVE TearRun(_, _, _)
TearRun(tr, next, fuel) ==
  LET r == Tear(tr, next) IN
  IF r.node = 0 \/ fuel = 0 THEN <<>> ELSE <<r>> \o TearRun(r.tr, r.next, fuel - 1)

\* ---- the property
All(tr) == Nodes(tr, tr.root)
Sz(tr) == Size(tr, tr.root)
IsPermOf(s, set) == Len(s) = Cardinality(set) /\ {s[i] : i \in 1..Len(s)} = set
\* children (in the original shape) are handed out before their parents
ChildrenFirst(tr, s) == \A i \in 1..Len(s), j \in 1..Len(s) :
                          (tr.left[s[j]] = s[i] \/ tr.right[s[j]] = s[i]) => i < j
Ascending(s) == \A i \in 1..(Len(s) - 1) : s[i] < s[i + 1]

OrdersOK(tr, fwd, rev, pre, prerev, post, postrev) ==
  /\ fwd = InOrder(tr, tr.root) /\ Ascending(fwd)
  /\ rev = Reverse(InOrder(tr, tr.root))
  /\ pre = PreOrder(tr, tr.root) /\ prerev = PreOrderRev(tr, tr.root)
  /\ post = PostOrder(tr, tr.root) /\ postrev = PostOrderRev(tr, tr.root)

\* position-based reference for single steps from any starting node
Succ(s, n) == LET i == CHOOSE j \in 1..Len(s) : s[j] = n IN IF i = Len(s) THEN 0 ELSE s[i + 1]

\* a tear-down order (from any start node, possibly interrupted and restarted) is acceptable
TearOrderOK(tr, order) == IsPermOf(order, All(tr)) /\ ChildrenFirst(tr, order)

IterInv(tr) ==
  LET f == Sz(tr) + 1 IN
  /\ OrdersOK(tr, Walk(tr, IHead(tr), "next", f), Walk(tr, ITail(tr), "prev", f),
              Walk(tr, tr.root, "pnext", f), Walk(tr, tr.root, "pprev", f),
              Walk(tr, PostHead(tr), "qnext", f), Walk(tr, PostTail(tr), "qprev", f))
  /\ \A n \in All(tr) : /\ (Next(tr, n) # 0 => Prev(tr, Next(tr, n)) = n)
                        /\ (Prev(tr, n) # 0 => Next(tr, Prev(tr, n)) = n)
  /\ \A s \in All(tr) \cup {0} :
       LET run == TearRun(tr, s, f)
           order == [i \in 1..Len(run) |-> run[i].node]
       IN /\ TearOrderOK(tr, order)
          /\ \A i \in 1..Len(run) :
               LET handed == {order[j] : j \in 1..(i - 1)} IN
               /\ run[i].reads \cap handed = {}                  \* never reads a handed-out element
               /\ Nodes(run[i].tr, run[i].tr.root) = All(tr) \ (handed \cup {order[i]})   \* interrupted: rest still linked
          /\ (Len(run) > 0 => run[Len(run)].tr.root = 0 /\ run[Len(run)].next = 0)          \* leaves the tree empty
=============================================================================
