----------------------------- MODULE RbtTrace -----------------------------
(* Trace specification for the red-black container: validates events recorded from
   the real a_rbt_insert / a_rbt_remove / a_rbt_search (harness/tree_h.c).
   Each event carries the concrete pointer structure before and after the call
   (projected to node ids), the argument and the returned node.  TLC evaluates
   the property-level content of Rbt on what the real code produced:
     - the post structure is a finite, correctly linked, red-black search tree
       with black root, no red-red edge, equal black heights, whose node set is the abstract result set;
     - the return value rule; duplicate insert and lookup change nothing;
     - chained events continue from the previous post state.                *)
EXTENDS Rbt, Json, IOUtils
VARIABLE l
Tr == ndJsonDeserialize(IOEnv.TRACE)

ToTree(x) == [root |-> x.root, left |-> x.left, right |-> x.right, par |-> x.par, tag |-> x.tag]
InRange(tr, n) == /\ tr.root \in 0..n
                  /\ \A i \in 1..n : tr.left[i] \in 0..n /\ tr.right[i] \in 0..n /\ tr.par[i] \in 0..n /\ tr.tag[i] \in 0..1

TraceInit == Init /\ l = 1

\* the property-level judgement of one recorded call (evaluated as a value: see "= TRUE" below)
Accept(e, cur) ==
  LET dom == 1..e.n
      pre == ToTree(e.pre)
      post == ToTree(e.post)
  IN /\ InRange(pre, e.n) /\ InRange(post, e.n)
     /\ Finite(pre, dom)
     /\ (e.chain = 1 => pre = cur)
     /\ LET Spre == Nodes(pre, pre.root) IN
        CASE e.op = 1 -> /\ GoodRbt(post, Spre \cup {e.k})
                         /\ e.ret = (IF e.k \in Spre THEN e.k ELSE 0)
                         /\ (e.k \in Spre => post = pre)
          [] e.op = 2 -> /\ e.k \in Spre
                         /\ GoodRbt(post, Spre \ {e.k})
                         /\ e.ret = 0
          [] e.op = 3 -> /\ post = pre
                         /\ e.ret = (IF e.k \in Spre THEN e.k ELSE 0)
          [] OTHER -> FALSE

\* every event is consumed; a rejected one is reported (TRACE-BAD <index>) and validation goes on
Step ==
  /\ l <= Len(Tr)
  /\ LET e == Tr[l] IN
     /\ (IF Accept(e, t) = TRUE THEN TRUE ELSE PrintT(<<"TRACE-BAD", l>>))
     /\ t' = ToTree(e.post) /\ S' = {}
     /\ lastOp' = "trace" /\ lastArg' = e.k /\ lastRet' = e.ret /\ lastCase' = {}
  /\ l' = l + 1

TraceNext == Step
TraceSpec == TraceInit /\ [][TraceNext]_<<vars, l>>
TraceAccepted == LET d == TLCGet("stats").diameter IN
                 IF d - 1 = Len(Tr) THEN TRUE ELSE Print(<<"TRACE-POS", d, "of", Len(Tr)>>, FALSE)
=============================================================================
