---------------------------- MODULE TreeBase ----------------------------
(* Operators shared by the AVL and red-black specifications: a tree is a record
   [root, left, right, par, tag] of functions over node ids 1..N, 0 = null.
   `tag` is the per-node balance information (AVL: factor -1..1, RB: 0 red / 1 black).
   Node id = key: the comparison callback of the real code compares keys only. *)
EXTENDS Integers, FiniteSets, Sequences

Child(tr, n, sd) == IF sd < 0 THEN tr.left[n] ELSE tr.right[n]
SetChild(tr, n, c, sd) == IF sd < 0 THEN [tr EXCEPT !.left[n] = c] ELSE [tr EXCEPT !.right[n] = c]
SetPar(tr, n, p) == IF n = 0 THEN tr ELSE [tr EXCEPT !.par[n] = p]
NewChild(tr, p, n, nn) ==
  IF p # 0 THEN (IF tr.left[p] = n THEN [tr EXCEPT !.left[p] = nn] ELSE [tr EXCEPT !.right[p] = nn])
  ELSE [tr EXCEPT !.root = nn]
Clear(tr, x) == [tr EXCEPT !.left[x] = 0, !.right[x] = 0, !.par[x] = 0, !.tag[x] = 0]

RECURSIVE Nodes(_, _)
Nodes(tr, n) == IF n = 0 THEN {} ELSE {n} \cup Nodes(tr, tr.left[n]) \cup Nodes(tr, tr.right[n])
RECURSIVE Height(_, _)
Height(tr, n) == IF n = 0 THEN 0 ELSE 1 + (LET a == Height(tr, tr.left[n]) b == Height(tr, tr.right[n]) IN IF a > b THEN a ELSE b)
RECURSIVE InOrder(_, _)
InOrder(tr, n) == IF n = 0 THEN <<>> ELSE InOrder(tr, tr.left[n]) \o <<n>> \o InOrder(tr, tr.right[n])
RECURSIVE Size(_, _)
Size(tr, n) == IF n = 0 THEN 0 ELSE 1 + Size(tr, tr.left[n]) + Size(tr, tr.right[n])

(* A structure read back from real memory may be arbitrarily broken (cycles, shared
   children).  WellFormed is evaluated first so the recursive operators above are
   only applied to finite trees: walk at most Cardinality(dom) levels. *)
RECURSIVE BoundedCount(_, _, _)
BoundedCount(tr, n, fuel) ==
  IF n = 0 THEN 0
  ELSE IF fuel = 0 THEN 1000000
  ELSE LET a == BoundedCount(tr, tr.left[n], fuel - 1) IN
       IF a >= 1000000 THEN a
       ELSE LET b == BoundedCount(tr, tr.right[n], fuel - 1) IN
            IF b >= 1000000 THEN b ELSE 1 + a + b
Finite(tr, dom) == BoundedCount(tr, tr.root, Cardinality(dom)) <= Cardinality(dom)

\* search descent exactly as a_avl_search / a_rbt_search: returns node id or 0
RECURSIVE SearchT(_, _, _)
SearchT(tr, cur, k) ==
  IF cur = 0 THEN 0
  ELSE IF k < cur THEN SearchT(tr, tr.left[cur], k)
  ELSE IF k > cur THEN SearchT(tr, tr.right[cur], k)
  ELSE cur

\* ---- property-level predicates common to both containers
BstOf(tr) == LET s == InOrder(tr, tr.root) IN \A i \in 1..(Len(s) - 1) : s[i] < s[i + 1]
ParentOKOf(tr) ==
  /\ (tr.root # 0 => tr.par[tr.root] = 0)
  /\ \A n \in Nodes(tr, tr.root) : /\ (tr.left[n] # 0 => tr.par[tr.left[n]] = n)
                                    /\ (tr.right[n] # 0 => tr.par[tr.right[n]] = n)
RefinesOf(tr, S) == Nodes(tr, tr.root) = S /\ Size(tr, tr.root) = Cardinality(S)
=============================================================================
