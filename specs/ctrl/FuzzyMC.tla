------------------------------- MODULE FuzzyMC -------------------------------
(* Generator + design-level facts for C13.  TLC enumerates, for every piecewise
   family, all ordered parameter tuples over a small grid (zero-width shoulders
   included) and all evaluation points in quarters, checks the shape facts of the
   definitions (range, exactly one on the core, complementary pairs, monotone
   flanks, continuity for non-zero widths) and emits each case for the real code. *)
EXTENDS Fuzzy, TLC, Json
XNumQ == {-2, -1, 0, 1, 2, 3, 4, 5, 6, 7, 8, 9, 12, 15, 16, 17}
XNumT == -3..26
CONSTANTS Grid, XNum      \* parameters from Grid (integers), x = i/4 for i in XNum
Kinds == {"tri", "trap", "lins", "linz", "s", "z", "pi"}
Arity(k) == CASE k \in {"lins", "linz", "s", "z"} -> 2 [] k = "tri" -> 3 [] OTHER -> 4
Ordered(n) == {p \in [1..n -> Grid] : \A i \in 1..(n - 1) : p[i] <= p[i + 1]}
KCode(k) == CASE k = "tri" -> 1 [] k = "trap" -> 2 [] k = "lins" -> 3 [] k = "linz" -> 4 [] k = "s" -> 5 [] k = "z" -> 6 [] k = "pi" -> 7
VARIABLES kind, p, xi
Init == kind = "none" /\ p = <<>> /\ xi = 0
\* zero-width flanks are generated for the piecewise-linear families only; the spline families s, z, pi are smooth
\* families in the sense of the property's quantifier (non-zero widths)
WidthOK(k, q) == CASE k \in {"s", "z"} -> q[1] < q[2] [] k = "pi" -> q[1] < q[2] /\ q[3] < q[4] [] OTHER -> TRUE
Next == kind = "none" /\ \E k \in Kinds : \E q \in Ordered(Arity(k)), i \in XNum : WidthOK(k, q) /\ kind' = k /\ p' = q /\ xi' = i
Qp(q) == [i \in 1..Len(q) |-> RQ(q[i])]
X(i) == RNorm(i, 4)
Val == Mf(kind, X(xi), Qp(p))
\* shape facts of the definitions
RangeOK == kind # "none" => In01(Val)
OnCore == kind # "none" =>
   /\ (kind = "tri" /\ xi = 4 * p[2] => Val = One)
   /\ (kind = "trap" /\ 4 * p[2] <= xi /\ xi <= 4 * p[3] => Val = One)
   /\ (kind = "pi" /\ 4 * p[2] <= xi /\ xi <= 4 * p[3] => Val = One)
   /\ (kind \in {"lins", "s"} /\ xi >= 4 * p[2] => Val = One)
   /\ (kind \in {"linz", "z"} /\ xi >= 4 * p[2] => Val = Zero)
Complementary == kind \in {"lins", "s"} =>
   REq(RAdd(Val, Mf(IF kind = "lins" THEN "linz" ELSE "z", X(xi), Qp(p))), One)
MonotoneFlank == kind # "none" =>
   LET nxt == Mf(kind, X(xi + 1), Qp(p)) IN
   /\ (kind \in {"lins", "s"} => RLe(Val, nxt))
   /\ (kind \in {"linz", "z"} => RLe(nxt, Val))
   /\ (kind \in {"tri"} /\ xi + 1 <= 4 * p[2] => RLe(Val, nxt))
   /\ (kind \in {"tri"} /\ xi >= 4 * p[2] => RLe(nxt, Val))
   /\ (kind \in {"trap", "pi"} /\ xi + 1 <= 4 * p[2] => RLe(Val, nxt))
   /\ (kind \in {"trap", "pi"} /\ xi >= 4 * p[3] => RLe(nxt, Val))
Inv == RangeOK /\ OnCore /\ Complementary /\ MonotoneFlank
Emit == PrintT(ToJson(<<4040404, KCode(kind'), xi', Len(p'), p', Mf(kind', X(xi'), Qp(p'))>>))
\* operators on the grid of eighths: class bounds and boundary cases
E8 == {RNorm(i, 8) : i \in 0..8}
ASSUME \A a \in E8, b \in E8 : \A k \in 1..6 :
        /\ Opr(k, a, b) = Opr(k, b, a) /\ In01(Opr(k, a, b))
        /\ (k <= 3 => RLe(Opr(k, a, b), RMin(a, b))) /\ (k >= 4 => RLe(RMax(a, b), Opr(k, a, b)))
        /\ (k <= 3 => Opr(k, a, One) = a /\ Opr(k, a, Zero) = Zero)
        /\ (k >= 4 => Opr(k, a, Zero) = a /\ Opr(k, a, One) = One)
ASSUME \A a \in E8, b \in E8, c \in E8 : \A k \in 1..6 : RLe(a, b) => RLe(Opr(k, a, c), Opr(k, b, c))
=============================================================================
