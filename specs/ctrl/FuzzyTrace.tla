------------------------------ MODULE FuzzyTrace ------------------------------
(* Judges the real membership functions, fuzzy operators, the gain scheduling of
   the fuzzy PID controller and the limit / reset behaviour of the fuzzy and
   single-neuron controllers (harness/fuzzy_h.c).
   Exact rational expectations (Fuzzy) are compared with logged values that are
   either exact dyadics or 2^-16 fixed-point approximations (Near: within 2^-13);
   smooth families and the irrational operator are judged relationally on
   order-preserving codes of the doubles.                                     *)
EXTENDS Fuzzy, Json, IOUtils, TLC
VARIABLE l
Tr == ndJsonDeserialize(IOEnv.TRACE)
Qp(q) == [i \in 1..Len(q) |-> RQ(q[i])]
Fin(c) == c[1] \in {-1, 0, 1}
NonDecr(s, i, j) == \A k \in i..(j - 1) : DLe(s[k], s[k + 1])
NonIncr(s, i, j) == \A k \in i..(j - 1) : DLe(s[k + 1], s[k])
All01(s) == \A k \in 1..Len(s) : Fin(s[k]) /\ DLe(DZero, s[k]) /\ DLe(s[k], DOne)
Sets3 == << <<RQ(-4), RQ(-2), RQ(0)>>, <<RQ(-2), RQ(0), RQ(2)>>, <<RQ(0), RQ(2), RQ(4)>> >>
MKP == << <<1, 2, 3>>, <<2, 4, -1>>, <<0, -2, 5>> >>
MKI == << <<0, 1, 0>>, <<1, 2, 1>>, <<0, 1, 3>> >>
MKD == << <<2, 0, -2>>, <<0, 1, 0>>, <<-2, 0, 2>> >>
Tol == RNorm(1, 8192)
MinOf(S) == CHOOSE m \in S : \A x \in S : m <= x
MaxOf(S) == CHOOSE m \in S : \A x \in S : m >= x
\* gain = base + weighted mean of the consequents of the active rules
\* results in the default width are exact dyadics or 2^-16 approximations; in the float / long double builds every
\* result is compared within 2^-13 (a float is always a short dyadic, exact or not)
NearW(w, d, r) == IF w = 8 THEN Near(d, r) ELSE NearTol(d, r)
GainOK(w, k, e, ec, mk, base, logged) ==
  LET \* rules that fire: both sets active and (for the six rational operators) a non-zero joint membership
      firing == {pr \in Pairs(e, ec, Sets3) : IF k \in 1..6 THEN Joint(k, e, ec, Sets3, pr[1], pr[2])[1] > 0 ELSE TRUE}
      act == {mk[pr[1]][pr[2]] : pr \in firing}
      val == RVal(logged) IN
  /\ logged[2] >= 0
  /\ (IF act = {} THEN NearW(w, logged, RQ(base))
      ELSE /\ RLe(RSub(RQ(base + MinOf(act)), Tol), val) /\ RLe(val, RAdd(RQ(base + MaxOf(act)), Tol))     \* between smallest and largest consequent
           /\ (k \in 1..6 => NearW(w, logged, RAdd(RQ(base), GainDelta(k, e, ec, Sets3, mk)))))

\* the same rule stated over the memberships mue[i], muec[j] reported for each table entry (any kind of set):
\* a set is active when its membership exceeds machine epsilon (logged as 0 otherwise)
GainOKm(w, k, mue, muec, mk, base, logged) ==
  LET n == Len(mue)
      J(i, j) == Opr(k, RDy(mue[i]), RDy(muec[j]))
      firing == {pr \in (1..n) \X (1..n) : mue[pr[1]][1] > 0 /\ muec[pr[2]][1] > 0 /\ (k \in 1..6 => J(pr[1], pr[2])[1] > 0)}
      ps == SetToSeq(firing)
      den == RSum([i \in 1..Len(ps) |-> J(ps[i][1], ps[i][2])], 1)
      num == RSum([i \in 1..Len(ps) |-> RMul(J(ps[i][1], ps[i][2]), RQ(mk[ps[i][1]][ps[i][2]]))], 1)
      act == {mk[pr[1]][pr[2]] : pr \in firing}
      val == RVal(logged)
      \* candidate rules: both sets active.  With a single candidate the weighted mean is that rule's consequent whatever
      \* the size of its joint membership (which may be far below machine epsilon: no product is formed here); the joint
      \* membership of two positive grades is positive for every operator except the bounded product max(0, a + b - 1)
      cand == {pr \in (1..n) \X (1..n) : mue[pr[1]][1] > 0 /\ muec[pr[2]][1] > 0}
      one == CHOOSE pr \in cand : TRUE
      onePos == k # 3 \/ RLt(One, RAdd(RDy(mue[one[1]]), RDy(muec[one[2]]))) IN
  /\ logged[2] >= 0
  /\ \A i \in 1..n : mue[i][2] >= 0 /\ muec[i][2] >= 0                     \* memberships at the chosen points are exact dyadics
  /\ IF Cardinality(cand) = 1
     THEN NearW(w, logged, RQ(IF onePos THEN base + mk[one[1]][one[2]] ELSE base))
     ELSE (IF act = {} THEN NearW(w, logged, RQ(base))
           ELSE /\ RLe(RSub(RQ(base + MinOf(act)), Tol), val) /\ RLe(val, RAdd(RQ(base + MaxOf(act)), Tol))
                /\ (k \in 1..6 => NearW(w, logged, RAdd(RQ(base), RDiv(num, den)))))

RECURSIVE StepsOK(_, _, _, _)
StepsOK(e, i, preverr, k) ==
  IF i > Len(e.steps) THEN TRUE
  ELSE LET s == e.steps[i]  err == RSub(RDy(s.set), RDy(s.fdb))  ec == RSub(err, preverr) IN
       /\ GainOK(e.width, k, err, ec, MKP, e.base[1], s.kp) /\ GainOK(e.width, k, err, ec, MKI, e.base[2], s.ki) /\ GainOK(e.width, k, err, ec, MKD, e.base[3], s.kd)
       /\ Fin(s.out) /\ Fin(s.sum)
       /\ DLe(e.lim_codes[1], s.out) /\ DLe(s.out, e.lim_codes[2])                \* output within the configured limits
       /\ StepsOK(e, i + 1, err, k)

RECURSIVE NeuroOK(_, _, _, _, _)
NeuroOK(e, i, uprev, eprev, xpprev) ==
  IF i > Len(e.steps) THEN TRUE
  ELSE LET s == e.steps[i]
           err == RSub(RDy(s.set), RDy(s.fdb))  xp == RSub(err, eprev)  xd == RSub(xp, xpprev)
           wp == RDy(e.w[1])  wi == RDy(e.w[2])  wd == RDy(e.w[3])
           norm == RAdd(RAbs(wp), RAdd(RAbs(wi), RAbs(wd)))
           inc == RDiv(RMul(RDy(e.k), RAdd(RMul(wp, xp), RAdd(RMul(wi, err), RMul(wd, xd)))), norm)
           u == RMax(RQ(e.lim[1]), RMin(RQ(e.lim[2]), RAdd(uprev, inc))) IN
       /\ s.out[2] >= 0 /\ REq(RDy(s.out), u)
       /\ s.w = e.w
       /\ NeuroOK(e, i + 1, u, err, xp)

\* single-neuron controller with learning on; integers: u, w in units of 1/256 (rounded), errors in halves (e2 = 2 e),
\* learning rates 2^-sh[j].  One step is re-derived from the logged values of the step before, within the rounding:
\*   (w(k) - w(k-1)) 2^(sh+2)  =  e2(k) u(k-1) x2(k-1)                      (x2 = 2 x, the inputs after the previous step)
\*   2 (u(k) - u(k-1)) norm(k)  =  256 (wp xp2 + wi e2 + wd xd2)(k)          while the output is strictly inside its limits
RECURSIVE LearnOK(_, _, _, _, _, _, _)
LearnOK(e, i, uprev, wprev, e2prev, xp2prev, xd2prev) ==
  IF i > Len(e.steps) THEN TRUE
  ELSE LET s == e.steps[i]
           xp2 == s.e2 - e2prev  xd2 == xp2 - xp2prev
           xs == <<xp2prev, e2prev, xd2prev>>                     \* what the learning step sees
           xk == <<xp2, s.e2, xd2>>                               \* what the output step sees
           norm == AbsI(s.w[1]) + AbsI(s.w[2]) + AbsI(s.w[3])
           num == s.w[1] * xk[1] + s.w[2] * xk[2] + s.w[3] * xk[3]
           du == s.u - uprev
           sumx == AbsI(xk[1]) + AbsI(xk[2]) + AbsI(xk[3])
           L == e.lim * 256 IN
       /\ \A j \in 1..3 :
             AbsI((s.w[j] - wprev[j]) * (2 ^ (e.sh[j] + 2)) - s.e2 * uprev * xs[j]) <= 3 * (2 ^ (e.sh[j] + 2)) + AbsI(s.e2 * xs[j])
       /\ s.u >= -L /\ s.u <= L
       /\ ((s.u > -L + 2 /\ s.u < L - 2 /\ norm > 8) =>
             AbsI(2 * du * norm - 256 * num) <= 2 * (2 * norm + 3 * AbsI(du) + 128 * sumx) + 64)
       /\ LearnOK(e, i + 1, s.u, s.w, s.e2, xp2, xd2)

Accept(e) ==
  CASE e.f = "mf" ->
         LET want == Mf(e.kind, RNorm(e.xi, 4), Qp(e.p)) IN
         /\ Near(e.y, want) /\ Near(e.disp, want) /\ e.y = e.disp          \* documented shape; dispatcher = specific function
         /\ In01(RVal(e.y))
    [] e.f = "opr" ->
         LET a == RNorm(e.a, 8)  b == RNorm(e.b, 8) IN
         /\ \A k \in 1..6 : e.r[k][2] >= 0 /\ REq(RDy(e.r[k]), Opr(k, a, b))
         /\ REq(RDy(e.not), RSub(One, a))
         /\ All01(<<e.equ>>) /\ e.equ = e.equ_swapped /\ DLe(e.equ, e.equ_next_a)     \* in range, commutative, monotone
         /\ ((e.a = 0 \/ e.b = 0) => e.equ = DZero) /\ ((e.a = 8 /\ e.b = 8) => e.equ = DOne)
         \* weighted form: the algebraic product at weight 0, the algebraic sum at weight 1, non-decreasing in the weight
         /\ NearTol(e.equg[1], Opr(2, a, b)) /\ NearTol(e.equg[2], Opr(5, a, b))
         /\ All01(e.equg_mid) /\ NonDecr(e.equg_mid, 1, 5)
    [] e.f = "sweep" ->
         /\ e.disp = e.ys
         /\ (e.kind \in {"gauss", "gauss2", "gbell", "sig", "psig", "dsig"} => All01(e.ys))
         /\ (e.kind \in {"gauss", "gauss2", "gbell"} =>
               /\ NonDecr(e.ys, 1, e.peak[1]) /\ NonIncr(e.ys, e.peak[2], Len(e.ys))
               /\ \A k \in e.peak[1]..e.peak[2] : e.ys[k] = DOne)                      \* exactly one on the core
         /\ (e.kind = "sig" => IF e.peak[1] = 41 THEN NonDecr(e.ys, 1, 41) ELSE NonIncr(e.ys, 1, 41))
    [] e.f = "fpid" ->
         /\ StepsOK(e, 1, Zero, e.opr)
         /\ e.outs = e.outs_after_zero                                               \* zeroing = freshly initialised
         /\ e.canary = 1                                                             \* scratch buffer of the documented size not overrun
    [] e.f = "fpidk" ->
         /\ \A i \in 1..Len(e.steps) :
               LET s == e.steps[i] IN
               /\ GainOKm(e.width, e.opr, s.mue, s.muec, MKP, e.base[1], s.kp) /\ GainOKm(e.width, e.opr, s.mue, s.muec, MKI, e.base[2], s.ki)
               /\ GainOKm(e.width, e.opr, s.mue, s.muec, MKD, e.base[3], s.kd)
               /\ Fin(s.out) /\ DLe(e.lim_codes[1], s.out) /\ DLe(s.out, e.lim_codes[2])
         /\ e.canary = 1
    [] e.f = "npid" ->
         /\ \A i \in 1..Len(e.outs) : Fin(e.outs[i]) /\ DLe(e.lim_codes[1], e.outs[i]) /\ DLe(e.outs[i], e.lim_codes[2])
         /\ \A i \in 1..Len(e.weights) : \A j \in 1..3 : Fin(e.weights[i][j])
         /\ e.outs_after_zero = e.outs_fresh
    \* single-neuron controller, learning rates zero: the documented output equation, exactly
    \*   u(k) = clamp(u(k-1) + K (wp xp + wi xi + wd xd) / (|wp| + |wi| + |wd|)),
    \*   xi = e(k), xp = e(k) - e(k-1), xd = e(k) - 2 e(k-1) + e(k-2); the weights do not move
    [] e.f = "npidx" -> NeuroOK(e, 1, Zero, Zero, Zero)
    [] e.f = "npidl" -> /\ \A i \in 1..Len(e.steps) : e.steps[i].u >= -(e.lim * 256) /\ e.steps[i].u <= e.lim * 256   \* output limits, always
                        /\ (e.inrange = 1 => LearnOK(e, 1, 0, e.w0, 0, 0, 0))                                    \* weights inside the logging range
    [] OTHER -> FALSE

TraceInit == l = 1
Step == /\ l <= Len(Tr)
        /\ (IF Accept(Tr[l]) = TRUE THEN TRUE ELSE PrintT(<<"TRACE-BAD", l>>))
        /\ l' = l + 1
TraceNext == Step
TraceAccepted == LET d == TLCGet("stats").diameter IN
                 IF d - 1 = Len(Tr) THEN TRUE ELSE Print(<<"TRACE-POS", d, "of", Len(Tr)>>, FALSE)
=============================================================================
