------------------------------- MODULE PidTrace -------------------------------
(* Trace specification for a_pid: each event is one call with the complete
   controller state before and after (exact integers logged as dyadics [n,k]).
   TLC recomputes the step with the operators of Pid from the LOGGED previous
   state (values do not grow inside the model) and checks on the real post-state:
   the difference equations, output within limits, the integrator never moving
   further beyond its clamp, zeroing = fresh state; chained events continue from
   the previous post-state.                                                   *)
EXTENDS Pid, Json, IOUtils
VARIABLE l
Tr == ndJsonDeserialize(IOEnv.TRACE)
IntOf(d) == IF d[2] = 0 THEN d[1] ELSE 1000000000      \* only integers occur; anything else is rejected below
IsInt(d) == d[2] = 0
ToSt(s) == [sum |-> IntOf(s[1]), out |-> IntOf(s[2]), var |-> IntOf(s[3]), fdb |-> IntOf(s[4]), err |-> IntOf(s[5])]
ToPar(p) == [kp |-> IntOf(p[1]), ki |-> IntOf(p[2]), kd |-> IntOf(p[3]), summin |-> IntOf(p[4]), summax |-> IntOf(p[5]), outmin |-> IntOf(p[6]), outmax |-> IntOf(p[7])]

Accept(e, cur) ==
  LET p == ToPar(e.par)  a == ToSt(e.pre)  b == ToSt(e.post)  set == IntOf(e.set)  f == IntOf(e.fdb) IN
  /\ \A i \in 1..5 : IsInt(e.pre[i]) /\ IsInt(e.post[i])
  /\ (e.chain = 1 => a = cur)
  /\ CASE e.op = "run" -> b = RunF(p, a, set, f) /\ IntOf(e.ret) = b.out
       [] e.op = "pos" -> /\ b = PosF(p, a, set, f) /\ IntOf(e.ret) = b.out
                          /\ (a.sum >= p.summax => b.sum <= a.sum) /\ (a.sum <= p.summin => b.sum >= a.sum)
       [] e.op = "inc" -> b = IncF(p, a, set, f) /\ IntOf(e.ret) = b.out
       [] e.op = "zero" -> b = Zero0
       [] OTHER -> FALSE
  /\ (e.op # "zero" => (p.outmin <= b.out /\ b.out <= p.outmax))

TraceInit == /\ par = [kp |-> 0] /\ st = Zero0 /\ pp = Zero0 /\ ii = Zero0 /\ clean = TRUE /\ steps = 0
             /\ last = [op |-> "init"] /\ l = 1
Step2 == /\ l <= Len(Tr)
         /\ (IF Accept(Tr[l], st) = TRUE THEN TRUE ELSE PrintT(<<"TRACE-BAD", l>>))
         /\ st' = ToSt(Tr[l].post)
         /\ l' = l + 1 /\ UNCHANGED <<par, pp, ii, clean, steps, last>>
TraceNext == Step2
TraceAccepted == LET d == TLCGet("stats").diameter IN
                 IF d - 1 = Len(Tr) THEN TRUE ELSE Print(<<"TRACE-POS", d, "of", Len(Tr)>>, FALSE)
=============================================================================
