CONSTANTS Coefs = {} Inputs = {} MaxOrder = 0 HistLen = 0 Alphas = {}
INIT TraceInit
NEXT TraceNext
POSTCONDITION TraceAccepted
CHECK_DEADLOCK FALSE
