---------------------------- MODULE FiltersTrace ----------------------------
(* Judges what the real a_tf / a_lpf / a_hpf produced (harness/filt_h.c).  Values
   are exact dyadic rationals [n, k] = n/2^k (the harness flags anything else as
   [0,-1], which is rejected: with small integer data every value is exact).  *)
EXTENDS Filters, Json, IOUtils
VARIABLE l
Tr == ndJsonDeserialize(IOEnv.TRACE)
Exact(d) == d[2] >= 0
AllExact(s) == \A i \in 1..Len(s) : Exact(s[i])
Rs(s) == [i \in 1..Len(s) |-> RDy(s[i])]
Qs(s) == [i \in 1..Len(s) |-> RQ(s[i])]
SameR(a, b) == Len(a) = Len(b) /\ \A i \in 1..Len(a) : REq(a[i], b[i])

Accept(e) ==
  CASE e.f = "tf" ->
         LET def == Qs(TfDef(e.num, e.den, e.x)) IN
         /\ AllExact(e.y) /\ AllExact(e.y2) /\ AllExact(e.shift) /\ AllExact(e.scaled)
         /\ SameR(Rs(e.y), def)                                   \* the difference equation, from zero state
         /\ SameR(Rs(e.y2), def)                                  \* zeroing restores the initial state
         /\ SameR(Rs(e.shift), <<RQ(0)>> \o def)                  \* time invariance
         /\ SameR(Rs(e.scaled), [i \in 1..Len(def) |-> RMul(RQ(3), def[i])])     \* homogeneity
         /\ e.guards = 1                                          \* nothing written behind the delay lines
    [] e.f = "lpf" ->
         LET al == RNorm(e.a, 8)  def == LpfRun(al, RQ(0), Qs(e.x), 1)  y == Rs(e.y) IN
         /\ AllExact(e.y) /\ SameR(y, def)
         /\ InRangeSoFar(y, e.x)                                  \* convex combination: within the range of {0} and the inputs so far
         /\ Exact(e.after_zero) /\ REq(RDy(e.after_zero), def[1])
    [] e.f = "hpf" ->
         LET al == RNorm(e.a, 8)  def == HpfRun(al, <<RQ(0), RQ(0)>>, Qs(e.x), 1) IN
         /\ AllExact(e.y) /\ SameR(Rs(e.y), def)
         /\ Exact(e.after_zero) /\ REq(RDy(e.after_zero), def[1])
    [] e.f = "settle" ->
         LET lp == Rs(e.lpf)  hp == Rs(e.hpf)  c == RQ(e.c) IN
         /\ AllExact(e.lpf) /\ AllExact(e.hpf)
         \* low-pass: the distance to a constant input never grows; for 0 < alpha it shrinks strictly while non-zero
         /\ \A i \in 1..(Len(lp) - 1) : RLe(RAbs(RSub(c, lp[i + 1])), RAbs(RSub(c, lp[i])))
         /\ (e.a > 0 => \A i \in 1..(Len(lp) - 1) : RSub(c, lp[i])[1] # 0 => RLt(RAbs(RSub(c, lp[i + 1])), RAbs(RSub(c, lp[i]))))
         \* high-pass: magnitude shrinks by alpha per step on a constant input
         /\ \A i \in 1..(Len(hp) - 1) : REq(hp[i + 1], RMul(RNorm(e.a, 8), hp[i]))
    [] e.f = "lpf_big" ->
         \* order-coded doubles: finite, inside the range of {0} and the inputs so far; exact pass-through / hold at the ends
         \A i \in 1..Len(e.y) :
            LET cand == {DZero} \cup {e.x[j] : j \in 1..i}
                lo == CHOOSE m \in cand : \A c \in cand : DLe(m, c)
                hi == CHOOSE m \in cand : \A c \in cand : DLe(c, m) IN
            /\ e.y[i][1] \in {-1, 0, 1}
            /\ DLe(lo, e.y[i]) /\ DLe(e.y[i], hi)
            /\ (e.a4 = 4 => e.y[i] = e.x[i])
            /\ (e.a4 = 0 => e.y[i][1] = 0)
    [] e.f = "gen" ->
         /\ e.lpf[1] \in {0, 1} /\ e.hpf[1] \in {0, 1}            \* finite and not negative
         /\ DLe(DZero, e.lpf) /\ DLe(e.lpf, DOne) /\ DLe(DZero, e.hpf) /\ DLe(e.hpf, DOne)
         /\ ((e.e >= -12 /\ e.e <= 12) => (DLt(DZero, e.lpf) /\ DLt(e.lpf, DOne) /\ DLt(DZero, e.hpf) /\ DLt(e.hpf, DOne)))
         \* the macro spellings (with compound expressions as arguments) give the same coefficient as the functions, state zeroed
         /\ \A i \in 1..3 : e.lpf_macro[i] = (IF i = 3 THEN e.lpf ELSE e.lpf_ref) /\ e.hpf_macro[i] = (IF i = 3 THEN e.hpf ELSE e.hpf_ref)
         /\ e.zeroed = 1
    [] OTHER -> FALSE

TraceInit == num = <<>> /\ den = <<>> /\ hist = <<>> /\ l = 1
Step == /\ l <= Len(Tr)
        /\ (IF Accept(Tr[l]) = TRUE THEN TRUE ELSE PrintT(<<"TRACE-BAD", l>>))
        /\ l' = l + 1 /\ UNCHANGED vars
TraceNext == Step
TraceAccepted == LET d == TLCGet("stats").diameter IN
                 IF d - 1 = Len(Tr) THEN TRUE ELSE Print(<<"TRACE-POS", d, "of", Len(Tr)>>, FALSE)
=============================================================================
