CONSTANTS ParamSets = {} InVals = {} MaxSteps = 0
INIT TraceInit
NEXT TraceNext
POSTCONDITION TraceAccepted
CHECK_DEADLOCK FALSE
