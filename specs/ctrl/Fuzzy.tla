-------------------------------- MODULE Fuzzy --------------------------------
(* Membership functions (src/mf.c), fuzzy operators (include/a/fuzzy.h) and the
   gain scheduling of the fuzzy PID controller (src/pid_fuzzy.c) - C13 and the
   fuzzy part of C12 - over exact rationals.
   Piecewise families are given by their mathematical definition, including
   zero-width shoulders: at a zero-width flank the function takes the value of
   its core side (1 on the core).                                            *)
EXTENDS Integers, Sequences, FiniteSets, SequencesExt, Rational
Sq(r) == RMul(r, r)
Two == RQ(2)
One == RQ(1)
Zero == RQ(0)
\* parameters are rationals; p = parameter sequence
Tri(x, a, b, c) == IF REq(x, b) THEN One
                   ELSE IF RLt(x, b) THEN (IF RLe(x, a) THEN Zero ELSE RDiv(RSub(x, a), RSub(b, a)))
                   ELSE (IF RLe(c, x) THEN Zero ELSE RDiv(RSub(c, x), RSub(c, b)))
Trap(x, a, b, c, d) == IF RLe(b, x) /\ RLe(x, c) THEN One
                       ELSE IF RLt(x, b) THEN (IF RLe(x, a) THEN Zero ELSE RDiv(RSub(x, a), RSub(b, a)))
                       ELSE (IF RLe(d, x) THEN Zero ELSE RDiv(RSub(d, x), RSub(d, c)))
Lins(x, a, b) == IF RLt(x, a) THEN Zero ELSE IF RLe(b, x) THEN One ELSE RDiv(RSub(x, a), RSub(b, a))
Linz(x, a, b) == IF RLt(x, a) THEN One ELSE IF RLe(b, x) THEN Zero ELSE RDiv(RSub(b, x), RSub(b, a))
Mid(a, b) == RDiv(RAdd(a, b), Two)
SF(x, a, b) == IF RLe(x, a) THEN Zero ELSE IF RLe(b, x) THEN One
               ELSE IF RLe(x, Mid(a, b)) THEN RMul(Two, Sq(RDiv(RSub(x, a), RSub(b, a))))
               ELSE RSub(One, RMul(Two, Sq(RDiv(RSub(b, x), RSub(b, a)))))
ZF(x, a, b) == RSub(One, SF(x, a, b))
PiF(x, a, b, c, d) == IF RLt(x, b) THEN SF(x, a, b) ELSE IF RLt(c, x) THEN ZF(x, c, d) ELSE One
Mf(kind, x, p) == CASE kind = "tri" -> Tri(x, p[1], p[2], p[3])
                    [] kind = "trap" -> Trap(x, p[1], p[2], p[3], p[4])
                    [] kind = "lins" -> Lins(x, p[1], p[2])
                    [] kind = "linz" -> Linz(x, p[1], p[2])
                    [] kind = "s" -> SF(x, p[1], p[2])
                    [] kind = "z" -> ZF(x, p[1], p[2])
                    [] kind = "pi" -> PiF(x, p[1], p[2], p[3], p[4])
In01(r) == RLe(Zero, r) /\ RLe(r, One)
\* ---- operators
Cap(a, b) == RMin(a, b)
CapAlg(a, b) == RMul(a, b)
CapBnd(a, b) == RMax(RSub(RAdd(a, b), One), Zero)
Cup(a, b) == RMax(a, b)
CupAlg(a, b) == RSub(RAdd(a, b), RMul(a, b))
CupBnd(a, b) == RMin(One, RAdd(a, b))
Opr(k, a, b) == CASE k = 1 -> Cap(a, b) [] k = 2 -> CapAlg(a, b) [] k = 3 -> CapBnd(a, b)
                  [] k = 4 -> Cup(a, b) [] k = 5 -> CupAlg(a, b) [] k = 6 -> CupBnd(a, b)
\* ---- gain scheduling: rule base of order n, input sets = triangles given by parameter triples
\* returns <<sum of joint memberships, weighted sum of consequents>> over the active rules
ActiveIdx(x, sets) == {i \in 1..Len(sets) : Tri(x, sets[i][1], sets[i][2], sets[i][3])[1] > 0}
Joint(k, e, ec, sets, i, j) == Opr(k, Tri(e, sets[i][1], sets[i][2], sets[i][3]), Tri(ec, sets[j][1], sets[j][2], sets[j][3]))
Pairs(e, ec, sets) == ActiveIdx(e, sets) \X ActiveIdx(ec, sets)
PairSeq(e, ec, sets) == SetToSeq(Pairs(e, ec, sets))
Denom(k, e, ec, sets) == LET ps == PairSeq(e, ec, sets) IN RSum([i \in 1..Len(ps) |-> Joint(k, e, ec, sets, ps[i][1], ps[i][2])], 1)
Numer(k, e, ec, sets, mk) == LET ps == PairSeq(e, ec, sets) IN
   RSum([i \in 1..Len(ps) |-> RMul(Joint(k, e, ec, sets, ps[i][1], ps[i][2]), RQ(mk[ps[i][1]][ps[i][2]]))], 1)
\* scheduled increment of a gain; 0 (base gain) when no rule fires
GainDelta(k, e, ec, sets, mk) == LET d == Denom(k, e, ec, sets) IN IF d[1] = 0 THEN Zero ELSE RDiv(Numer(k, e, ec, sets, mk), d)
Consequents(e, ec, sets, mk) == {mk[pr[1]][pr[2]] : pr \in Pairs(e, ec, sets)}
=============================================================================
