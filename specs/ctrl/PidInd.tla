------------------------------- MODULE PidInd -------------------------------
(* The two unbounded claims of C12 about the positional controller are one-step
   facts that hold from an ARBITRARY state: Apalache checks the action invariant
   ActInv over unbounded integers (all gains with ki >= 0, all limits with
   summin <= 0 <= summax and outmin <= outmax, all states, all inputs).        *)
EXTENDS Integers
CONSTANTS
  \* @type: Int;
  kp,
  \* @type: Int;
  ki,
  \* @type: Int;
  kd,
  \* @type: Int;
  summin,
  \* @type: Int;
  summax,
  \* @type: Int;
  outmin,
  \* @type: Int;
  outmax
VARIABLES
  \* @type: Int;
  sum,
  \* @type: Int;
  out,
  \* @type: Int;
  fdb,
  \* @type: Int;
  err
ConstInit == /\ kp \in Int /\ ki \in Int /\ kd \in Int /\ ki >= 0
             /\ summin \in Int /\ summax \in Int /\ summin <= 0 /\ 0 <= summax
             /\ outmin \in Int /\ outmax \in Int /\ outmin <= outmax
Sat(x, lo, hi) == IF lo < x THEN (IF x < hi THEN x ELSE hi) ELSE lo
InitAny == sum \in Int /\ out \in Int /\ fdb \in Int /\ err \in Int
Pos(set, f) ==
  LET e == set - f
      var == fdb - f
      integ == (sum > summin /\ sum < summax) \/ sum * e < 0
      s2 == IF integ THEN sum + ki * e ELSE sum
  IN /\ sum' = s2
     /\ out' = Sat(kp * e + s2 + kd * var, outmin, outmax)
     /\ fdb' = f /\ err' = e
Next == \E set \in Int, f \in Int : Pos(set, f)
ActInv == /\ (sum >= summax => sum' <= sum) /\ (sum <= summin => sum' >= sum)
          /\ outmin <= out' /\ out' <= outmax
=============================================================================
