--------------------------------- MODULE Pid ---------------------------------
(* The PID controller a_pid (src/pid.c): state (sum, out, var, fdb, err),
   parameters (kp, ki, kd, summin, summax, outmin, outmax).  Over integers every
   operation of the code is exact in double arithmetic, so the model's values
   are the code's values.  Actions: Run (open loop: saturated set-point), Pos
   (positional form with conditional integration), Inc (incremental form), Zero.
   Besides the controller under test (st, any mix of operations) two shadow
   controllers are fed the same inputs, pp always through the positional form and
   ii always through the incremental form, so that "positional and incremental
   outputs coincide for as long as no limit is active" is a state invariant.                                                     *)
EXTENDS Integers, Sequences, TLC
CONSTANTS ParamSets,     \* set of parameter records
          InVals, MaxSteps
VARIABLES par, st, pp, ii, clean, steps, last
vars == <<par, st, pp, ii, clean, steps, last>>
view == <<par, st, pp, ii, clean, steps>>

Sat(x, lo, hi) == IF lo < x THEN (IF x < hi THEN x ELSE hi) ELSE lo        \* A_SAT
Zero0 == [sum |-> 0, out |-> 0, var |-> 0, fdb |-> 0, err |-> 0]

RunF(p, s, set, f) == [sum |-> s.sum, out |-> Sat(set, p.outmin, p.outmax), var |-> s.fdb - f, fdb |-> f, err |-> set - f]
Integrates(p, s, e) == (s.sum > p.summin /\ s.sum < p.summax) \/ s.sum * e < 0
PosF(p, s, set, f) ==
  LET e == set - f  v == s.fdb - f
      sum2 == IF Integrates(p, s, e) THEN s.sum + p.ki * e ELSE s.sum
  IN [sum |-> sum2, out |-> Sat(p.kp * e + sum2 + p.kd * v, p.outmin, p.outmax), var |-> v, fdb |-> f, err |-> e]
IncF(p, s, set, f) ==
  LET e == set - f  v == s.fdb - f
  IN [sum |-> s.sum, out |-> Sat(s.out + p.kp * (e - s.err) + p.ki * e + p.kd * (v - s.var), p.outmin, p.outmax), var |-> v, fdb |-> f, err |-> e]
\* was any limit (output clamp, integrator clamp or the conditional-integration rule) active in this step?
PosUnclamped(p, s, set, f) == LET e == set - f  v == s.fdb - f  sum2 == s.sum + p.ki * e  raw == p.kp * e + sum2 + p.kd * v IN
                              Integrates(p, s, e) /\ raw > p.outmin /\ raw < p.outmax
IncUnclamped(p, s, set, f) == LET e == set - f  v == s.fdb - f  raw == s.out + p.kp * (e - s.err) + p.ki * e + p.kd * (v - s.var) IN
                              raw > p.outmin /\ raw < p.outmax

Init == par \in ParamSets /\ st = Zero0 /\ pp = Zero0 /\ ii = Zero0 /\ clean = TRUE /\ steps = 0
        /\ last = [op |-> "init", set |-> 0, fdb |-> 0, pre |-> Zero0]
Step(op, set, f) ==
  /\ steps < MaxSteps /\ steps' = steps + 1 /\ UNCHANGED par
  /\ last' = [op |-> op, set |-> set, fdb |-> f, pre |-> st]
  /\ st' = (CASE op = "run" -> RunF(par, st, set, f) [] op = "pos" -> PosF(par, st, set, f) [] op = "inc" -> IncF(par, st, set, f))
  /\ IF op = "run" THEN pp' = RunF(par, pp, set, f) /\ ii' = RunF(par, ii, set, f) /\ clean' = FALSE
     ELSE /\ pp' = PosF(par, pp, set, f) /\ ii' = IncF(par, ii, set, f)
          /\ clean' = (clean /\ PosUnclamped(par, pp, set, f) /\ IncUnclamped(par, ii, set, f))
ZeroA == /\ steps < MaxSteps /\ steps' = steps + 1 /\ UNCHANGED par
         /\ st' = Zero0 /\ pp' = Zero0 /\ ii' = Zero0 /\ clean' = TRUE
         /\ last' = [op |-> "zero", set |-> 0, fdb |-> 0, pre |-> st]
Next == (\E op \in {"run", "pos", "inc"}, set \in InVals, f \in InVals : Step(op, set, f)) \/ ZeroA
Spec == Init /\ [][Next]_vars

\* ---- property C12 (plain controller)
OutInLimits == (st # Zero0 \/ steps > 0) => (last.op \in {"init", "zero"} \/ (par.outmin <= st.out /\ st.out <= par.outmax))
\* once outside its clamp the integrator never moves further out
IntegratorBounded == last.op = "pos" =>
   /\ (last.pre.sum >= par.summax => st.sum <= last.pre.sum)
   /\ (last.pre.sum <= par.summin => st.sum >= last.pre.sum)
\* ... so it overshoots a clamp by at most one increment
OvershootOneIncrement == /\ (st.sum > par.summax => st.sum - par.summax <= (IF st.err * par.ki < 0 THEN -st.err * par.ki ELSE st.err * par.ki) \/ last.op # "pos")
\* both forms give the same output for as long as no limit has been active since the last zeroing
PosEqualsInc == clean => pp.out = ii.out
\* zeroing makes the controller behave as freshly initialised
ZeroIsFresh == last.op = "zero" => st = Zero0
Inv == OutInLimits /\ IntegratorBounded /\ PosEqualsInc /\ ZeroIsFresh
=============================================================================
