------------------------------- MODULE Filters -------------------------------
(* Discrete transfer function a_tf (src/tf.c) and the first-order RC filters
   a_lpf / a_hpf (include/a/lpf.h, hpf.h) - property C16.
   Definition of the transfer function over the FULL input history (ghost):
     y[n] = sum_{i < num_n} num[i] * x[n-i]  -  sum_{i < den_n} den[i] * y[n-1-i]
   with x, y = 0 before the start.  The implementation-shaped layer keeps two
   delay lines (most recent first) exactly as the code does; TLC checks that both
   agree on every history, that the response is linear and time-invariant, and
   that zeroing restores the initial state.  Coefficients and inputs are small
   integers, so every value is an exact integer (also in double arithmetic).  *)
EXTENDS Integers, Sequences, FiniteSets, TLC, Rational
\* ---- transfer function
RECURSIVE TfOut(_, _, _, _)
\* outputs for input sequence x (1-based, oldest first), computed from the definition
Xat(x, k) == IF k >= 1 /\ k <= Len(x) THEN x[k] ELSE 0
RECURSIVE SumNum(_, _, _, _)
SumNum(num, x, n, i) == IF i > Len(num) THEN 0 ELSE num[i] * Xat(x, n - (i - 1)) + SumNum(num, x, n, i + 1)
RECURSIVE SumDen(_, _, _, _)
SumDen(den, y, n, i) == IF i > Len(den) THEN 0 ELSE den[i] * Xat(y, n - i) + SumDen(den, y, n, i + 1)
TfOut(num, den, x, n) == IF n = 0 THEN <<>> ELSE
  LET y == TfOut(num, den, x, n - 1) IN Append(y, SumNum(num, x, n, 1) - SumDen(den, y, n, 1))
TfDef(num, den, x) == TfOut(num, den, x, Len(x))

\* delay-line transcription: state [in, out], most recent first
PushFore(line, v) == IF Len(line) = 0 THEN line ELSE <<v>> \o SubSeq(line, 1, Len(line) - 1)
RECURSIVE Dot(_, _, _)
Dot(a, b, i) == IF i > Len(a) THEN 0 ELSE a[i] * b[i] + Dot(a, b, i + 1)
TfIter(num, den, st, v) == LET in2 == PushFore(st.in, v)
                               y == Dot(num, in2, 1) - Dot(den, st.out, 1)
                           IN [in |-> in2, out |-> PushFore(st.out, y), y |-> y]
TfZero(num, den) == [in |-> [i \in 1..Len(num) |-> 0], out |-> [i \in 1..Len(den) |-> 0], y |-> 0]
RECURSIVE TfRun(_, _, _, _, _)
TfRun(num, den, st, x, i) == IF i > Len(x) THEN <<>> ELSE
  LET s2 == TfIter(num, den, st, x[i]) IN <<s2.y>> \o TfRun(num, den, s2, x, i + 1)

\* ---- RC filters over exact rationals
LpfStep(alpha, out, v) == RAdd(RMul(out, RSub(RQ(1), alpha)), RMul(v, alpha))
HpfStep(alpha, st, v) == LET o == RMul(alpha, RSub(RAdd(st[1], v), st[2])) IN <<o, v>>     \* st = <<output, last input>>
RECURSIVE LpfRun(_, _, _, _)
LpfRun(alpha, out, x, i) == IF i > Len(x) THEN <<>> ELSE LET o == LpfStep(alpha, out, x[i]) IN <<o>> \o LpfRun(alpha, o, x, i + 1)
RECURSIVE HpfRun(_, _, _, _)
HpfRun(alpha, st, x, i) == IF i > Len(x) THEN <<>> ELSE LET s2 == HpfStep(alpha, st, x[i]) IN <<s2[1]>> \o HpfRun(alpha, s2, x, i + 1)

\* ---- generation + design-level checking
CONSTANTS Coefs, Inputs, MaxOrder, HistLen, Alphas
VARIABLES num, den, hist
vars == <<num, den, hist>>
SeqsUpTo(S, n) == UNION {[1..k -> S] : k \in 0..n}
Init == num \in SeqsUpTo(Coefs, MaxOrder + 1) /\ den \in SeqsUpTo(Coefs, MaxOrder) /\ hist = <<>>
Next == Len(hist) < HistLen /\ \E v \in Inputs : hist' = Append(hist, v) /\ UNCHANGED <<num, den>>
\* the delay-line implementation realises the definition, for every history
Realises == TfRun(num, den, TfZero(num, den), hist, 1) = TfDef(num, den, hist)
\* time invariance: delaying the input by one step delays the output by one step
TimeInvariant == TfDef(num, den, <<0>> \o hist) = <<0>> \o TfDef(num, den, hist)
\* linearity: checked for the history against its double and its negation, and sums with a fixed probe
Scale(k, x) == [i \in 1..Len(x) |-> k * x[i]]
AddS(x, z) == [i \in 1..Len(x) |-> x[i] + z[i]]
Probe == [i \in 1..Len(hist) |-> IF i % 2 = 1 THEN 1 ELSE -2]
Linear == /\ TfDef(num, den, Scale(3, hist)) = Scale(3, TfDef(num, den, hist))
          /\ TfDef(num, den, AddS(hist, Probe)) = AddS(TfDef(num, den, hist), TfDef(num, den, Probe))
Inv == Realises /\ TimeInvariant /\ Linear
\* RC filters: range and settling facts for all alpha in Alphas (eighths) and the history
InRangeSoFar(outs, x) == \A i \in 1..Len(outs) :
   LET lo == 0 hi == 0 IN
   LET mn == CHOOSE m \in {0} \cup {x[j] : j \in 1..i} : \A j \in 1..i : m <= x[j] /\ m <= 0
       mx == CHOOSE m \in {0} \cup {x[j] : j \in 1..i} : \A j \in 1..i : m >= x[j] /\ m >= 0
   IN RLe(RQ(mn), outs[i]) /\ RLe(outs[i], RQ(mx))
LpfFacts == \A a \in Alphas : LET al == RNorm(a, 8)  outs == LpfRun(al, RQ(0), [i \in 1..Len(hist) |-> RQ(hist[i])], 1) IN
              InRangeSoFar(outs, hist)
FiltInv == LpfFacts
=============================================================================
