-------------------------------- MODULE PidMC --------------------------------
EXTENDS Pid, Json
P(kp, ki, kd, smin, smax, omin, omax) == [kp |-> kp, ki |-> ki, kd |-> kd, summin |-> smin, summax |-> smax, outmin |-> omin, outmax |-> omax]
ParamsQ == {P(2, 1, 1, -3, 3, -8, 8), P(1, 2, 0, -2, 2, -100, 100), P(3, 0, 2, 0, 0, -5, 5), P(1, 1, 1, -100, 100, -100, 100)}
ParamsT == ParamsQ \cup {P(0, 3, 0, -4, 4, -6, 6), P(-2, 1, -1, -3, 3, -7, 7), P(2, 2, 2, -1, 5, -3, 9), P(1, 1, 0, -3, 3, 0, 0),
                         P(5, 1, 3, -2, 2, -50, 50), P(1, 4, 1, 0, 6, -9, 2), P(2, 1, 1, -6, 0, -4, 12), P(0, 0, 0, -1, 1, -1, 1)}
InQ == {-3, 0, 2}
InT == {-3, -1, 0, 2, 3}
OpCode(o) == CASE o = "run" -> 1 [] o = "pos" -> 2 [] o = "inc" -> 3 [] o = "zero" -> 4 [] OTHER -> 0
Emit == PrintT(ToJson(<<5050505, OpCode(last'.op), last'.set, last'.fdb,
                        par.kp, par.ki, par.kd, par.summin, par.summax, par.outmin, par.outmax,
                        st.sum, st.out, st.var, st.fdb, st.err, st'.sum, st'.out, st'.var, st'.fdb, st'.err>>))
=============================================================================
