------------------------------ MODULE FiltersMC ------------------------------
EXTENDS Filters, Json
CoefsQ == {-1, 0, 2}
InputsQ == {-2, 0, 1}
CoefsT == {-2, -1, 0, 1, 2}
InputsT == {-2, -1, 0, 1, 3}
Emit == IF Len(hist') = HistLen THEN PrintT(ToJson(<<9090909, Len(num), Len(den), Len(hist'), num, den, hist', TfDef(num, den, hist')>>)) ELSE TRUE
=============================================================================
