------------------------------ MODULE FiltersMC ------------------------------
EXTENDS Filters, Json
CoefsQ == {-1, 0, 2}
InputsQ == {-2, 0, 1}
InputsBig == {-1, 2}
CoefsT == {-2, -1, 0, 1, 2}
InputsT == {-2, -1, 0, 1, 3}
\* long delay lines (shifting loops over many cells) for a few fixed coefficient vectors
BigNums == {<<1, -1, 2, 0, 1, -2, 1, 1, -1>>, <<2, 0, 0, 0, 0, 0, 0, 0, 1>>, <<1>>}
BigDens == {<<0, 1, 0, -1, 0, 0, 1, 0>>, <<>>, <<0, 0, 0, 0, 0, 0, 0, 0, 0, 0, 0, 0, 0, 0, 0, 0, 1>>}
InitBig == num \in BigNums /\ den \in BigDens /\ hist = <<>>
Emit == IF Len(hist') = HistLen THEN PrintT(ToJson(<<9090909, Len(num), Len(den), Len(hist'), num, den, hist', TfDef(num, den, hist')>>)) ELSE TRUE
=============================================================================
