-------------------------------- MODULE Seq --------------------------------
(* a_vec (growable vector, src/vec.c) and a_buf (fixed-capacity buffer, src/buf.c)
   as refinements of SeqAbs.  Kind = "vec" | "buf".
   State: seq (contents), mem (capacity in elements), siz (element size).
   One action per public function; `last` records the call (hidden by VIEW).
   The capacity policy of a_vec_setm (m += m/2+1 until large enough, rounded up
   to 8) is transcribed so the model reaches the real (num, mem) pairs; it is
   not part of the property (differences are reported as drift only).        *)
EXTENDS SeqAbs, TLC
CONSTANTS Kind, Vals, Lmax, Sizes, Idx, BufMems, Blocks
VARIABLES seq, mem, siz, last
vars == <<seq, mem, siz, last>>
view == <<seq, mem, siz>>

A_SUCCESS == 0   A_OBOUNDS == 3   A_OMEMORY == 4
NULLSLOT == -1
IsVec == Kind = "vec"
n == Len(seq)

RECURSIVE GrowTo(_, _)
GrowTo(m, need) == LET m2 == m + (m \div 2) + 1 IN IF m2 >= need THEN m2 ELSE GrowTo(m2, need)
RoundUp8(x) == ((x + 7) \div 8) * 8
VecMem(m, need) == IF need > m THEN RoundUp8(GrowTo(m, need)) ELSE m
\* can one more / k more elements be taken?  vec grows, buf refuses
Fits(k) == IF IsVec THEN TRUE ELSE n + k <= mem
MemAfter(k) == IF IsVec THEN VecMem(mem, n + k) ELSE mem

Rec(op, a1, a2, blk, slot, val, rc, cmp, case) ==
  [op |-> op, a1 |-> a1, a2 |-> a2, blk |-> blk, slot |-> slot, val |-> val, rc |-> rc, cmp |-> cmp, case |-> case]
\* cases: 0 none, 1 spare capacity path, 2 exactly-full path, 3 growth, 4 refused, 5 out-of-range index treated as end, 6 empty
SpareFull == IF n < mem THEN 1 ELSE 2

Init == /\ seq = <<>> /\ siz \in Sizes
        /\ mem \in (IF IsVec THEN {0} ELSE BufMems)
        /\ last = Rec("init", 0, 0, <<>>, NULLSLOT, 0, 0, 0, 0)

Room == n < Lmax

InsertOp(op, i, v) ==   \* a_*_insert / push_fore (i = 0) / push_back (i = HUGE)
  IF Fits(1)
  THEN /\ Room
       /\ seq' = InsAt(seq, i, v) /\ mem' = MemAfter(1) /\ UNCHANGED siz
       /\ last' = Rec(op, i, v, <<>>, InsPos(seq, i), v, 0, 0, IF MemAfter(1) # mem THEN 3 ELSE IF i >= n THEN 5 ELSE 1)
  ELSE /\ UNCHANGED <<seq, mem, siz>> /\ last' = Rec(op, i, v, <<>>, NULLSLOT, 0, 0, 0, 4)

RemoveOp(op, i) ==      \* a_*_remove / pull_fore (i = 0) / pull_back (i = HUGE)
  IF n = 0 THEN /\ UNCHANGED <<seq, mem, siz>> /\ last' = Rec(op, i, 0, <<>>, NULLSLOT, 0, 0, 0, 6)
  ELSE /\ seq' = RemAt(seq, i) /\ UNCHANGED <<mem, siz>>
       \* slot -2: a pointer somewhere inside owned storage holding the removed element
       /\ last' = Rec(op, i, 0, <<>>, -2, seq[RemPos(seq, i) + 1], 0, 0, IF i >= n - 1 THEN 5 ELSE SpareFull)

Store(i, blk) ==
  IF Fits(Len(blk))
  THEN /\ n + Len(blk) <= Lmax
       /\ seq' = InsertBlock(seq, i, blk) /\ mem' = MemAfter(Len(blk)) /\ UNCHANGED siz
       /\ last' = Rec("store", i, Len(blk), blk, NULLSLOT, 0, A_SUCCESS, 0, IF MemAfter(Len(blk)) # mem THEN 3 ELSE IF i >= n THEN 5 ELSE 1)
  ELSE /\ UNCHANGED <<seq, mem, siz>> /\ last' = Rec("store", i, Len(blk), blk, NULLSLOT, 0, A_OBOUNDS, 0, 4)

Erase(i, cnt) ==
  IF EraseOK(seq, i)
  THEN /\ seq' = EraseAt(seq, i, cnt) /\ UNCHANGED <<mem, siz>>
       /\ last' = Rec("erase", i, cnt, <<>>, NULLSLOT, 0, A_SUCCESS, 0, IF cnt >= n - i THEN 5 ELSE 1)
  ELSE /\ UNCHANGED <<seq, mem, siz>> /\ last' = Rec("erase", i, cnt, <<>>, NULLSLOT, 0, A_OBOUNDS, 0, 4)

Setn(k) ==   \* vec: grows capacity as needed; buf: clamps to capacity; new slots hold FILL (written by the harness)
  LET k2 == IF IsVec THEN k ELSE Min2(k, mem) IN
  /\ k2 <= Lmax
  /\ seq' = IF k2 <= n THEN SubSeq(seq, 1, k2) ELSE seq \o [j \in 1..(k2 - n) |-> FILL]
  /\ mem' = (IF IsVec THEN VecMem(mem, k) ELSE mem) /\ UNCHANGED siz
  /\ last' = Rec("setn", k, 0, <<>>, NULLSLOT, 0, 0, 0, IF k > mem THEN (IF IsVec THEN 3 ELSE 4) ELSE 1)

Setm(m) ==   \* vec: reserve; buf: re-allocate to exactly m (contents beyond m cannot be kept)
  /\ seq' = IF IsVec THEN seq ELSE SubSeq(seq, 1, Min2(n, m))
  /\ mem' = IF IsVec THEN VecMem(mem, m) ELSE m
  /\ UNCHANGED siz
  /\ last' = Rec("setm", m, 0, <<>>, NULLSLOT, 0, 0, 0, IF m > mem THEN 3 ELSE IF m < n THEN 4 ELSE 1)

Setz(s) == /\ seq' = <<>> /\ mem' = (mem * siz) \div s /\ siz' = s
           /\ last' = Rec("setz", s, 0, <<>>, NULLSLOT, 0, 0, 0, 0)

Sort == /\ seq' = StableSort(seq) /\ UNCHANGED <<mem, siz>>
        /\ last' = Rec("sort", 0, 0, <<>>, NULLSLOT, 0, 0, 1, 0)     \* cmp 1: equal key sequence and equal bag
SortFore == /\ n >= 1 => Sorted(Tail(seq))
            /\ seq' = SortForeOf(seq) /\ UNCHANGED <<mem, siz>>
            /\ last' = Rec("sort_fore", 0, 0, <<>>, NULLSLOT, 0, 0, 0, SpareFull)
SortBack == /\ n >= 1 => Sorted(SubSeq(seq, 1, n - 1))
            /\ seq' = SortBackOf(seq) /\ UNCHANGED <<mem, siz>>
            /\ last' = Rec("sort_back", 0, 0, <<>>, NULLSLOT, 0, 0, 0, SpareFull)
PushSort(v) ==
  /\ Sorted(seq)
  /\ IF Fits(1)
     THEN /\ Room
          /\ seq' = InsAt(seq, PushSortPos(seq, v), v) /\ mem' = MemAfter(1) /\ UNCHANGED siz
          /\ last' = Rec("push_sort", 0, v, <<>>, PushSortPos(seq, v), v, 0, 0, IF MemAfter(1) # mem THEN 3 ELSE 1)
     ELSE /\ UNCHANGED <<seq, mem, siz>> /\ last' = Rec("push_sort", 0, v, <<>>, NULLSLOT, 0, 0, 0, 4)
Search(k) == /\ Sorted(seq) /\ UNCHANGED <<seq, mem, siz>>
             \* slot -2 with val = key: some element with that key; NULLSLOT if absent
             /\ last' = Rec("search", k, 0, <<>>, IF \E i \in 1..n : Key(seq[i]) = k THEN -2 ELSE NULLSLOT, k, 0, 2, 0)
At(i) == /\ UNCHANGED <<seq, mem, siz>>      \* a_*_at: any slot inside the capacity, else null
         /\ last' = Rec("at", i, 0, <<>>, IF i < mem THEN i ELSE NULLSLOT, 0, 0, 0, 0)
Of(i) == /\ UNCHANGED <<seq, mem, siz>>      \* a_*_of: negative counts from the end
         /\ LET j == IF i >= 0 THEN i ELSE i + n IN
            last' = Rec("of", i, 0, <<>>, IF j >= 0 /\ j < mem THEN j ELSE NULLSLOT, 0, 0, 0, 0)
Top == /\ UNCHANGED <<seq, mem, siz>>
       /\ last' = Rec("top", 0, 0, <<>>, IF n > 0 THEN n - 1 ELSE NULLSLOT, 0, 0, 0, 0)

\* traversal macros and accessors: read-only; what they yield is judged on the recorded event (forward order, reverse
\* order, index ranges, accessor pointers)
Walk == /\ UNCHANGED <<seq, mem, siz>> /\ last' = Rec("walk", 0, 0, <<>>, NULLSLOT, 0, 0, 0, 0)

\* destroy and create anew with element-size argument s (0 is accepted and means 1) and, for the
\* buffer, capacity m; then push v once (vec) / until one more than fits (buf: the last is refused)
Create(s, m, v) ==
  LET s1 == IF s = 0 THEN 1 ELSE s IN
  /\ seq = <<>>                       \* the old object is destroyed: its contents do not matter
  /\ siz' = s1
  /\ IF IsVec THEN seq' = <<v>> /\ mem' = VecMem(0, 1)
              ELSE m <= Lmax /\ seq' = [j \in 1..m |-> v] /\ mem' = m
  /\ last' = Rec("create", s, m, <<>>, NULLSLOT, v, 0, 0, IF s = 0 THEN 5 ELSE 1)

Next ==
  \/ Walk
  \/ \E s \in Sizes \cup {0}, m \in (IF IsVec THEN {0} ELSE BufMems), v \in Vals : Create(s, m, v)
  \/ \E v \in Vals : InsertOp("push_back", HUGE, v) \/ InsertOp("push_fore", 0, v) \/ PushSort(v)
  \/ \E v \in Vals : InsertOp("push", HUGE, v)             \* a_*_push / a_*_pull: the short names of the back operations
  \/ RemoveOp("pull", HUGE)
  \/ \E v \in Vals, i \in Idx : InsertOp("insert", i, v)
  \/ RemoveOp("pull_back", HUGE) \/ RemoveOp("pull_fore", 0)
  \/ \E i \in Idx : RemoveOp("remove", i) \/ At(i)
  \/ \E i \in Idx, b \in Blocks : Store(i, b)
  \/ \E i \in Idx, c \in Idx : Erase(i, c)
  \/ \E k \in 0..(Lmax + 1) : Setn(k) \/ Setm(k)
  \/ \E s \in Sizes : Setz(s)
  \/ Sort \/ SortFore \/ SortBack \/ Top
  \/ \E k \in {Key(v) : v \in Vals} \cup {9} : Search(k)
  \/ \E i \in -(Lmax + 1)..(Lmax + 1) : Of(i)
Spec == Init /\ [][Next]_vars

\* ---- property C04 on the model
NumLeMem == n <= mem
SlotInside == last.slot >= 0 => last.slot < mem
SortedInsertKeepsSorted == last.op \in {"sort_fore", "sort_back", "push_sort", "sort"} => Sorted(seq)
BufNeverGrows == (~IsVec /\ last.op \notin {"init", "setm", "setz"}) => TRUE
Inv == NumLeMem /\ SlotInside /\ SortedInsertKeepsSorted
=============================================================================
