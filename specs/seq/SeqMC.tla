------------------------------- MODULE SeqMC -------------------------------
EXTENDS Seq, Json
HugeM1 == HUGE - 1
IdxShort == {0, 1, 2, 3, 4, 5, HugeM1, HUGE}
BlocksDef == {<<>>, <<10>>, <<21, 10>>}
BlocksLong == {<<>>, <<10>>, <<10, 0>>}
IdxLong == {0, 1, 4, 8, 9, 10, HugeM1, HUGE}
OpCode(o) == CASE o = "push_back" -> 1 [] o = "push_fore" -> 2 [] o = "insert" -> 3 [] o = "pull_back" -> 4
   [] o = "pull_fore" -> 5 [] o = "remove" -> 6 [] o = "store" -> 7 [] o = "erase" -> 8 [] o = "setn" -> 9
   [] o = "setm" -> 10 [] o = "setz" -> 11 [] o = "sort" -> 12 [] o = "sort_fore" -> 13 [] o = "sort_back" -> 14
   [] o = "push_sort" -> 15 [] o = "search" -> 16 [] o = "at" -> 17 [] o = "of" -> 18 [] o = "top" -> 19 [] o = "create" -> 20 [] o = "walk" -> 21 [] o = "push" -> 22 [] o = "pull" -> 23 [] OTHER -> 0
Emit == PrintT(ToJson(<<8888888, IF Kind = "vec" THEN 1 ELSE 2, OpCode(last'.op), last'.a1, last'.a2, last'.slot, last'.val,
                        last'.rc, last'.cmp, last'.case, siz, mem, Len(seq), siz', mem', Len(seq'), Len(last'.blk),
                        seq, seq', last'.blk>>))
=============================================================================
