------------------------------ MODULE SeqTrace ------------------------------
(* Trace specification for a_vec / a_buf: every event recorded from the real
   code (harness/seq_h.c) carries the projected state before and after one call
   (contents, capacity, element size), the arguments, and the projected result
   (slot index of a returned pointer: -1 null, -3 outside owned storage; the
   value read through it; the return code).  TLC recomputes the abstract result
   with SeqAbs from the logged pre-state and checks property C04 on the logged
   post-state with the REAL capacity (the growth policy is not constrained):
     contents = abstract sequence; num <= mem; pointers inside owned storage;
     removal returns the removed element; sorted-insert keeps order and stability;
     the buffer refuses instead of growing.                                   *)
EXTENDS SeqAbs, Json, IOUtils, TLC
VARIABLE l
Tr == ndJsonDeserialize(IOEnv.TRACE)
A_SUCCESS == 0   A_OBOUNDS == 3

Accept(e) ==
  LET s == e.pre.seq  t == e.post.seq  n == Len(s)  isvec == e.kind = 1
      mem == e.pre.mem  mem2 == e.post.mem
      fits(k) == IF isvec THEN TRUE ELSE n + k <= mem
      same == t = s /\ e.post.siz = e.pre.siz /\ mem2 = mem
      inside == e.slot >= 0 /\ e.slot < mem2
  IN
  /\ Len(t) <= mem2                                       \* count never exceeds capacity
  /\ e.slot # -3                                          \* no pointer outside owned storage
  /\ (IF isvec THEN TRUE ELSE (e.op \in {"setm", "setz", "create"} \/ mem2 = mem))    \* the buffer never grows by itself
  /\ CASE e.op \in {"push_back", "push_fore", "insert", "push"} ->
            LET i == IF e.op \in {"push_back", "push"} THEN HUGE ELSE IF e.op = "push_fore" THEN 0 ELSE e.a1 IN
            IF fits(1) THEN t = InsAt(s, i, e.a2) /\ e.slot = InsPos(s, i) /\ inside
                       ELSE same /\ e.slot = -1
       [] e.op \in {"pull_back", "pull_fore", "remove", "pull"} ->
            LET i == IF e.op \in {"pull_back", "pull"} THEN HUGE ELSE IF e.op = "pull_fore" THEN 0 ELSE e.a1 IN
            IF n = 0 THEN same /\ e.slot = -1
            ELSE t = RemAt(s, i) /\ inside /\ e.val = s[RemPos(s, i) + 1]
       [] e.op = "store" ->
            IF fits(Len(e.blk)) THEN t = InsertBlock(s, e.a1, e.blk) /\ e.rc = A_SUCCESS
                                ELSE same /\ e.rc = A_OBOUNDS
       [] e.op = "erase" ->
            IF EraseOK(s, e.a1) THEN t = EraseAt(s, e.a1, e.a2) /\ e.rc = A_SUCCESS
                                ELSE same /\ e.rc = A_OBOUNDS
       [] e.op = "setn" ->
            LET k == IF isvec THEN e.a1 ELSE Min2(e.a1, mem) IN
            t = (IF k <= n THEN SubSeq(s, 1, k) ELSE s \o [j \in 1..(k - n) |-> FILL]) /\ e.rc = 0
       [] e.op = "setm" ->
            IF isvec THEN t = s /\ mem2 >= e.a1 /\ mem2 >= mem /\ e.rc = 0
                     ELSE t = SubSeq(s, 1, Min2(n, e.a1)) /\ mem2 = e.a1
       [] e.op = "setz" -> t = <<>> /\ e.post.siz = (IF e.a1 = 0 THEN 1 ELSE e.a1)
                            /\ mem2 * e.post.siz <= mem * e.pre.siz    \* does not claim more bytes than it owned
       [] e.op = "sort" -> Sorted(t) /\ Len(t) = n /\ Bag(t) = Bag(s)
       [] e.op = "sort_fore" -> t = SortForeOf(s) /\ Sorted(t)
       [] e.op = "sort_back" -> t = SortBackOf(s) /\ Sorted(t)
       [] e.op = "push_sort" ->
            IF fits(1) THEN t = InsAt(s, PushSortPos(s, e.a2), e.a2) /\ Sorted(t) /\ e.slot = PushSortPos(s, e.a2) /\ inside
                       ELSE same /\ e.slot = -1
       [] e.op = "search" ->
            same /\ (IF \E i \in 1..n : Key(s[i]) = e.a1 THEN e.slot >= 0 /\ e.slot < n /\ Key(e.val) = e.a1 ELSE e.slot = -1)
       [] e.op = "at" -> same /\ e.slot = (IF e.a1 < mem THEN e.a1 ELSE -1)
       [] e.op = "of" -> same /\ LET j == IF e.a1 >= 0 THEN e.a1 ELSE e.a1 + n IN
                                 e.slot = (IF j >= 0 /\ j < mem THEN j ELSE -1)
       [] e.op = "top" -> same /\ e.slot = (IF n > 0 THEN n - 1 ELSE -1)
       [] e.op = "walk" ->
            \* every traversal macro visits exactly the contents, front to back resp. back to front; the index loops run
            \* over 0..n-1; the unchecked accessors point where the checked ones do
            LET w == e.walk  rv == [i \in 1..n |-> s[n + 1 - i]] IN
            /\ same
            /\ w.fwd = s /\ w.fwd2 = s /\ w.rev = rv /\ w.rev2 = rv
            /\ w.idx = [i \in 1..n |-> i - 1] /\ w.ridx = [i \in 1..n |-> n - i]
            /\ w.acc = 1 /\ w.getters = <<n, mem, e.pre.siz>>
       [] e.op = "create" ->
            /\ e.post.siz = (IF e.a1 = 0 THEN 1 ELSE e.a1)
            /\ IF isvec THEN t = <<e.val>> ELSE t = [j \in 1..e.a2 |-> e.val] /\ mem2 = e.a2
       [] OTHER -> FALSE
  \* element callbacks (events recorded with them carry "cb"): the destructor is handed exactly the discarded elements
  \* (any order), the copy function is called once per stored element; "final" = what the destructor was handed when the
  \* container was destroyed afterwards: exactly what was left
  /\ ("cb" \in DOMAIN e =>
        /\ e.cb.ndtor = Len(e.cb.dtor)
        /\ CASE e.op = "erase" -> Bag(e.cb.dtor) = Bag(IF EraseOK(s, e.a1) THEN SubSeq(s, e.a1 + 1, Min2(e.a1 + e.a2, n)) ELSE <<>>)
              [] e.op = "setn" -> LET k == IF isvec THEN e.a1 ELSE Min2(e.a1, mem) IN
                                  Bag(e.cb.dtor) = Bag(IF k < n THEN SubSeq(s, k + 1, n) ELSE <<>>)
              [] e.op = "setz" -> Bag(e.cb.dtor) = Bag(s)
              [] e.op = "store" -> e.cb.dtor = <<>> /\ e.cb.copies = (IF fits(Len(e.blk)) THEN Len(e.blk) ELSE 0)
              [] OTHER -> TRUE)
  /\ ("final" \in DOMAIN e => Bag(e.final) = Bag(t))

TraceInit == l = 1
Step == /\ l <= Len(Tr)
        /\ (IF Accept(Tr[l]) = TRUE THEN TRUE ELSE PrintT(<<"TRACE-BAD", l>>))   \* evaluated as a value; rejected events are reported, validation goes on
        /\ l' = l + 1
TraceNext == Step
TraceAccepted == LET d == TLCGet("stats").diameter IN
                 IF d - 1 = Len(Tr) THEN TRUE ELSE Print(<<"TRACE-POS", d, "of", Len(Tr)>>, FALSE)
=============================================================================
