------------------------------ MODULE SlistMC ------------------------------
EXTENDS Slist, Json
OpCode(o) == CASE o = "add" -> 1 [] o = "add_head" -> 2 [] o = "add_tail" -> 3 [] o = "del" -> 4 [] o = "del_head" -> 5
   [] o = "mov" -> 6 [] o = "rot" -> 7 [] OTHER -> 0
Emit == PrintT(ToJson(<<4444444, OpCode(last'.op), K, last'.q, last'.a1, last'.a2, nx, tl, nx', tl', Len(L'[1]), Len(L'[2]), L'[1], L'[2]>>))
=============================================================================
