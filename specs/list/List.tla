-------------------------------- MODULE List --------------------------------
(* The intrusive circular doubly linked list of include/a/list.h.
   Ids: nodes 1..K, head sentinels H(1) = K+1 and H(2) = K+2.
   Pointer level: lk = [next, prev] over Ids; the primitives below transcribe the
   inline functions (Link = a_list_link, Add_ = a_list_add_, Del_ = a_list_del_, ...).
   Abstract level: L[q] = the sequence of nodes on head q, Det = the set of detached
   chains (a chain keeps its inner links, as a section removed with a_list_del_ does).
   Every action updates both levels independently; Refines relates them.
   Arguments are chosen from the abstract view so that only calls inside the
   documented preconditions are generated (sections disjoint and not adjacent,
   moved list non-empty, detached nodes added, enqueued nodes deleted).        *)
EXTENDS Integers, Sequences, FiniteSets, SequencesExt, TLC
CONSTANT K
Nodes == 1..K
H(q) == K + q
Ids == 1..(K + 2)
VARIABLES lk, L, Det, last
vars == <<lk, L, Det, last>>
view == <<lk, L, Det>>

\* ---- pointer level
Link(l, h, t) == [next |-> [l.next EXCEPT ![h] = t], prev |-> [l.prev EXCEPT ![t] = h]]
Add_(l, h1, t1, h2, t2) == Link(Link(l, t1, h2), t2, h1)
AddNode(l, h, t, x) == Add_(l, h, t, x, x)
AddNext(l, c, x) == Add_(l, l.next[c], c, x, x)
AddPrev(l, c, x) == Add_(l, c, l.prev[c], x, x)
Del_(l, h, t) == Link(l, l.prev[h], l.next[t])
DelNode(l, x) == Del_(l, x, x)
DelNext(l, c) == Del_(l, l.next[c], l.next[c])
DelPrev(l, c) == Del_(l, l.prev[c], l.prev[c])
Set_(l, h1, t1, h2, t2) == Add_(l, l.next[t1], l.prev[h1], h2, t2)
SetNode(l, c, r) == Add_(l, l.next[c], l.prev[c], r, r)
MovNext(l, c, r) == Add_(l, l.next[c], c, l.next[r], l.prev[r])
MovPrev(l, c, r) == Add_(l, c, l.prev[c], l.next[r], l.prev[r])
InitHead(l, h) == [next |-> [l.next EXCEPT ![h] = h], prev |-> [l.prev EXCEPT ![h] = h]]
RotNext(l, c) == LET x == l.prev[c]  l1 == Del_(l, x, x) IN Add_(l1, l1.next[c], c, x, x)
RotPrev(l, c) == LET x == l.next[c]  l1 == Del_(l, x, x) IN Add_(l1, c, l1.prev[c], x, x)
Swap_(l, h1, t1, h2, t2) ==
  LET hd == l.next[t2]  tl == l.prev[h2]
      l1 == Add_(l, l.next[t1], l.prev[h1], h2, t2)
  IN Add_(l1, hd, tl, h1, t1)
SwapNode(l, a, b) == Swap_(l, a, a, b, b)

\* ---- abstract level helpers
Pos(s, x) == CHOOSE i \in 1..Len(s) : s[i] = x
Elems(s) == {s[i] : i \in 1..Len(s)}
QOf(c) == IF c = H(1) \/ (c \in Nodes /\ c \in Elems(L[1])) THEN 1 ELSE 2
InRing(c) == c = H(1) \/ c = H(2) \/ c \in Elems(L[1]) \/ c \in Elems(L[2])
InsAfter(s, q, c, ch) == IF c = H(q) THEN ch \o s ELSE LET i == Pos(s, c) IN SubSeq(s, 1, i) \o ch \o SubSeq(s, i + 1, Len(s))
InsBefore(s, q, c, ch) == IF c = H(q) THEN s \o ch ELSE LET i == Pos(s, c) IN SubSeq(s, 1, i - 1) \o ch \o SubSeq(s, i, Len(s))
Cut(s, i, j) == SubSeq(s, 1, i - 1) \o SubSeq(s, j + 1, Len(s))
Repl(s, i, j, ch) == SubSeq(s, 1, i - 1) \o ch \o SubSeq(s, j + 1, Len(s))
\* the ring successor / predecessor of c in the abstract view
NextOf(c) == LET q == QOf(c) s == L[q] IN
             IF c = H(q) THEN (IF Len(s) = 0 THEN H(q) ELSE s[1])
             ELSE LET i == Pos(s, c) IN IF i = Len(s) THEN H(q) ELSE s[i + 1]
PrevOf(c) == LET q == QOf(c) s == L[q] IN
             IF c = H(q) THEN (IF Len(s) = 0 THEN H(q) ELSE s[Len(s)])
             ELSE LET i == Pos(s, c) IN IF i = 1 THEN H(q) ELSE s[i - 1]

Rec(op, a1, a2, a3, a4) == [op |-> op, a |-> <<a1, a2, a3, a4>>]
Self == [i \in Ids |-> i]
Init == /\ lk = [next |-> Self, prev |-> Self]
        /\ L = <<(<<>>), (<<>>)>> /\ Det = {<<x>> : x \in Nodes}
        /\ last = Rec("init", 0, 0, 0, 0)

ActAddChain(op, c, ch) ==     \* a_list_add_next / add_node / add_ : chain ch goes right after c
  /\ InRing(c) /\ ch \in Det
  /\ (op \in {"add_next", "add_node"} => Len(ch) = 1)
  /\ LET q == QOf(c) IN
     /\ lk' = (CASE op = "add_next" -> AddNext(lk, c, ch[1])
                 [] op = "add_node" -> AddNode(lk, lk.next[c], c, ch[1])
                 [] OTHER -> Add_(lk, lk.next[c], c, ch[1], ch[Len(ch)]))
     /\ L' = [L EXCEPT ![q] = InsAfter(L[q], q, c, ch)] /\ Det' = Det \ {ch}
     /\ last' = Rec(op, c, ch[1], ch[Len(ch)], 0)
ActAddPrev(c, ch) ==
  /\ InRing(c) /\ ch \in Det /\ Len(ch) = 1
  /\ LET q == QOf(c) IN
     /\ lk' = AddPrev(lk, c, ch[1])
     /\ L' = [L EXCEPT ![q] = InsBefore(L[q], q, c, ch)] /\ Det' = Det \ {ch}
     /\ last' = Rec("add_prev", c, ch[1], 0, 0)
ActDelSection(op, q, i, j) ==  \* a_list_del_node (i = j) / del_ : section L[q][i..j] becomes a detached chain
  /\ i >= 1 /\ j <= Len(L[q]) /\ i <= j /\ (op = "del_node" => i = j)
  /\ lk' = (IF op = "del_node" THEN DelNode(lk, L[q][i]) ELSE Del_(lk, L[q][i], L[q][j]))
  /\ L' = [L EXCEPT ![q] = Cut(L[q], i, j)] /\ Det' = Det \cup {SubSeq(L[q], i, j)}
  /\ last' = Rec(op, L[q][i], L[q][j], 0, 0)
ActDelNext(c) == /\ InRing(c) /\ NextOf(c) \in Nodes
                 /\ LET q == QOf(c) x == NextOf(c) i == Pos(L[q], x) IN
                    /\ lk' = DelNext(lk, c) /\ L' = [L EXCEPT ![q] = Cut(L[q], i, i)] /\ Det' = Det \cup {<<x>>}
                    /\ last' = Rec("del_next", c, 0, 0, 0)
ActDelPrev(c) == /\ InRing(c) /\ PrevOf(c) \in Nodes
                 /\ LET q == QOf(c) x == PrevOf(c) i == Pos(L[q], x) IN
                    /\ lk' = DelPrev(lk, c) /\ L' = [L EXCEPT ![q] = Cut(L[q], i, i)] /\ Det' = Det \cup {<<x>>}
                    /\ last' = Rec("del_prev", c, 0, 0, 0)
ActSet(op, q, i, j, ch) ==      \* a_list_set_node / set_ : section replaced by a detached chain
  /\ i >= 1 /\ j <= Len(L[q]) /\ i <= j /\ ch \in Det
  /\ (op = "set_node" => i = j /\ Len(ch) = 1)
  /\ lk' = (IF op = "set_node" THEN SetNode(lk, L[q][i], ch[1]) ELSE Set_(lk, L[q][i], L[q][j], ch[1], ch[Len(ch)]))
  /\ L' = [L EXCEPT ![q] = Repl(L[q], i, j, ch)] /\ Det' = (Det \ {ch}) \cup {SubSeq(L[q], i, j)}
  /\ last' = Rec(op, L[q][i], L[q][j], ch[1], ch[Len(ch)])
ActMov(op, c, r) ==             \* a_list_mov_next / mov_prev followed by a_list_init of the emptied head
  /\ r \in {1, 2} /\ Len(L[r]) > 0 /\ InRing(c) /\ QOf(c) # r
  /\ LET q == QOf(c) IN
     /\ lk' = InitHead(IF op = "mov_next" THEN MovNext(lk, c, H(r)) ELSE MovPrev(lk, c, H(r)), H(r))
     /\ L' = [L EXCEPT ![q] = IF op = "mov_next" THEN InsAfter(L[q], q, c, L[r]) ELSE InsBefore(L[q], q, c, L[r]), ![r] = <<>>]
     /\ UNCHANGED Det /\ last' = Rec(op, c, H(r), 0, 0)
ActRot(op, q) ==
  /\ lk' = (IF op = "rot_next" THEN RotNext(lk, H(q)) ELSE RotPrev(lk, H(q)))
  /\ L' = [L EXCEPT ![q] = IF Len(@) <= 1 THEN @ ELSE IF op = "rot_next" THEN <<@[Len(@)]>> \o SubSeq(@, 1, Len(@) - 1) ELSE Tail(@) \o <<@[1]>>]
  /\ UNCHANGED Det /\ last' = Rec(op, H(q), 0, 0, 0)
\* two sections, disjoint and not adjacent (same list: a gap of at least one node between them;
\* the head sentinel counts as a separator, so "last element" and "first element" are not adjacent
\* unless the list has only these two sections, i.e. the sections together cover the whole ring)
ActSwap(op, qa, i, j, qb, k, m) ==
  /\ i >= 1 /\ i <= j /\ j <= Len(L[qa]) /\ k >= 1 /\ k <= m /\ m <= Len(L[qb])
  /\ (op = "swap_node" => i = j /\ k = m)
  /\ (qa = qb => k > j + 1)
  /\ LET A == SubSeq(L[qa], i, j)  B == SubSeq(L[qb], k, m) IN
     /\ lk' = (IF op = "swap_node" THEN SwapNode(lk, A[1], B[1]) ELSE Swap_(lk, A[1], A[Len(A)], B[1], B[Len(B)]))
     /\ L' = (IF qa = qb
              THEN [L EXCEPT ![qa] = SubSeq(@, 1, i - 1) \o B \o SubSeq(@, j + 1, k - 1) \o A \o SubSeq(@, m + 1, Len(@))]
              ELSE [L EXCEPT ![qa] = Repl(@, i, j, B), ![qb] = Repl(@, k, m, A)])
     /\ UNCHANGED Det /\ last' = Rec(op, A[1], A[Len(A)], B[1], B[Len(B)])

Next ==
  \/ \E c \in Ids, ch \in Det, op \in {"add_next", "add_node", "add_"} : ActAddChain(op, c, ch)
  \/ \E c \in Ids, ch \in Det : ActAddPrev(c, ch)
  \/ \E q \in {1, 2}, i \in 1..K, j \in 1..K, op \in {"del_node", "del_"} : ActDelSection(op, q, i, j)
  \/ \E c \in Ids : ActDelNext(c) \/ ActDelPrev(c)
  \/ \E q \in {1, 2}, i \in 1..K, j \in 1..K, ch \in Det, op \in {"set_node", "set_"} : ActSet(op, q, i, j, ch)
  \/ \E c \in Ids, r \in {1, 2}, op \in {"mov_next", "mov_prev"} : ActMov(op, c, r)
  \/ \E q \in {1, 2}, op \in {"rot_next", "rot_prev"} : ActRot(op, q)
  \/ \E qa \in {1, 2}, qb \in {1, 2}, i \in 1..K, j \in 1..K, k \in 1..K, m \in 1..K, op \in {"swap_node", "swap_"} :
        qa <= qb /\ ActSwap(op, qa, i, j, qb, k, m)
Spec == Init /\ [][Next]_vars

\* ---- property C05 (list part)
RECURSIVE WalkF(_, _, _, _)
WalkF(l, h, c, fuel) == IF c = h \/ fuel = 0 THEN <<>> ELSE <<c>> \o WalkF(l, h, l.next[c], fuel - 1)
RECURSIVE WalkB(_, _, _, _)
WalkB(l, h, c, fuel) == IF c = h \/ fuel = 0 THEN <<>> ELSE <<c>> \o WalkB(l, h, l.prev[c], fuel - 1)
Fwd(l, q) == WalkF(l, H(q), l.next[H(q)], K + 3)
Bwd(l, q) == WalkB(l, H(q), l.prev[H(q)], K + 3)
RingOK(l, q) == \A x \in Elems(Fwd(l, q)) \cup {H(q)} : l.prev[l.next[x]] = x /\ l.next[l.prev[x]] = x
ChainOK(l, ch) == \A i \in 1..(Len(ch) - 1) : l.next[ch[i]] = ch[i + 1] /\ l.prev[ch[i + 1]] = ch[i]
Refines == /\ \A q \in {1, 2} : Fwd(lk, q) = L[q] /\ Bwd(lk, q) = Reverse(L[q]) /\ RingOK(lk, q)
           /\ \A ch \in Det : ChainOK(lk, ch)
Partition == /\ Elems(L[1]) \cap Elems(L[2]) = {}
             /\ Elems(L[1]) \cup Elems(L[2]) \cup UNION {Elems(ch) : ch \in Det} = Nodes
             /\ Len(L[1]) + Len(L[2]) = Cardinality(Elems(L[1]) \cup Elems(L[2]))
Inv == Refines /\ Partition
=============================================================================
