------------------------------ MODULE ListMC ------------------------------
EXTENDS List, Json
OpCode(o) == CASE o = "add_next" -> 1 [] o = "add_node" -> 2 [] o = "add_" -> 3 [] o = "add_prev" -> 4 [] o = "del_node" -> 5
   [] o = "del_" -> 6 [] o = "del_next" -> 7 [] o = "del_prev" -> 8 [] o = "set_node" -> 9 [] o = "set_" -> 10
   [] o = "mov_next" -> 11 [] o = "mov_prev" -> 12 [] o = "rot_next" -> 13 [] o = "rot_prev" -> 14
   [] o = "swap_node" -> 15 [] o = "swap_" -> 16 [] OTHER -> 0
Emit == PrintT(ToJson(<<5555555, OpCode(last'.op), K, last'.a, lk.next, lk.prev, lk'.next, lk'.prev,
                        Len(L'[1]), Len(L'[2]), L'[1], L'[2]>>))
=============================================================================
