------------------------------ MODULE ListTrace ------------------------------
(* Validates the pointer structures produced by the real a_list_* / a_slist_*
   inline functions (harness/list_h.c).  Each event carries the real next/prev
   (and tail) fields after the call and the abstract lists L1, L2 that the List /
   Slist specification computed for that transition (relayed unchanged by the
   harness).  TLC checks that the real structure is a consistent ring (or a
   null-terminated chain with the tail on its last node) whose walk from each
   head, in both directions, is exactly the abstract sequence.               *)
EXTENDS Integers, Sequences, FiniteSets, SequencesExt, Json, IOUtils, TLC
VARIABLE l
Tr == ndJsonDeserialize(IOEnv.TRACE)

RECURSIVE WalkF(_, _, _, _)
WalkF(f, h, c, fuel) == IF c = h \/ fuel = 0 THEN <<>> ELSE <<c>> \o WalkF(f, h, f[c], fuel - 1)
Elems(s) == {s[i] : i \in 1..Len(s)}
InR(f, M) == \A i \in 1..M : f[i] \in 1..M

ListOK(e) ==
  LET K == e.K  M == K + 2  nx == e.post.next  pv == e.post.prev  Ls == <<e.L1, e.L2>> IN
  /\ InR(nx, M) /\ InR(pv, M)
  /\ \A q \in {1, 2} :
       LET h == K + q  fw == WalkF(nx, h, nx[h], M + 1)  bw == WalkF(pv, h, pv[h], M + 1) IN
       /\ fw = Ls[q] /\ bw = Reverse(Ls[q])
       /\ \A x \in Elems(fw) \cup {h} : pv[nx[x]] = x /\ nx[pv[x]] = x
  \* the traversal macros (upper / lower case spelling, removal-safe variant) visit exactly the abstract sequence:
  \* mac = per head <<NEXT, PREV, next, prev, SAFE_NEXT, SAFE_PREV, safe_next, safe_prev>>
  /\ \A q \in {1, 2} : LET o == (q - 1) * 8 IN
       /\ e.mac[o + 1] = Ls[q] /\ e.mac[o + 3] = Ls[q] /\ e.mac[o + 5] = Ls[q] /\ e.mac[o + 7] = Ls[q]
       /\ e.mac[o + 2] = Reverse(Ls[q]) /\ e.mac[o + 4] = Reverse(Ls[q]) /\ e.mac[o + 6] = Reverse(Ls[q]) /\ e.mac[o + 8] = Reverse(Ls[q])

RECURSIVE Chain(_, _, _)
Chain(f, c, fuel) == IF c = 0 \/ fuel = 0 THEN <<>> ELSE <<c>> \o Chain(f, f[c], fuel - 1)
SlistOK(e) ==
  LET K == e.K  M == K + 2  nx == e.post.next  Ls == <<e.L1, e.L2>> IN
  /\ \A i \in 1..M : nx[i] \in 0..M
  /\ \A q \in {1, 2} :
       LET s == Chain(nx, nx[K + q], M + 1) IN
       /\ s = Ls[q]
       /\ e.post.tail[q] = (IF Len(s) = 0 THEN K + q ELSE s[Len(s)])     \* the tail designates the last node
       /\ LET o == (q - 1) * 4 IN e.mac[o + 1] = Ls[q] /\ e.mac[o + 2] = Ls[q] /\ e.mac[o + 3] = Ls[q] /\ e.mac[o + 4] = Ls[q]     \* traversal macros

\* the raw linking primitives on nodes X = 1, Y = 2 whose fields <<X.next, X.prev, Y.next, Y.prev>> all designate node 3
\* beforehand: link(X, Y) sets X.next and Y.prev; loop(X, Y) sets X.prev and Y.next; constructor, destructor and init
\* make a node its own neighbour in both directions; nothing else moves.  Singly linked: link sets the one field,
\* constructor / destructor / init give an empty chain whose tail is the head.
PrimsOK(e) ==
  /\ e.link = <<2, 3, 3, 1>> /\ e.loop = <<3, 2, 1, 3>>
  /\ e.ctor = <<1, 1, 3, 3>> /\ e.dtor = <<3, 3, 2, 2>> /\ e.init = <<1, 1, 3, 3>>
  /\ e.slink = <<2, 3>> /\ e.sctor = <<1, 1>> /\ e.sdtor = <<1, 1>> /\ e.sinit = <<1, 1>>

Accept(e) == IF "prims" \in DOMAIN e THEN PrimsOK(e) ELSE IF "tail" \in DOMAIN e.post THEN SlistOK(e) ELSE ListOK(e)

TraceInit == l = 1
Step == /\ l <= Len(Tr)
        /\ (IF Accept(Tr[l]) = TRUE THEN TRUE ELSE PrintT(<<"TRACE-BAD", l>>))
        /\ l' = l + 1
TraceNext == Step
TraceAccepted == LET d == TLCGet("stats").diameter IN
                 IF d - 1 = Len(Tr) THEN TRUE ELSE Print(<<"TRACE-POS", d, "of", Len(Tr)>>, FALSE)
=============================================================================
