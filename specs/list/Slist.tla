------------------------------- MODULE Slist -------------------------------
(* The singly linked list with tail pointer of include/a/slist.h.
   Ids: nodes 1..K, head sentinels H(q) = K+q embedded in list q; 0 = null.
   Pointer level: nx (next pointer of every id), tl (tail pointer of each list).
   Abstract level: L[q] sequences, Free = detached nodes.                    *)
EXTENDS Integers, Sequences, FiniteSets, TLC
CONSTANT K
Nodes == 1..K
H(q) == K + q
Ids == 1..(K + 2)
VARIABLES nx, tl, L, Free, last
vars == <<nx, tl, L, Free, last>>
view == <<nx, tl, L, Free>>
Elems(s) == {s[i] : i \in 1..Len(s)}
Pos(s, x) == CHOOSE i \in 1..Len(s) : s[i] = x

\* ---- transcription (P = [nx, tl])
SAdd(P, q, prev, node) ==
  LET t1 == IF P.nx[prev] = 0 THEN [P.tl EXCEPT ![q] = node] ELSE P.tl
      n1 == [P.nx EXCEPT ![node] = P.nx[prev]]
  IN [nx |-> [n1 EXCEPT ![prev] = node], tl |-> t1]
SAddHead(P, q, node) == SAdd(P, q, H(q), node)
SAddTail(P, q, node) ==
  LET n1 == [P.nx EXCEPT ![P.tl[q]] = node] IN [nx |-> [n1 EXCEPT ![node] = 0], tl |-> [P.tl EXCEPT ![q] = node]]
SDel(P, q, prev) ==
  LET node == P.nx[prev] IN
  IF node = 0 THEN P
  ELSE [nx |-> [P.nx EXCEPT ![prev] = P.nx[node]], tl |-> IF P.nx[node] = 0 THEN [P.tl EXCEPT ![q] = prev] ELSE P.tl]
SDelHead(P, q) ==
  LET node == P.nx[H(q)] IN
  IF node = 0 THEN P
  ELSE [nx |-> [P.nx EXCEPT ![H(q)] = P.nx[node]], tl |-> IF P.nx[node] = 0 THEN [P.tl EXCEPT ![q] = H(q)] ELSE P.tl]
SMov(P, q, to, at) ==
  LET node == P.nx[H(q)] IN
  IF node = 0 THEN P
  ELSE LET t1 == IF P.nx[at] = 0 THEN [P.tl EXCEPT ![to] = P.tl[q]] ELSE P.tl
           n1 == [P.nx EXCEPT ![P.tl[q]] = P.nx[at]]
       IN [nx |-> [n1 EXCEPT ![at] = node], tl |-> t1]
SInit(P, q) == [nx |-> [P.nx EXCEPT ![H(q)] = 0], tl |-> [P.tl EXCEPT ![q] = H(q)]]
SRot(P, q) ==
  LET node == P.nx[H(q)] IN
  IF node = 0 \/ P.nx[node] = 0 THEN P      \* fewer than two nodes: nothing to rotate
  ELSE LET n1 == [P.nx EXCEPT ![H(q)] = P.nx[node]]
           n2 == [n1 EXCEPT ![P.tl[q]] = node]
           n3 == [n2 EXCEPT ![node] = 0]
       IN [nx |-> n3, tl |-> [P.tl EXCEPT ![q] = node]]

Rec(op, q, a1, a2) == [op |-> op, q |-> q, a1 |-> a1, a2 |-> a2]
Cur == [nx |-> nx, tl |-> tl]
Set(P) == nx' = P.nx /\ tl' = P.tl
Init == /\ nx = [i \in Ids |-> 0] /\ tl = <<H(1), H(2)>>
        /\ L = <<(<<>>), (<<>>)>> /\ Free = Nodes /\ last = Rec("init", 0, 0, 0)
After(s, q, c, x) == IF c = H(q) THEN <<x>> \o s ELSE LET i == Pos(s, c) IN SubSeq(s, 1, i) \o <<x>> \o SubSeq(s, i + 1, Len(s))
Add(q, c, x) == /\ x \in Free /\ (c = H(q) \/ c \in Elems(L[q]))
                /\ Set(SAdd(Cur, q, c, x)) /\ L' = [L EXCEPT ![q] = After(@, q, c, x)] /\ Free' = Free \ {x}
                /\ last' = Rec("add", q, c, x)
AddHead(q, x) == /\ x \in Free /\ Set(SAddHead(Cur, q, x)) /\ L' = [L EXCEPT ![q] = <<x>> \o @] /\ Free' = Free \ {x}
                 /\ last' = Rec("add_head", q, x, 0)
AddTail(q, x) == /\ x \in Free /\ Set(SAddTail(Cur, q, x)) /\ L' = [L EXCEPT ![q] = Append(@, x)] /\ Free' = Free \ {x}
                 /\ last' = Rec("add_tail", q, x, 0)
Del(q, c) == /\ (c = H(q) \/ c \in Elems(L[q]))
             /\ LET i == IF c = H(q) THEN 0 ELSE Pos(L[q], c) IN
                /\ Set(SDel(Cur, q, c))
                /\ IF i < Len(L[q]) THEN L' = [L EXCEPT ![q] = SubSeq(@, 1, i) \o SubSeq(@, i + 2, Len(@))] /\ Free' = Free \cup {L[q][i + 1]}
                                    ELSE UNCHANGED <<L, Free>>
             /\ last' = Rec("del", q, c, 0)
DelHead(q) == /\ Set(SDelHead(Cur, q))
              /\ IF Len(L[q]) > 0 THEN L' = [L EXCEPT ![q] = Tail(@)] /\ Free' = Free \cup {L[q][1]} ELSE UNCHANGED <<L, Free>>
              /\ last' = Rec("del_head", q, 0, 0)
\* a_slist_mov(ctx, to, at) then a_slist_init(ctx): all nodes of list q go after `at` in the other list
Mov(q, at) == LET to == 3 - q IN
              /\ (at = H(to) \/ at \in Elems(L[to]))
              /\ Set(SInit(SMov(Cur, q, to, at), q))
              /\ L' = [L EXCEPT ![to] = IF at = H(to) THEN L[q] \o @ ELSE LET i == Pos(@, at) IN SubSeq(@, 1, i) \o L[q] \o SubSeq(@, i + 1, Len(@)),
                                ![q] = <<>>]
              /\ UNCHANGED Free /\ last' = Rec("mov", q, at, 0)
Rot(q) == /\ Set(SRot(Cur, q))
          /\ L' = [L EXCEPT ![q] = IF Len(@) = 0 THEN @ ELSE Tail(@) \o <<@[1]>>]
          /\ UNCHANGED Free /\ last' = Rec("rot", q, 0, 0)
Next == \E q \in {1, 2} :
          \/ \E c \in Ids, x \in Nodes : Add(q, c, x)
          \/ \E x \in Nodes : AddHead(q, x) \/ AddTail(q, x)
          \/ \E c \in Ids : Del(q, c) \/ Mov(q, c)
          \/ DelHead(q) \/ Rot(q)
Spec == Init /\ [][Next]_vars

RECURSIVE Walk(_, _, _)
Walk(f, c, fuel) == IF c = 0 \/ fuel = 0 THEN <<>> ELSE <<c>> \o Walk(f, f[c], fuel - 1)
ListOf(f, q) == Walk(f, f[H(q)], K + 2)
TailOK(f, t, q) == t[q] = (IF Len(ListOf(f, q)) = 0 THEN H(q) ELSE ListOf(f, q)[Len(ListOf(f, q))])
Refines == \A q \in {1, 2} : ListOf(nx, q) = L[q] /\ TailOK(nx, tl, q)
Inv == Refines
=============================================================================
