-------------------------------- MODULE Que --------------------------------
(* a_que (src/que.c): a double-ended queue of fixed-size elements kept in an
   intrusive ring (a_list) with a pool of recycled nodes.
   Model state, per queue q in {1,2}: s[q] the sequence of element values
   (SeqAbs encoding v = 10*key + tag), p[q] the number of recycled nodes in the
   pool, z[q] the element size.  All operations act on queue 1; queue 2 is the
   second operand of SwapQueues.  Node identities (addresses) are not part of
   the model state; address stability and "a recycled node is never handed out
   while enqueued" are judged by QueTrace on the identities recorded from the
   real code for every replayed transition.                                  *)
EXTENDS SeqAbs, TLC
CONSTANTS Vals, MaxNodes, Sizes, Idx
VARIABLES s, p, z, last
vars == <<s, p, z, last>>
view == <<s, p, z>>
n1 == Len(s[1])
Total == Len(s[1]) + p[1] + Len(s[2]) + p[2]

Rec(op, a1, a2, ret, val) == [op |-> op, a1 |-> a1, a2 |-> a2, ret |-> ret, val |-> val]
\* ret: 0 = null, k > 0 = the element at position k (1-based) of the post sequence of queue 1 / pre sequence for removals
Init == /\ s = <<(<<>>), (<<>>)>> /\ p = <<0, 0>> /\ z \in {<<a, b>> : a \in Sizes, b \in Sizes}
        /\ last = Rec("init", 0, 0, 0, 0)

\* taking a node: from the pool if there is one, else a fresh allocation
Take == IF p[1] > 0 THEN p[1] - 1 ELSE 0
CanTake == p[1] > 0 \/ Total < MaxNodes

InsertOp(op, i, v) ==
  /\ CanTake
  /\ s' = [s EXCEPT ![1] = InsAt(s[1], i, v)] /\ p' = [p EXCEPT ![1] = Take] /\ UNCHANGED z
  /\ last' = Rec(op, i, v, InsPos(s[1], i) + 1, v)
RemoveOp(op, i) ==
  IF n1 = 0 THEN UNCHANGED <<s, p, z>> /\ last' = Rec(op, i, 0, 0, 0)
  ELSE /\ s' = [s EXCEPT ![1] = RemAt(s[1], i)] /\ p' = [p EXCEPT ![1] = @ + 1] /\ UNCHANGED z
       /\ last' = Rec(op, i, 0, RemPos(s[1], i) + 1, s[1][RemPos(s[1], i) + 1])
At(i) == /\ UNCHANGED <<s, p, z>>
         /\ LET j == IF i >= 0 THEN i + 1 ELSE n1 + i + 1 IN
            last' = Rec("at", i, 0, IF j >= 1 /\ j <= n1 THEN j ELSE 0, IF j >= 1 /\ j <= n1 THEN s[1][j] ELSE 0)
Fore == UNCHANGED <<s, p, z>> /\ last' = Rec("fore", 0, 0, IF n1 > 0 THEN 1 ELSE 0, IF n1 > 0 THEN s[1][1] ELSE 0)
Back == UNCHANGED <<s, p, z>> /\ last' = Rec("back", 0, 0, n1, IF n1 > 0 THEN s[1][n1] ELSE 0)
SortFore == /\ (n1 >= 1 => Sorted(Tail(s[1])))
            /\ s' = [s EXCEPT ![1] = SortForeOf(s[1])] /\ UNCHANGED <<p, z>> /\ last' = Rec("sort_fore", 0, 0, 0, 0)
SortBack == /\ (n1 >= 1 => Sorted(SubSeq(s[1], 1, n1 - 1)))
            /\ s' = [s EXCEPT ![1] = SortBackOf(s[1])] /\ UNCHANGED <<p, z>> /\ last' = Rec("sort_back", 0, 0, 0, 0)
PushSort(v) == /\ Sorted(s[1]) /\ CanTake
               /\ s' = [s EXCEPT ![1] = InsAt(s[1], PushSortPos(s[1], v), v)] /\ p' = [p EXCEPT ![1] = Take] /\ UNCHANGED z
               /\ last' = Rec("push_sort", 0, v, PushSortPos(s[1], v) + 1, v)
\* a_que_swap_: any two elements of the queue, in either order, neighbours and an element with itself included
SwapElems(i, j) == /\ i >= 1 /\ j >= 1 /\ i <= n1 /\ j <= n1
                   /\ s' = [s EXCEPT ![1] = [s[1] EXCEPT ![i] = s[1][j], ![j] = s[1][i]]] /\ UNCHANGED <<p, z>>
                   /\ last' = Rec("swap_elems", i - 1, j - 1, 0, 0)
SwapQueues == /\ s' = <<s[2], s[1]>> /\ p' = <<p[2], p[1]>> /\ z' = <<z[2], z[1]>>
              /\ last' = Rec("swap_queues", 0, 0, 0, 0)
Drop == /\ s' = [s EXCEPT ![1] = <<>>] /\ p' = [p EXCEPT ![1] = @ + n1] /\ UNCHANGED z
        /\ last' = Rec("drop", 0, 0, 0, 0)
Setz(k) == /\ s' = [s EXCEPT ![1] = <<>>] /\ p' = [p EXCEPT ![1] = @ + n1] /\ z' = [z EXCEPT ![1] = IF k = 0 THEN 1 ELSE k]
           /\ last' = Rec("setz", k, 0, 0, 0)

\* traversal macros and the unchecked end accessors: read-only, judged on the recorded event
Walk == UNCHANGED <<s, p, z>> /\ last' = Rec("walk", 0, 0, 0, 0)

Next ==
  \/ Walk
  \/ \E v \in Vals : InsertOp("push_back", HUGE, v) \/ InsertOp("push_fore", 0, v) \/ PushSort(v)
  \/ \E v \in Vals, i \in Idx : InsertOp("insert", i, v)
  \/ RemoveOp("pull_back", HUGE) \/ RemoveOp("pull_fore", 0)
  \/ \E i \in Idx : RemoveOp("remove", i)
  \/ \E i \in -(MaxNodes + 1)..(MaxNodes + 1) : At(i)
  \/ Fore \/ Back \/ SortFore \/ SortBack \/ SwapQueues \/ Drop
  \/ \E i \in 1..MaxNodes, j \in 1..MaxNodes : SwapElems(i, j)
  \/ \E k \in Sizes \cup {0} : Setz(k)
Spec == Init /\ [][Next]_vars

TypeOK == Total <= MaxNodes /\ p[1] >= 0 /\ p[2] >= 0
SortedKept == last.op \in {"sort_fore", "sort_back", "push_sort"} => Sorted(s[1])
Inv == TypeOK /\ SortedKept
=============================================================================
