------------------------------- MODULE QueMC -------------------------------
EXTENDS Que, Json
HugeM1 == HUGE - 1
IdxShort == {0, 1, 2, 3, 4, HugeM1, HUGE}
IdxLong == {0, 1, 8, 9, 10, HUGE}
OpCode(o) == CASE o = "push_back" -> 1 [] o = "push_fore" -> 2 [] o = "insert" -> 3 [] o = "pull_back" -> 4
   [] o = "pull_fore" -> 5 [] o = "remove" -> 6 [] o = "at" -> 7 [] o = "fore" -> 8 [] o = "back" -> 9
   [] o = "sort_fore" -> 10 [] o = "sort_back" -> 11 [] o = "push_sort" -> 12 [] o = "swap_elems" -> 13
   [] o = "swap_queues" -> 14 [] o = "drop" -> 15 [] o = "setz" -> 16 [] o = "walk" -> 17 [] OTHER -> 0
Emit == PrintT(ToJson(<<6666666, OpCode(last'.op), last'.a1, last'.a2, last'.ret, last'.val,
                        z[1], z[2], p[1], p[2], Len(s[1]), Len(s[2]),
                        z'[1], z'[2], p'[1], p'[2], Len(s'[1]), Len(s'[2]),
                        s[1], s[2], s'[1], s'[2]>>))
=============================================================================
