------------------------------ MODULE QueTrace ------------------------------
(* Trace specification for a_que.  An event records, for both queues, the
   forward walk before the call and the forward and backward walks after it as
   sequences of <<node identity, value>>, the identities in the recycling pool,
   num and siz, plus the identity and value behind the returned pointer.
   TLC recomputes the abstract result (SeqAbs) on the recorded pre-state and
   checks, on what the real code produced:
     - contents = abstract sequence; num = length; backward walk = reverse of forward
     - element addresses stay fixed while enqueued (a value travels with its node)
     - a node handed out by push/insert is not enqueued already, and no pooled
       node is enqueued (pool and ring are disjoint, pool has no duplicates)
     - the other queue is untouched; whole-queue swap exchanges everything     *)
EXTENDS SeqAbs, Json, IOUtils, TLC
VARIABLE l
Tr == ndJsonDeserialize(IOEnv.TRACE)

Ids(ps) == {ps[i][1] : i \in 1..Len(ps)}
Vals(ps) == [i \in 1..Len(ps) |-> ps[i][2]]
SetOf(s) == {s[i] : i \in 1..Len(s)}
NoDup(s) == Cardinality(SetOf(s)) = Len(s)
WellFormed(q) == /\ q.bwd = Reverse(q.fwd) /\ q.num = Len(q.fwd)
                 /\ Cardinality(Ids(q.fwd)) = Len(q.fwd) /\ NoDup(q.pool)
                 /\ Ids(q.fwd) \cap SetOf(q.pool) = {}
Same(a, b) == a.fwd = b.fwd /\ SetOf(a.pool) = SetOf(b.pool) /\ a.num = b.num /\ a.siz = b.siz

\* insert pair at 0-based position pos
InsPair(ps, pos, pr) == SubSeq(ps, 1, pos) \o <<pr>> \o SubSeq(ps, pos + 1, Len(ps))
DelPair(ps, pos) == SubSeq(ps, 1, pos) \o SubSeq(ps, pos + 2, Len(ps))

Accept(e) ==
  LET a == e.pre.q1  b == e.post.q1  s == Vals(a.fwd)  n == Len(s)
      otherSame == Same(e.pre.q2, e.post.q2)
      poolA == SetOf(a.pool)  poolB == SetOf(b.pool)
  IN
  /\ WellFormed(b) /\ WellFormed(e.post.q2)
  /\ CASE e.op \in {"push_back", "push_fore", "insert", "push_sort"} ->
            LET pos == CASE e.op = "push_back" -> n [] e.op = "push_fore" -> 0 [] e.op = "insert" -> InsPos(s, e.a1)
                         [] OTHER -> PushSortPos(s, e.a2) IN
            /\ otherSame /\ e.ret # 0
            /\ e.ret \notin Ids(a.fwd)                               \* never hands out an enqueued node
            /\ b.fwd = InsPair(a.fwd, pos, <<e.ret, e.a2>>)           \* residents keep their addresses
            /\ poolB = poolA \ {e.ret} /\ b.siz = a.siz
            /\ (e.op = "push_sort" => Sorted(Vals(b.fwd)))
       [] e.op \in {"pull_back", "pull_fore", "remove"} ->
            IF n = 0 THEN Same(a, b) /\ otherSame /\ e.ret = 0
            ELSE LET pos == CASE e.op = "pull_back" -> n - 1 [] e.op = "pull_fore" -> 0 [] OTHER -> RemPos(s, e.a1) IN
                 /\ otherSame
                 /\ e.ret = a.fwd[pos + 1][1] /\ e.val = a.fwd[pos + 1][2]      \* returns the removed element intact
                 /\ b.fwd = DelPair(a.fwd, pos)
                 /\ poolB = poolA \cup {e.ret} /\ b.siz = a.siz
       [] e.op = "at" ->
            LET j == IF e.a1 >= 0 THEN e.a1 + 1 ELSE n + e.a1 + 1 IN
            /\ Same(a, b) /\ otherSame
            /\ IF j >= 1 /\ j <= n THEN e.ret = a.fwd[j][1] /\ e.val = a.fwd[j][2] ELSE e.ret = 0
       [] e.op = "walk" ->
            \* both spellings of the traversal macros visit exactly the elements, front to back resp. back to front;
            \* the unchecked end accessors agree with the checked ones; the getters report length and element size
            LET w == e.walk  rv == [i \in 1..n |-> s[n + 1 - i]] IN
            /\ Same(a, b) /\ otherSame
            /\ w.fwd = s /\ w.fwd2 = s /\ w.rev = rv /\ w.rev2 = rv /\ w.acc = 1 /\ w.num = n /\ w.siz = a.siz
       [] e.op = "fore" -> Same(a, b) /\ otherSame /\ (IF n > 0 THEN e.ret = a.fwd[1][1] ELSE e.ret = 0)
       [] e.op = "back" -> Same(a, b) /\ otherSame /\ (IF n > 0 THEN e.ret = a.fwd[n][1] ELSE e.ret = 0)
       [] e.op = "sort_fore" ->
            /\ otherSame /\ Vals(b.fwd) = SortForeOf(s) /\ SetOf(b.fwd) = SetOf(a.fwd) /\ poolB = poolA /\ Sorted(Vals(b.fwd))
       [] e.op = "sort_back" ->
            /\ otherSame /\ Vals(b.fwd) = SortBackOf(s) /\ SetOf(b.fwd) = SetOf(a.fwd) /\ poolB = poolA /\ Sorted(Vals(b.fwd))
       [] e.op = "swap_elems" ->
            /\ otherSame /\ poolB = poolA
            /\ b.fwd = [a.fwd EXCEPT ![e.a1 + 1] = a.fwd[e.a2 + 1], ![e.a2 + 1] = a.fwd[e.a1 + 1]]
       [] e.op = "swap_queues" -> Same(e.pre.q2, b) /\ Same(a, e.post.q2)
       [] e.op = "drop" ->
            /\ otherSame /\ b.fwd = <<>> /\ poolB = poolA \cup Ids(a.fwd) /\ b.siz = a.siz /\ e.rc = 0
       [] e.op = "setz" ->
            /\ otherSame /\ b.fwd = <<>> /\ Len(b.pool) = Len(a.pool) + n /\ e.rc = 0
            /\ b.siz = (IF e.a1 = 0 THEN 1 ELSE e.a1)
       [] OTHER -> FALSE
  \* element destructor callbacks.  The queue owns the storage of parked nodes as well as of enqueued ones, and the
  \* destructor is the caller's hook for that storage: emptying the queue (drop, element-size change) hands every node it
  \* owns - enqueued or parked - to the destructor exactly once, and so does destroying the queue afterwards ("final")
  /\ ("dtor" \in DOMAIN e => e.ndtor = Len(e.dtor) /\ SetOf(e.dtor) = Ids(a.fwd) \cup poolA /\ Len(e.dtor) = Len(a.fwd) + Len(a.pool))
  /\ ("final" \in DOMAIN e => e.nfinal = Len(e.final) /\ SetOf(e.final) = Ids(b.fwd) \cup poolB /\ Len(e.final) = Len(b.fwd) + Len(b.pool))

TraceInit == l = 1
Step == /\ l <= Len(Tr)
        /\ (IF Accept(Tr[l]) = TRUE THEN TRUE ELSE PrintT(<<"TRACE-BAD", l>>))
        /\ l' = l + 1
TraceNext == Step
TraceAccepted == LET d == TLCGet("stats").diameter IN
                 IF d - 1 = Len(Tr) THEN TRUE ELSE Print(<<"TRACE-POS", d, "of", Len(Tr)>>, FALSE)
=============================================================================
