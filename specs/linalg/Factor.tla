-------------------------------- MODULE Factor --------------------------------
(* Rational matrix algebra and the statement of C08 (LU with partial pivoting,
   LDL^T, Cholesky) as predicates over exact rationals.  Matrices are row-major
   sequences of rationals; element (r, c), 1-based, of an n x n matrix M is
   M[(r-1)*n + c].                                                           *)
EXTENDS Integers, Sequences, FiniteSets, Rational
E(M, n, r, c) == M[(r - 1) * n + c]
MatR(n, F(_, _)) == [k \in 1..(n * n) |-> F(((k - 1) \div n) + 1, ((k - 1) % n) + 1)]
RECURSIVE DotR(_, _, _, _, _, _)
DotR(X, Y, n, r, c, k) == IF k = 0 THEN RQ(0) ELSE RAdd(DotR(X, Y, n, r, c, k - 1), RMul(E(X, n, r, k), E(Y, n, k, c)))
MulR(X, Y, n) == MatR(n, LAMBDA r, c : DotR(X, Y, n, r, c, n))
TrR(X, n) == MatR(n, LAMBDA r, c : E(X, n, c, r))
IdR(n) == MatR(n, LAMBDA r, c : IF r = c THEN RQ(1) ELSE RQ(0))
EqM(X, Y) == Len(X) = Len(Y) /\ \A k \in 1..Len(X) : REq(X[k], Y[k])
MulVec(X, v, n) == [r \in 1..n |-> RSum([k \in 1..n |-> RMul(E(X, n, r, k), v[k])], 1)]
EqV(x, y) == Len(x) = Len(y) /\ \A k \in 1..Len(x) : REq(x[k], y[k])
UnitLower(L, n) == \A r \in 1..n, c \in 1..n : (r = c => REq(E(L, n, r, c), RQ(1))) /\ (r < c => E(L, n, r, c)[1] = 0)
Lower(L, n) == \A r \in 1..n, c \in 1..n : r < c => E(L, n, r, c)[1] = 0
Upper(U, n) == \A r \in 1..n, c \in 1..n : r > c => E(U, n, r, c)[1] = 0
RECURSIVE DiagProd(_, _, _)
DiagProd(M, n, k) == IF k = 0 THEN RQ(1) ELSE RMul(DiagProd(M, n, k - 1), E(M, n, k, k))
IsPerm(p, n) == Len(p) = n /\ {p[k] : k \in 1..n} = 0..(n - 1)                 \* the code's permutation is 0-based
Parity(p, n) == LET inv == Cardinality({pr \in (1..n) \X (1..n) : pr[1] < pr[2] /\ p[pr[1]] > p[pr[2]]}) IN IF inv % 2 = 0 THEN 1 ELSE -1
PermRows(A, p, n) == MatR(n, LAMBDA r, c : E(A, n, p[r] + 1, c))               \* row r of P*A is row p[r] of A
\* Leibniz / Laplace determinant
RECURSIVE DetR(_, _)
Minor(M, n, col) == [k \in 1..((n - 1) * (n - 1)) |->
    LET r == ((k - 1) \div (n - 1)) + 2  cc == ((k - 1) % (n - 1)) + 1  c == IF cc >= col THEN cc + 1 ELSE cc IN E(M, n, r, c)]
DetR(M, n) == IF n = 1 THEN M[1]
              ELSE RSum([c \in 1..n |-> RMul(RMul(RQ(IF c % 2 = 1 THEN 1 ELSE -1), E(M, n, 1, c)), DetR(Minor(M, n, c), n - 1))], 1)
Symmetric(A, n) == \A r \in 1..n, c \in 1..n : REq(E(A, n, r, c), E(A, n, c, r))
=============================================================================
