CONSTANT D = 1
INIT TraceInit
NEXT TraceNext
POSTCONDITION TraceAccepted
CHECK_DEADLOCK FALSE
