------------------------------- MODULE MatTrace -------------------------------
(* Judges the real matrix kernels (harness/mat_h.c): each event names the kernel,
   the dimensions and the coding of the inputs, and carries the output array the
   real routine produced plus the state of the guard cells around it.  TLC
   recomputes the definition (MatKernels!Expected) and demands equality.     *)
EXTENDS MatKernels, IOUtils
VARIABLE l
Tr == ndJsonDeserialize(IOEnv.TRACE)
KName(c) == CHOOSE k \in Kernels : KCode(k) = c
Accept(e) == /\ e.guard = 1                                   \* nothing written outside the result array
             /\ e.out = Expected(KName(e.k), e.dims)           \* exactly the specified values / pattern
TraceInit == kern = "none" /\ dims = <<0, 0, 0, 0>> /\ l = 1
Step == /\ l <= Len(Tr)
        /\ (IF Accept(Tr[l]) = TRUE THEN TRUE ELSE PrintT(<<"TRACE-BAD", l>>))
        /\ l' = l + 1 /\ UNCHANGED <<kern, dims>>
TraceNext == Step
TraceAccepted == LET d == TLCGet("stats").diameter IN
                 IF d - 1 = Len(Tr) THEN TRUE ELSE Print(<<"TRACE-POS", d, "of", Len(Tr)>>, FALSE)
=============================================================================
