---- MODULE PluMC ----
EXTENDS Plu
ValsQ == {-1, 0, 1}
ValsT == {-1, 0, 1, 2}
====
