--------------------------------- MODULE Plu ---------------------------------
(* Design-level model of a_real_plu (src/linalg_plu.c) over exact rationals:
   one action per elimination step - column maximum search (first strict maximum,
   as in the code), row swap with sign flip and permutation update, elimination
   storing the multipliers in place.  TLC checks, for every n x n matrix over
   Vals, the statement of C08 on the exact domain:
     p is a permutation and sign is its parity; every multiplier is at most 1 in
     magnitude; P*A = L*U exactly; failure iff the pivot column is exactly zero. *)
EXTENDS Integers, Sequences, FiniteSets, TLC, Rational
CONSTANTS n, Vals
I == 1..n
VARIABLES A0, A, p, sign, i, status
vars == <<A0, A, p, sign, i, status>>
Init == /\ A0 \in [I \X I -> Vals] /\ A = [rc \in I \X I |-> RQ(A0[rc])]
        /\ p = [r \in I |-> r] /\ sign = 1 /\ i = 1 /\ status = "run"
RECURSIVE MaxRow(_, _, _, _)
MaxRow(M, col, r, best) == IF r > n THEN best
   ELSE MaxRow(M, col, r + 1, IF RLt(RAbs(M[<<best, col>>]), RAbs(M[<<r, col>>])) THEN r ELSE best)
Step == /\ status = "run" /\ i <= n
        /\ LET m == MaxRow(A, i, i + 1, i) IN
           IF A[<<m, i>>][1] = 0 THEN status' = "fail" /\ UNCHANGED <<A0, A, p, sign, i>>
           ELSE LET As == [rc \in I \X I |-> IF rc[1] = i THEN A[<<m, rc[2]>>] ELSE IF rc[1] = m THEN A[<<i, rc[2]>>] ELSE A[rc]]
                    piv == As[<<i, i>>]
                    An == [rc \in I \X I |-> IF rc[1] > i THEN (LET x == RDiv(As[<<rc[1], i>>], piv) IN
                                                  IF rc[2] = i THEN x ELSE IF rc[2] > i THEN RSub(As[rc], RMul(As[<<i, rc[2]>>], x)) ELSE As[rc])
                                             ELSE As[rc]]
                IN /\ A' = An
                   /\ p' = IF m = i THEN p ELSE [p EXCEPT ![i] = p[m], ![m] = p[i]]
                   /\ sign' = IF m = i THEN sign ELSE -sign
                   /\ i' = i + 1
                   /\ status' = IF i = n THEN "ok" ELSE "run"
                   /\ UNCHANGED A0
Next == Step
L(r, c) == IF r = c THEN RQ(1) ELSE IF r > c THEN A[<<r, c>>] ELSE RQ(0)
U(r, c) == IF r <= c THEN A[<<r, c>>] ELSE RQ(0)
RECURSIVE Dot(_, _, _)
Dot(r, c, k) == IF k = 0 THEN RQ(0) ELSE RAdd(Dot(r, c, k - 1), RMul(L(r, k), U(k, c)))
Recon == status = "ok" => \A r \in I, c \in I : REq(Dot(r, c, n), RQ(A0[<<p[r], c>>]))
MultBound == status = "ok" => \A r \in I, c \in I : r > c => ~RLt(RQ(1), RAbs(A[<<r, c>>]))
Perm == {p[r] : r \in I} = I
\* parity of p by counting inversions
Inversions == Cardinality({pr \in I \X I : pr[1] < pr[2] /\ p[pr[1]] > p[pr[2]]})
SignIsParity == sign = (IF Inversions % 2 = 0 THEN 1 ELSE -1)
\* Leibniz determinant of A0 for n <= 3
Det3 == IF n = 1 THEN A0[<<1, 1>>] ELSE IF n = 2 THEN A0[<<1, 1>>] * A0[<<2, 2>>] - A0[<<1, 2>>] * A0[<<2, 1>>]
        ELSE A0[<<1,1>>] * (A0[<<2,2>>] * A0[<<3,3>>] - A0[<<2,3>>] * A0[<<3,2>>])
           - A0[<<1,2>>] * (A0[<<2,1>>] * A0[<<3,3>>] - A0[<<2,3>>] * A0[<<3,1>>])
           + A0[<<1,3>>] * (A0[<<2,1>>] * A0[<<3,2>>] - A0[<<2,2>>] * A0[<<3,1>>])
RECURSIVE ProdU(_)
ProdU(k) == IF k = 0 THEN RQ(1) ELSE RMul(ProdU(k - 1), A[<<k, k>>])
DetOK == (status = "ok" /\ n <= 3) => REq(RMul(RQ(sign), ProdU(n)), RQ(Det3))
FailIffSingular == (status = "fail" /\ n <= 3) => Det3 = 0
Inv == Recon /\ MultBound /\ Perm /\ SignIsParity /\ DetOK /\ FailIffSingular
=============================================================================
