------------------------------ MODULE FactorTrace ------------------------------
(* Judges the real factorizations (harness/fact_h.c) with exact rational
   arithmetic.  kind: 1 LU, 2 LU on an exactly singular input, 3 LDL^T, 4 LDL^T
   on an exactly singular input, 5 Cholesky, 6 Cholesky on an input whose pivot
   is not positive.  All inputs are built from dyadic factors, so all recorded
   values are exact dyadic rationals ([0,-1] marks anything else: rejected).  *)
EXTENDS Factor, Json, IOUtils, TLC
VARIABLE l
Tr == ndJsonDeserialize(IOEnv.TRACE)
Exact(s) == \A i \in 1..Len(s) : s[i][2] >= 0
Rs(s) == [i \in 1..Len(s) |-> RDy(s[i])]
\* logged values ([n,k] exact or [n,16,1] approximate, |value| < 1024) brought to units of 2^-16
To16(d) == IF d[2] <= 16 THEN d[1] * (2 ^ (16 - d[2])) ELSE d[1] \div (2 ^ (d[2] - 16))
\* log2 |x| for x = +-2^k (k integer), as a rational; <<999,1>> otherwise
RECURSIVE Log2Of(_)
Log2Of(x) == LET a == RAbs(x) IN
             IF a = <<1, 1>> THEN 0
             ELSE IF a[2] = 1 /\ a[1] % 2 = 0 THEN 1 + Log2Of(<<a[1] \div 2, 1>>)
             ELSE IF a[1] = 1 /\ a[2] % 2 = 0 THEN Log2Of(<<1, a[2] \div 2>>) - 1
             ELSE 999
\* a sum of logarithms carries rounding error: compared within 2^-12, not exactly
DetLog2OK(det, logged) == LET k == Log2Of(det) IN k = 999 \/ (logged[2] >= 0 /\ LET x == To16(logged) - k * 65536 IN (IF x < 0 THEN -x ELSE x) <= 16)

NearVals(a, b) == a[2] >= 0 /\ b[2] >= 0 /\ LET x == To16(a) - To16(b) IN (IF x < 0 THEN -x ELSE x) <= 16
\* badly scaled input: the matrix times 2^+-400 factorizes as well, and its log-determinant moves by exactly n*400*ln 2
\* (the harness subtracts that), although the determinant itself is then outside the floating-point range for n >= 3
\* third variant: scaled to the bottom of the normal range (entries below the pivots become subnormal); a pivot that is
\* itself subnormal may be reported as failure - but a reported success must give the same log-determinant.  The solution is
\* compared (exactly) in the first two variants only: in the third, entries below the pivots lose their low bits to the
\* subnormal spacing, so the solved system is a slightly different one (seen at order 4 in the thorough tier)
ScaledOK(e) == \A i \in 1..Len(e.scaled) :
                 /\ (i <= 2 => e.scaled[i].rc = 0)
                 /\ (e.scaled[i].rc = 0 => NearVals(e.scaled[i].l2, e.lnd) /\ (i <= 2 => e.scaled[i].x = e.x))

PluOK(e) ==
  LET n == e.n  A == Rs(e.A)  L == Rs(e.L)  U == Rs(e.U)  inv == Rs(e.inv)  b == Rs(e.b)  x == Rs(e.x)  det == RDy(e.det)  dA == IF n <= 5 THEN DetR(A, n) ELSE RMul(RQ(e.sign), DiagProd(U, n, n)) IN
  \* orders above 5 (pattern instances): the Laplace expansion is replaced by sign * prod(U_ii) of the recorded factor
  /\ Exact(e.L) /\ Exact(e.U) /\ Exact(e.x) /\ (n <= 5 => Exact(e.inv) /\ Exact(e.inv2)) /\ Exact(e.P) /\ Exact(e.PT) /\ e.det[2] >= 0
  /\ IsPerm(e.p, n) /\ e.sign = Parity(e.p, n)                                  \* a true permutation whose parity is the sign
  /\ UnitLower(L, n) /\ Upper(U, n)
  /\ \A k \in 1..Len(L) : RLe(RAbs(L[k]), RQ(1))                               \* multipliers bounded by one
  /\ EqM(MulR(L, U, n), PermRows(A, e.p, n))                                    \* P*A = L*U
  /\ EqM(Rs(e.P), MatR(n, LAMBDA r, c : IF c = e.p[r] + 1 THEN RQ(1) ELSE RQ(0))) /\ EqM(Rs(e.PT), TrR(Rs(e.P), n))
  /\ EqV(Rs(e.Pb), [r \in 1..n |-> b[e.p[r] + 1]])
  /\ EqV(MulVec(A, x, n), b)                                                    \* solve
  /\ (n <= 5 => EqM(MulR(A, inv, n), IdR(n))) /\ e.inv2 = e.inv                 \* inverse (exact check for the small orders), both variants agree
  /\ REq(det, dA) /\ REq(det, RMul(RQ(e.sign), DiagProd(U, n, n)))              \* determinant = sign * prod(U_ii) = Leibniz
  /\ e.sgndet = RSign(dA) /\ DetLog2OK(dA, e.lnd)
LdlOK(e) ==
  LET n == e.n  A == Rs(e.A)  L == Rs(e.L)  d == Rs(e.D)  inv == Rs(e.inv)  b == Rs(e.b)  x == Rs(e.x)  det == RDy(e.det)
      Dm == MatR(n, LAMBDA r, c : IF r = c THEN d[r] ELSE RQ(0))
      dA == IF n <= 5 THEN DetR(A, n) ELSE DiagProd(Dm, n, n) IN
  /\ Exact(e.L) /\ Exact(e.D) /\ Exact(e.x) /\ (n <= 5 => Exact(e.inv) /\ Exact(e.inv2)) /\ e.det[2] >= 0
  /\ UnitLower(L, n) /\ EqM(MulR(MulR(L, Dm, n), TrR(L, n), n), A)
  /\ EqV(MulVec(A, x, n), b) /\ (n <= 5 => EqM(MulR(A, inv, n), IdR(n))) /\ e.inv2 = e.inv
  /\ REq(det, dA) /\ e.sgndet = RSign(dA) /\ DetLog2OK(dA, e.lnd)
LltOK(e) ==
  LET n == e.n  A == Rs(e.A)  L == Rs(e.L)  inv == Rs(e.inv)  b == Rs(e.b)  x == Rs(e.x)  det == RDy(e.det)
      dA == IF n <= 5 THEN DetR(A, n) ELSE RMul(DiagProd(L, n, n), DiagProd(L, n, n)) IN
  /\ Exact(e.L) /\ Exact(e.x) /\ (n <= 5 => Exact(e.inv) /\ Exact(e.inv2)) /\ e.det[2] >= 0
  /\ Lower(L, n) /\ \A k \in 1..n : E(L, n, k, k)[1] > 0                        \* strictly positive diagonal
  /\ EqM(MulR(L, TrR(L, n), n), A)
  /\ EqV(MulVec(A, x, n), b) /\ (n <= 5 => EqM(MulR(A, inv, n), IdR(n))) /\ e.inv2 = e.inv
  /\ REq(det, dA) /\ DetLog2OK(dA, e.lnd)

\* the strided triangular solves (right-hand side = a column of a matrix): the same solution as the unstrided pair, the other
\* columns untouched
StridedOK(e) == "xs" \in DOMAIN e => e.xs = e.x /\ e.xs_ok = 1
Accept(e) ==
  /\ Exact(e.A) /\ StridedOK(e)
  /\ CASE e.kind = 1 -> e.rc = 0 /\ PluOK(e) /\ ScaledOK(e)
       [] e.kind = 2 -> e.rc # 0                     \* an exactly vanishing pivot is reported as failure
       [] e.kind = 3 -> e.rc = 0 /\ LdlOK(e) /\ ScaledOK(e)
       [] e.kind = 4 -> e.rc # 0
       [] e.kind = 5 -> e.rc = 0 /\ LltOK(e) /\ ScaledOK(e)
       [] e.kind = 6 -> e.rc # 0                     \* a non-positive Cholesky pivot is reported as failure
       [] OTHER -> FALSE

TraceInit == l = 1
Step == /\ l <= Len(Tr)
        /\ (IF Accept(Tr[l]) = TRUE THEN TRUE ELSE PrintT(<<"TRACE-BAD", l>>))
        /\ l' = l + 1
TraceNext == Step
TraceAccepted == LET d == TLCGet("stats").diameter IN
                 IF d - 1 = Len(Tr) THEN TRUE ELSE Print(<<"TRACE-POS", d, "of", Len(Tr)>>, FALSE)
=============================================================================
