------------------------------ MODULE MatKernels ------------------------------
(* Matrix kernels of src/linalg.c (C09), by mathematical definition on integer
   matrices stored row-major as sequences: element (r, c) of an m x n matrix A
   (0-based) is A[r*n + c + 1].  Every kernel is a pure function; TLC enumerates
   all dimension triples in 1..D with index-coded contents (every element value
   identifies its position, so any misplacement changes the result), checks the
   algebraic identities that tie the kernels together, and emits the expected
   result of each call.                                                      *)
EXTENDS Integers, Sequences, FiniteSets, TLC, Json
CONSTANT D
At(A, n, r, c) == A[r * n + c + 1]
Mat(m, n, F(_, _)) == [i \in 1..(m * n) |-> F((i - 1) \div n, (i - 1) % n)]
Transpose(A, m, n) == Mat(n, m, LAMBDA r, c : At(A, n, c, r))
RECURSIVE DotK(_, _, _, _)
MulDef(X, Y, row, k, col) ==             \* X: row x k, Y: k x col
  LET RECURSIVE Acc(_, _, _)
      Acc(r, c, i) == IF i = k THEN 0 ELSE At(X, k, r, i) * At(Y, col, i, c) + Acc(r, c, i + 1)
  IN Mat(row, col, LAMBDA r, c : Acc(r, c, 0))
DotK(a, b, c, d) == 0
MulMM(X, Y, row, k, col) == MulDef(X, Y, row, k, col)
MulTm(X, Y, k, row, col) == MulDef(Transpose(X, k, row), Y, row, k, col)           \* X: k x row
MulmT(X, Y, row, col, k) == MulDef(X, Transpose(Y, col, k), row, k, col)           \* Y: col x k
MulTT(X, Y, row, k, col) == MulDef(Transpose(X, k, row), Transpose(Y, col, k), row, k, col)   \* X: k x row, Y: col x k
Eye(m, n) == Mat(m, n, LAMBDA r, c : IF r = c THEN 1 ELSE 0)
Tri(m, n) == Mat(m, n, LAMBDA r, c : IF c <= r THEN 1 ELSE 0)
Diag(n, a) == Mat(n, n, LAMBDA r, c : IF r = c THEN a[r + 1] ELSE 0)
DiagOf(A, m, n) == [i \in 1..(IF m < n THEN m ELSE n) |-> At(A, n, i - 1, i - 1)]
TriL(A, m, n) == Mat(m, n, LAMBDA r, c : IF c <= r THEN At(A, n, r, c) ELSE 0)
TriL1(A, n) == Mat(n, n, LAMBDA r, c : IF c < r THEN At(A, n, r, c) ELSE IF c = r THEN 1 ELSE 0)
TriU(A, m, n) == Mat(m, n, LAMBDA r, c : IF c >= r THEN At(A, n, r, c) ELSE 0)
TriU1(A, n) == Mat(n, n, LAMBDA r, c : IF c > r THEN At(A, n, r, c) ELSE IF c = r THEN 1 ELSE 0)
\* index-coded contents
\* four codings: 1 positive, 2 with negative entries, 3 with exact zeros scattered over both operands,
\* 4 with a zero first column / first row (kernels that skip zero entries must still address the right cells)
CX(v, r, c) == CASE v = 1 -> 2 + 7 * r + c [] v = 2 -> 13 * c - 5 * r - 1
                 [] v = 3 -> (IF (r + 2 * c) % 3 = 0 THEN 0 ELSE 1 + r + 4 * c)
                 [] OTHER -> (IF c = 0 THEN 0 ELSE 5 * r - c - 2)
CY(v, r, c) == CASE v = 1 -> 3 + 2 * r + 11 * c [] v = 2 -> 4 - 3 * r + 2 * c
                 [] v = 3 -> (IF (2 * r + c) % 3 = 1 THEN 0 ELSE 2 + 3 * r - c)
                 [] OTHER -> (IF r = 0 THEN 0 ELSE r + c)
CV(v, i) == CASE v = 1 -> 5 + 3 * i [] v = 2 -> 7 - 4 * i [] v = 3 -> (IF i % 2 = 0 THEN 0 ELSE i) [] OTHER -> i - 2

VARIABLES kern, dims
Kernels == {"mulmm", "mulTm", "mulmT", "mulTT", "T1", "T2", "eye1", "eye2", "tri1", "tri2", "diag", "diag1", "diag2",
            "triL", "triL1", "triL2", "triU", "triU1", "triU2"}
KCode(k) == CASE k = "mulmm" -> 1 [] k = "mulTm" -> 2 [] k = "mulmT" -> 3 [] k = "mulTT" -> 4 [] k = "T1" -> 5 [] k = "T2" -> 6
   [] k = "eye1" -> 7 [] k = "eye2" -> 8 [] k = "tri1" -> 9 [] k = "tri2" -> 10 [] k = "diag" -> 11 [] k = "diag1" -> 12 [] k = "diag2" -> 13
   [] k = "triL" -> 14 [] k = "triL1" -> 15 [] k = "triL2" -> 16 [] k = "triU" -> 17 [] k = "triU1" -> 18 [] k = "triU2" -> 19
Init == kern = "none" /\ dims = <<0, 0, 0, 0>>
\* a few large shapes as well (word-wise or unrolled loops show only beyond small dimensions)
BigDims == {<<9, 8, 7>>, <<1, 17, 2>>, <<16, 3, 1>>, <<2, 1, 17>>, <<17, 17, 1>>, <<13, 1, 1>>,
            <<3, 40, 1>>, <<40, 3, 1>>, <<33, 34, 1>>, <<2, 40, 3>>, <<35, 2, 2>>, <<2, 2, 37>>, <<36, 1, 1>>}
DimTriples == ((1..D) \X (1..D) \X (1..D)) \cup BigDims
Next == kern = "none" /\ \E k \in Kernels, t \in DimTriples : LET a == t[1]  b == t[2]  c == t[3] IN
          /\ (k \notin {"mulmm", "mulTm", "mulmT", "mulTT"} => c = 1)
          /\ (k \in {"T1", "eye1", "tri1", "diag", "diag1", "triL", "triL1", "triU", "triU1"} => b = 1)
          /\ \E v \in {1, 2, 3, 4} : kern' = k /\ dims' = <<a, b, c, v>>
\* expected result of a call; inputs are the index-coded matrices of the shapes the kernel's documentation states
Expected(k, d) ==
  LET a == d[1] b == d[2] c == d[3] v == d[4]
      CodeX(m, n) == Mat(m, n, LAMBDA r, cc : CX(v, r, cc))
      CodeY(m, n) == Mat(m, n, LAMBDA r, cc : CY(v, r, cc))
      Vec(n) == [i \in 1..n |-> CV(v, i)] IN
  CASE k = "mulmm" -> MulMM(CodeX(a, b), CodeY(b, c), a, b, c)
    [] k = "mulTm" -> MulTm(CodeX(a, b), CodeY(a, c), a, b, c)          \* c_r = a, row = b, col = c
    [] k = "mulmT" -> MulmT(CodeX(a, c), CodeY(b, c), a, b, c)          \* row = a, col = b, c_r = c
    [] k = "mulTT" -> MulTT(CodeX(b, a), CodeY(c, b), a, b, c)          \* row = a, c_r = b, col = c
    [] k = "T1" -> Transpose(CodeX(a, a), a, a)
    [] k = "T2" -> Transpose(CodeX(a, b), a, b)
    [] k = "eye1" -> Eye(a, a) [] k = "eye2" -> Eye(a, b)
    [] k = "tri1" -> Tri(a, a) [] k = "tri2" -> Tri(a, b)
    [] k = "diag" -> Diag(a, Vec(a))
    [] k = "diag1" -> DiagOf(CodeX(a, a), a, a) [] k = "diag2" -> DiagOf(CodeX(a, b), a, b)
    [] k = "triL" -> TriL(CodeX(a, a), a, a) [] k = "triL1" -> TriL1(CodeX(a, a), a) [] k = "triL2" -> TriL(CodeX(a, b), a, b)
    [] k = "triU" -> TriU(CodeX(a, a), a, a) [] k = "triU1" -> TriU1(CodeX(a, a), a) [] k = "triU2" -> TriU(CodeX(a, b), a, b)
Emit == PrintT(ToJson(<<3030303, KCode(kern'), dims', Len(Expected(kern', dims')), Expected(kern', dims')>>))
\* identities between the kernels (for all shapes up to D)
CodeX(m, n) == Mat(m, n, LAMBDA r, cc : CX(1, r, cc))
CodeY(m, n) == Mat(m, n, LAMBDA r, cc : CY(2, r, cc))
ASSUME \A a \in 1..D, b \in 1..D : Transpose(Transpose(CodeX(a, b), a, b), b, a) = CodeX(a, b)
ASSUME \A a \in 1..D, b \in 1..D, c \in 1..D :
         /\ MulTm(CodeX(a, b), CodeY(a, c), a, b, c) = MulMM(Transpose(CodeX(a, b), a, b), CodeY(a, c), b, a, c)
         /\ MulMM(CodeX(a, b), Eye(b, b), a, b, b) = CodeX(a, b)
         /\ Transpose(MulMM(CodeX(a, b), CodeY(b, c), a, b, c), a, c) = MulMM(Transpose(CodeY(b, c), b, c), Transpose(CodeX(a, b), a, b), c, b, a)
=============================================================================
