------------------------------- MODULE FactorMC -------------------------------
(* Generator for C08: inputs are built from their factors, A = P^T L U,
   A = L D L^T, A = M M^T, with unit-lower factors whose entries are 0 or +-1/2 (so
   that the column maximum of partial pivoting is unique and the elimination follows
   the constructed order) and pivots that are powers of two.  Then every intermediate
   value of the floating-point factorization, of the triangular solves, of the
   inverse and of the determinant is an exactly representable dyadic rational, so
   the recorded results can be judged with exact equalities.  Exactly singular /
   non positive definite inputs (zero pivot at position k, zero column, duplicated
   rows, non-positive Cholesky pivot) are generated the same way.             *)
EXTENDS Factor, TLC, Json
Lq == {0, 1, -1}
Lt == {0, 1, -1}
Dq == {1, -2}
Dt == {1, -2, 4}
Oq == {0, 1}
Ot == {0, 1, -1}
CONSTANTS NSet, NPlu, LNum, DNum, ONum      \* orders (NPlu: orders for the LU generator, whose count grows fastest); L entries LNum/2, pivots from DNum, upper off-diagonal from ONum
VARIABLES kind, nn, mat, aux
Half(x) == RNorm(x, 2)
Perms(n) == {q \in [1..n -> 1..n] : {q[k] : k \in 1..n} = 1..n}
StrictLower(n) == {pr \in (1..n) \X (1..n) : pr[1] > pr[2]}
StrictUpper(n) == {pr \in (1..n) \X (1..n) : pr[1] < pr[2]}
MkL(n, f) == MatR(n, LAMBDA r, c : IF r = c THEN RQ(1) ELSE IF r > c THEN Half(f[<<r, c>>]) ELSE RQ(0))
MkU(n, d, g) == MatR(n, LAMBDA r, c : IF r = c THEN RQ(d[r]) ELSE IF r < c THEN RQ(g[<<r, c>>]) ELSE RQ(0))
MkD(n, d) == MatR(n, LAMBDA r, c : IF r = c THEN RQ(d[r]) ELSE RQ(0))
MkM(n, d, f) == MatR(n, LAMBDA r, c : IF r = c THEN RQ(d[r]) ELSE IF r > c THEN Half(f[<<r, c>>]) ELSE RQ(0))
PermT(n, q, X) == MatR(n, LAMBDA r, c : E(X, n, q[r], c))
Init == kind = "none" /\ nn = 0 /\ mat = <<>> /\ aux = 0
GenPlu == \E n \in NPlu : \E f \in [StrictLower(n) -> LNum], d \in [1..n -> DNum], g \in [StrictUpper(n) -> ONum], q \in Perms(n), z \in 0..n :
            /\ kind' = (IF z = 0 THEN "plu" ELSE "plu_sing") /\ nn' = n /\ aux' = z
            \* z > 0: the z-th pivot is made zero: exactly singular
            /\ mat' = PermT(n, q, MulR(MkL(n, f), MkU(n, [k \in 1..n |-> IF k = z THEN 0 ELSE d[k]], g), n))
GenLdl == \E n \in NSet : \E f \in [StrictLower(n) -> LNum], d \in [1..n -> DNum], z \in 0..n :
            /\ kind' = (IF z = 0 THEN "ldl" ELSE "ldl_sing") /\ nn' = n /\ aux' = z
            /\ LET Lm == MkL(n, f) IN mat' = MulR(MulR(Lm, MkD(n, [k \in 1..n |-> IF k = z THEN 0 ELSE d[k]]), n), TrR(Lm, n), n)
GenLlt == \E n \in NSet : \E f \in [StrictLower(n) -> LNum], d \in [1..n -> {x \in DNum : x > 0}], z \in 0..n, s \in {0, -1} :
            /\ (z = 0 => s = 0)
            /\ kind' = (IF z = 0 THEN "llt" ELSE "llt_fail") /\ nn' = n /\ aux' = z
            \* z > 0: A = M S M^T with S = identity except S[z] = s (0 or -1): the z-th Cholesky pivot is not positive
            /\ LET Mm == MkM(n, d, f) IN
               mat' = MulR(MulR(Mm, MkD(n, [k \in 1..n |-> IF k = z THEN s ELSE 1]), n), TrR(Mm, n), n)
\* structurally singular integer matrices: a zero column, two equal rows
Bases(n) == {[pr \in (1..n) \X (1..n) |-> ((3 * pr[1] + 5 * pr[2] * pr[2] + v * pr[1] * pr[2]) % 7) - 3] : v \in 0..3}
GenStruct == \E n \in NSet : \E base \in Bases(n), j \in 1..n, i \in 1..n, w \in {"col", "row"} :
               /\ (w = "row" => i # j)
               /\ kind' = "plu_sing" /\ nn' = n /\ aux' = 0
               /\ mat' = MatR(n, LAMBDA r, c : RQ(IF w = "col" THEN (IF c = j THEN 0 ELSE base[<<r, c>>]) ELSE (IF r = i THEN base[<<j, c>>] ELSE base[<<r, c>>])))
\* a few larger instances from fixed patterns (loops over more rows than the enumerated orders reach; unrolled inner loops)
PatF(m, v) == [pr \in StrictLower(m) |-> ((pr[1] + 2 * pr[2] + v) % 3) - 1]
PatG(m, v) == [pr \in StrictUpper(m) |-> (pr[1] * pr[2] + v) % 2]
PatD(m, v) == [k \in 1..m |-> IF (k + v) % 2 = 0 THEN -2 ELSE 1]
PatP(m, v) == IF v = 0 THEN [k \in 1..m |-> m + 1 - k] ELSE [k \in 1..m |-> (k % m) + 1]
GenBig == \E m \in {5, 10}, v \in {0, 1}, w \in {"plu", "ldl", "llt"} :
            /\ kind' = w /\ nn' = m /\ aux' = 0
            /\ mat' = CASE w = "plu" -> PermT(m, PatP(m, v), MulR(MkL(m, PatF(m, v)), MkU(m, PatD(m, v), PatG(m, v)), m))
                         [] w = "ldl" -> LET Lm == MkL(m, PatF(m, v)) IN MulR(MulR(Lm, MkD(m, PatD(m, v)), m), TrR(Lm, m), m)
                         [] OTHER -> LET Mm == MkM(m, [k \in 1..m |-> IF (k + v) % 2 = 0 THEN 2 ELSE 1], PatF(m, v)) IN MulR(Mm, TrR(Mm, m), m)
Next == kind = "none" /\ (GenPlu \/ GenLdl \/ GenLlt \/ GenStruct \/ GenBig)
KCode(k) == CASE k = "plu" -> 1 [] k = "plu_sing" -> 2 [] k = "ldl" -> 3 [] k = "ldl_sing" -> 4 [] k = "llt" -> 5 [] k = "llt_fail" -> 6
Flat(M) == [k \in 1..(2 * Len(M)) |-> M[(k + 1) \div 2][IF k % 2 = 1 THEN 1 ELSE 2]]
Emit == PrintT(ToJson(<<2020202, KCode(kind'), nn', aux', Flat(mat')>>))
=============================================================================
