INIT Init
NEXT Next
INVARIANT Sym
ACTION_CONSTRAINT Emit
CHECK_DEADLOCK FALSE
