------------------------------ MODULE NoteFreq ------------------------------
(* The note frequency table of include/a/notefreqs.h (extension X04; no listed property is about it).
   The header is pure data: for each of the eight reference pitches A4 = 432..446 Hz it defines one macro per note name
   (sharps and flats as separate names) with the frequency rounded to 1/100 Hz.  The equal-tempered scale it documents,
   f(n) = f0 * a^n with a^12 = 2, fixes relations between the entries that do not need the twelfth root of two:
     - A4 is the reference pitch itself;
     - the frequencies rise strictly with the semitone number;
     - the two names of one key (C#/Db, D#/Eb, F#/Gb, G#/Ab, A#/Bb) carry the same value;
     - a note an octave up has twice the frequency, up to the rounding of both entries;
     - a fifth (seven semitones) is within 0.2 % of 3/2, a major third (four) within 1 % of 5/4;
     - the divided-frequency macro of a note is the integer part of clock / frequency.
   One event = one reference pitch: the entries in units of 1/100 Hz with their semitone numbers (0 = C0), produced by
   compiling the header with that pitch selected and printing every macro.                                        *)
EXTENDS Integers, Sequences, FiniteSets, Json, IOUtils, TLC
VARIABLE l
Tr == ndJsonDeserialize(IOEnv.TRACE)
AbsI(x) == IF x < 0 THEN -x ELSE x
Accept(e) ==
  LET n == Len(e.notes)
      F(k) == CHOOSE i \in 1..n : e.notes[i].semi = k          \* some entry with that semitone number
      semis == {e.notes[i].semi : i \in 1..n}
  IN
  /\ n >= 100
  /\ \A i \in 1..n : e.notes[i].c > 0
  \* the divided-frequency macros (timer reload for a clock of 1 MHz): the integer part of clock / frequency
  /\ \A i \in 1..n : LET d == e.notes[i].div  c == e.notes[i].c IN d * c <= 100000000 + c /\ (d + 1) * c > 100000000 - c
  /\ \A i, j \in 1..n : e.notes[i].semi = e.notes[j].semi => e.notes[i].c = e.notes[j].c          \* both names of a key agree
  /\ \A i, j \in 1..n : e.notes[i].semi < e.notes[j].semi => e.notes[i].c < e.notes[j].c          \* strictly rising
  /\ semis = 0..(Cardinality(semis) - 1)                                                           \* no key missing
  /\ 57 \in semis /\ e.notes[F(57)].c = e.a4 * 100                                                 \* A4 (nine semitones above C4 = 48)
  /\ \A k \in semis : (k + 12) \in semis => AbsI(e.notes[F(k + 12)].c - 2 * e.notes[F(k)].c) <= 2   \* octaves double
  /\ \A k \in semis : (k + 7) \in semis => AbsI(2 * e.notes[F(k + 7)].c - 3 * e.notes[F(k)].c) * 250 <= 3 * e.notes[F(k)].c + 1500
  /\ \A k \in semis : (k + 4) \in semis => AbsI(4 * e.notes[F(k + 4)].c - 5 * e.notes[F(k)].c) * 100 <= 5 * e.notes[F(k)].c + 1000
TraceInit == l = 1
Step == /\ l <= Len(Tr)
        /\ (IF Accept(Tr[l]) = TRUE THEN TRUE ELSE PrintT(<<"TRACE-BAD", l>>))
        /\ l' = l + 1
TraceNext == Step
Spec == TraceInit /\ [][TraceNext]_l
TraceAccepted == LET d == TLCGet("stats").diameter IN
                 IF d - 1 = Len(Tr) THEN TRUE ELSE Print(<<"TRACE-POS", d, "of", Len(Tr)>>, FALSE)
=============================================================================
