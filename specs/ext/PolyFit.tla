------------------------------- MODULE PolyFit -------------------------------
(* Normal-equation builders for polynomial fitting (src/poly.c: a_poly_xTx,
   a_poly_xTy); not one of the listed properties.  For data points x_1..x_m and a
   polynomial with n coefficients the design matrix has the entries x_i^(j-1), so
   (A^T A)[r][c] = sum_i x_i^(r+c-2)   and   (A^T y)[d] = sum_i x_i^(d-1) y_i,
   with x^0 = 1 also for x = 0.  Integer data: exact.                          *)
EXTENDS Integers, Sequences
RECURSIVE PowI(_, _)
PowI(x, k) == IF k = 0 THEN 1 ELSE x * PowI(x, k - 1)
RECURSIVE SumI(_, _, _)
SumI(F(_), m, i) == IF i > m THEN 0 ELSE F(i) + SumI(F, m, i + 1)
XtX(x, n) == [k \in 1..(n * n) |-> LET r == (k - 1) \div n  c == (k - 1) % n IN SumI(LAMBDA i : PowI(x[i], r + c), Len(x), 1)]
XtY(x, y, n) == [d \in 1..n |-> SumI(LAMBDA i : PowI(x[i], d - 1) * y[i], Len(x), 1)]
=============================================================================
