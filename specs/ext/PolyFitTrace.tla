----------------------------- MODULE PolyFitTrace -----------------------------
EXTENDS PolyFit, Json, IOUtils, TLC
VARIABLE l
Tr == ndJsonDeserialize(IOEnv.TRACE)
Accept(e) == /\ e.xtx = XtX(e.x, e.n)          \* recorded entries are integers (99999999 marks anything else)
             /\ e.xty = XtY(e.x, e.y, e.n)
             /\ e.guard = 1                     \* nothing written outside the n*n resp. n result cells
TraceInit == l = 1
Step == /\ l <= Len(Tr)
        /\ (IF Accept(Tr[l]) = TRUE THEN TRUE ELSE PrintT(<<"TRACE-BAD", l>>))
        /\ l' = l + 1
TraceNext == Step
TraceAccepted == LET d == TLCGet("stats").diameter IN
                 IF d - 1 = Len(Tr) THEN TRUE ELSE Print(<<"TRACE-POS", d, "of", Len(Tr)>>, FALSE)
=============================================================================
