INIT Init
NEXT Next
INVARIANT Order
ACTION_CONSTRAINT Emit
CHECK_DEADLOCK FALSE
