INIT Init
NEXT Next
ACTION_CONSTRAINT Emit
CHECK_DEADLOCK FALSE
