------------------------------ MODULE RegressMC ------------------------------
EXTENDS Regress, TLC, Json
VARIABLES kind, dat
XV == {-1, 0, 2, 3}
YV == {-2, 0, 1, 5}
CV == {-1, 0, 2}
UV == {-1, 1, 2}
Init == kind = "none" /\ dat = <<>>
GenSimple == \E n \in {2, 3} : \E x \in [1..n -> XV], y \in [1..n -> YV] :
               /\ OlsDen(x) # 0 /\ kind' = "simple" /\ dat' = <<n>> \o x \o y
GenLinear == \E c1 \in CV, c2 \in CV, b \in CV, u \in [1..4 -> UV], y1 \in {0, 3}, y2 \in {-1, 2} :
               kind' = "linear" /\ dat' = <<c1, c2, b>> \o u \o <<y1, y2>>
Next == kind = "none" /\ (GenSimple \/ GenLinear)
Emit == PrintT(ToJson(<<IF kind' = "simple" THEN 1414141 ELSE 1515151, dat'>>))
=============================================================================
