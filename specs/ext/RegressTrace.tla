----------------------------- MODULE RegressTrace -----------------------------
EXTENDS Regress, Json, IOUtils, TLC
VARIABLE l
Tr == ndJsonDeserialize(IOEnv.TRACE)
M3(s) == <<RVal(s[1]), RVal(s[2]), RVal(s[3])>>
Near3(s, m) == NearTol(s[1], m[1]) /\ NearTol(s[2], m[2]) /\ NearTol(s[3], m[3])
Accept(e) ==
  CASE e.f = "simple" ->
         LET c == OlsCoef(e.x, e.y)  b == OlsBias(e.x, e.y) IN
         \* all four entry points give the least squares line
         /\ \A i \in 1..4 : NearTol(e.fits[i][1], c) /\ NearTol(e.fits[i][2], b)
         /\ NearTol(e.eval2, RAdd(RMul(c, RQ(2)), b))                               \* prediction at 2
         /\ (c[1] # 0 => NearTol(e.evar, RQ(2)))                                    \* inverse prediction undoes it
         /\ e.zero = <<0, 0>>
    [] e.f = "linear" ->
         LET m == <<RQ(e.m[1]), RQ(e.m[2]), RQ(e.m[3])>>  u1 == <<e.u[1], e.u[2]>>  u2 == <<e.u[3], e.u[4]>>  half == RNorm(1, 2)
             e1 == RSub(RQ(e.y[1]), Eval2(m, u1))  e2 == RSub(RQ(e.y[2]), Eval2(m, u2))
             sg1 == Gd(m, u1, e1, half)  sg2 == Gd(sg1, u2, RSub(RQ(e.y[2]), Eval2(sg1, u2)), half)
             bg == Gd(Gd(m, u1, e1, RNorm(1, 4)), u2, e2, RNorm(1, 4)) IN
         /\ NearTol(e.eval, Eval2(m, u1))
         /\ NearTol(e.err[1], e1) /\ NearTol(e.err[2], e2)                           \* residuals
         /\ NearTol(e.pdm[1], RSub(Eval2(m, u1), RQ(1))) /\ NearTol(e.pdm[2], RSub(Eval2(m, u2), RQ(1)))
         /\ Near3(e.gd, Gd(m, u1, RQ(3), half))                                      \* one gradient step
         /\ Near3(e.sgd, sg2)                                                        \* sample by sample
         /\ Near3(e.bgd, bg)                                                         \* batch: step size divided by the batch size, given residuals
         /\ e.zero = <<0, 0, 0>>
    [] OTHER -> FALSE
TraceInit == l = 1
Step == /\ l <= Len(Tr)
        /\ (IF Accept(Tr[l]) = TRUE THEN TRUE ELSE PrintT(<<"TRACE-BAD", l>>))
        /\ l' = l + 1
TraceNext == Step
TraceAccepted == LET d == TLCGet("stats").diameter IN
                 IF d - 1 = Len(Tr) THEN TRUE ELSE Print(<<"TRACE-POS", d, "of", Len(Tr)>>, FALSE)
=============================================================================
