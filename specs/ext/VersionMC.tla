------------------------------ MODULE VersionMC ------------------------------
EXTENDS Version, TLC, Json
VARIABLES a, b, tag, extra
Nums == {0, 1, 2, 10, 123}
Tags == {<<46>>, <<45, 114, 99>>, <<43, 98>>, <<97>>, <<46, 114, 99>>, <<45>>, <<98, 101, 116, 97>>}    \* "." "-rc" "+b" "a" ".rc" "-" "beta"
Extras == {0, 1, 12}
Init == a = <<0, 0, 0>> /\ b = <<0, 0, 0>> /\ tag = <<>> /\ extra = -1
Next == extra = -1 /\ \E x \in Nums \X Nums \X Nums, y \in {0, 1, 10} \X {0, 2, 10} \X {1, 10, 123}, t \in Tags, e \in Extras :
          a' = x /\ b' = y /\ tag' = t /\ extra' = e
\* design facts about the order (checked on every generated pair)
Order == extra # -1 => /\ (Cmp3(a, b) = 0 <=> a = b) /\ Cmp3(a, b) = -Cmp3(b, a)
                       /\ (Lt(a, b) \/ Lt(b, a) \/ a = b) /\ ~(Lt(a, b) /\ Lt(b, a))
Emit == PrintT(ToJson(<<1313131, a', b', Len(tag'), tag', extra', Len(Render(a', tag', extra')), Render(a', tag', extra')>>))
=============================================================================
