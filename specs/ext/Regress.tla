------------------------------- MODULE Regress -------------------------------
(* Linear regression helpers (src/regress_simple.c, src/regress_linear.c); not one
   of the listed properties.  Simple regression is specified by what least squares
   means - the closed form that solves the normal equations - not by the order of
   the floating-point operations; the gradient steps of the linear model by their
   update formulas.  Data are small integers, step sizes dyadic: exact rationals. *)
EXTENDS Integers, Sequences, Rational
RECURSIVE SumF(_, _, _)
SumF(F(_), n, i) == IF i > n THEN 0 ELSE F(i) + SumF(F, n, i + 1)
\* least squares line through (x_i, y_i): coef = (n Sxy - Sx Sy) / (n Sxx - Sx^2), bias = (Sy - coef Sx) / n
OlsDen(x) == LET n == Len(x) IN n * SumF(LAMBDA i : x[i] * x[i], n, 1) - SumF(LAMBDA i : x[i], n, 1) * SumF(LAMBDA i : x[i], n, 1)
OlsCoef(x, y) == LET n == Len(x) IN
                 RNorm(n * SumF(LAMBDA i : x[i] * y[i], n, 1) - SumF(LAMBDA i : x[i], n, 1) * SumF(LAMBDA i : y[i], n, 1), OlsDen(x))
OlsBias(x, y) == LET n == Len(x) IN RDiv(RSub(RQ(SumF(LAMBDA i : y[i], n, 1)), RMul(OlsCoef(x, y), RQ(SumF(LAMBDA i : x[i], n, 1)))), RQ(n))
\* linear model with two coefficients: m = <<c1, c2, bias>> as rationals
Eval2(m, u) == RAdd(m[3], RAdd(RMul(m[1], RQ(u[1])), RMul(m[2], RQ(u[2]))))
Gd(m, u, err, alpha) == LET d == RMul(alpha, err) IN <<RAdd(m[1], RMul(d, RQ(u[1]))), RAdd(m[2], RMul(d, RQ(u[2]))), RAdd(m[3], d)>>
=============================================================================
