------------------------------ MODULE PolyFitMC ------------------------------
EXTENDS PolyFit, TLC, Json
VARIABLES dat
XV == {-2, -1, 0, 1, 3}
YV == {-1, 0, 2}
Init == dat = <<>>
Next == dat = <<>> /\ \E m \in 0..3, n \in 1..3 : \E x \in [1..m -> XV], y \in [1..m -> YV] : dat' = <<m, n>> \o x \o y
\* design fact: the matrix is symmetric and its first entry counts the points
Sym == dat # <<>> => LET m == dat[1]  n == dat[2]  x == SubSeq(dat, 3, 2 + m)  A == XtX(x, n) IN
                     /\ A[1] = m /\ \A r \in 0..(n - 1), c \in 0..(n - 1) : A[r * n + c + 1] = A[c * n + r + 1]
Emit == PrintT(ToJson(<<1616161, dat'>>))
=============================================================================
