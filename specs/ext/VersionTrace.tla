----------------------------- MODULE VersionTrace -----------------------------
(* Judges what the real a_version_* functions did (harness/ver_h.c). *)
EXTENDS Version, Json, IOUtils, TLC
VARIABLE l
Tr == ndJsonDeserialize(IOEnv.TRACE)
B(x) == IF x THEN 1 ELSE 0
Accept(e) ==
  LET c == Cmp3(e.a, e.b)  txt == Render(e.a, e.tag, e.extra) IN
  /\ e.cmp = c
  /\ e.rel = <<B(c < 0), B(c > 0), B(c <= 0), B(c >= 0), B(c = 0), B(c # 0)>>          \* lt gt le ge eq ne
  /\ e.tostr = txt /\ e.tostr_ret = Len(txt)                                          \* text form and its length
  /\ e.tostr_short_ret = Len(txt) /\ e.tostr_short = SubSeq(txt, 1, e.short_n - 1)     \* truncated output, full length reported
  \* parsing the text form consumes all of it and gives the fields back (tag and extra when they are shown)
  /\ e.parse_ret = Len(txt) /\ e.parsed[1] = e.a[1] /\ e.parsed[2] = e.a[2] /\ e.parsed[3] = e.a[3]
  /\ (Shows(e.tag, e.extra) => e.parsed[4] = e.extra /\ e.parsed_tag = e.tag)
  /\ (~Shows(e.tag, e.extra) => e.parsed[4] = 0)
  /\ e.alpha = e.tag                                                                   \* the tag accessor returns what was set
TraceInit == l = 1
Step == /\ l <= Len(Tr)
        /\ (IF Accept(Tr[l]) = TRUE THEN TRUE ELSE PrintT(<<"TRACE-BAD", l>>))
        /\ l' = l + 1
TraceNext == Step
TraceAccepted == LET d == TLCGet("stats").diameter IN
                 IF d - 1 = Len(Tr) THEN TRUE ELSE Print(<<"TRACE-POS", d, "of", Len(Tr)>>, FALSE)
=============================================================================
