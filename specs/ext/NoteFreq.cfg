INIT TraceInit
NEXT TraceNext
POSTCONDITION TraceAccepted
CHECK_DEADLOCK FALSE
