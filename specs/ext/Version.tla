------------------------------- MODULE Version -------------------------------
(* a_version (src/version.c): a version is <<major, minor, third>> plus an
   optional pre-release tag (up to four characters: one of . - + or a letter,
   then letters) and an extra number.  Not one of the listed properties; this is
   specification growth beyond them.
   Order: lexicographic on <<major, minor, third>>; a_version_cmp reports which
   field decides (+-3 major, +-2 minor, +-1 third, 0 equal) and the six relational
   functions are its derived predicates.
   Text form: "major.minor.third" followed by tag and extra number when there is
   something to show (extra # 0 or the tag contains a letter in its first two
   places); parsing the text form gives the fields back and consumes all of it. *)
EXTENDS Integers, Sequences
Cmp3(a, b) == IF a[1] < b[1] THEN -3 ELSE IF a[1] > b[1] THEN 3
              ELSE IF a[2] < b[2] THEN -2 ELSE IF a[2] > b[2] THEN 2
              ELSE IF a[3] < b[3] THEN -1 ELSE IF a[3] > b[3] THEN 1 ELSE 0
\* decimal digits of a natural number as character codes
RECURSIVE DigitsOf(_)
DigitsOf(k) == IF k < 10 THEN <<48 + k>> ELSE DigitsOf(k \div 10) \o <<48 + (k % 10)>>
IsAlpha(c) == (c >= 65 /\ c <= 90) \/ (c >= 97 /\ c <= 122)
Shows(tag, extra) == extra # 0 \/ (Len(tag) >= 1 /\ IsAlpha(tag[1])) \/ (Len(tag) >= 2 /\ IsAlpha(tag[2]))
Render(f, tag, extra) == DigitsOf(f[1]) \o <<46>> \o DigitsOf(f[2]) \o <<46>> \o DigitsOf(f[3])
                         \o (IF Shows(tag, extra) THEN tag \o DigitsOf(extra) ELSE <<>>)
\* trichotomy and consistency of the derived predicates, as design facts
Lt(a, b) == Cmp3(a, b) < 0
Le(a, b) == Cmp3(a, b) <= 0
=============================================================================
