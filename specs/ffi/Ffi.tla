--------------------------------- MODULE Ffi ---------------------------------
(* The C ABI contract between liba and its Rust binding (src/lib.rs) - C20.
   Both compilers are asked for the facts (DWARF of the C objects through gdb;
   size_of / align_of / offset_of! evaluated inside a scratch copy of the crate;
   the foreign declarations parsed from lib.rs); this module states what has to
   agree.  Machine type classes are tuples (see MemClassEq).
   struct event: for one #[repr(C)] mirror and its C structure, same size, same
   alignment, same number of fields and, position by position, the same name,
   offset, size and machine type class.
   fn event: the symbol exists in the library, and the declaration has the same
   number of parameters with pairwise equal machine type classes and the same
   return class.                                                              *)
EXTENDS Integers, Sequences, Json, IOUtils, TLC
VARIABLE l
Tr == ndJsonDeserialize(IOEnv.TRACE)
\* a machine type class is <<kind, bits, signed, array dimensions, structure name>>, kind in int float ptr void struct
\* in memory the signedness of an integer does not change which bytes are read; in a register argument or result it
\* matters only below 32 bits (the callee may rely on the extension)
MemClassEq(c, r) == c[1] = r[1] /\ c[2] = r[2] /\ c[4] = r[4] /\ c[5] = r[5]
RegClassEq(c, r) == MemClassEq(c, r) /\ (c[1] = "int" /\ c[2] < 32 => c[3] = r[3])
FieldEq(c, r) == c[1] = r[1] /\ c[2] = r[2] /\ c[3] = r[3] /\ MemClassEq(c[4], r[4])      \* name, offset, size, class
StructOK(e) == /\ e.exists = 1
               /\ e.csize = e.rsize /\ e.calign = e.ralign
               /\ Len(e.cfields) = Len(e.rfields)
               /\ \A i \in 1..Len(e.cfields) : FieldEq(e.cfields[i], e.rfields[i])
FnOK(e) == /\ e.exists = 1
           /\ RegClassEq(e.cret, e.rret)
           /\ Len(e.cparams) = Len(e.rparams)
           /\ \A i \in 1..Len(e.cparams) : RegClassEq(e.cparams[i], e.rparams[i])
Accept(e) == CASE e.k = "struct" -> StructOK(e) [] e.k = "fn" -> FnOK(e) [] OTHER -> FALSE
TraceInit == l = 1
Step == /\ l <= Len(Tr)
        /\ (IF Accept(Tr[l]) = TRUE THEN TRUE ELSE PrintT(<<"TRACE-BAD", l>>))
        /\ l' = l + 1
TraceNext == Step
TraceAccepted == LET d == TLCGet("stats").diameter IN
                 IF d - 1 = Len(Tr) THEN TRUE ELSE Print(<<"TRACE-POS", d, "of", Len(Tr)>>, FALSE)
=============================================================================
