-------------------------------- MODULE Facade --------------------------------
(* The C++ member functions declared inside the library's structures
   (include/a/*.h, #if defined(__cplusplus)) are a second face of the same
   operations.  One event = one member function: the C function was applied to
   an instance and the member function to an identically prepared second
   instance, with pairwise distinct arguments given in the member's own
   parameter order.  Recorded for both: the bytes of the object afterwards, the
   bytes of the result, and a position-sensitive digest of every array passed in.
   The member function refines the C function iff all three agree.            *)
EXTENDS Integers, Sequences, Json, IOUtils, TLC
VARIABLE l
Tr == ndJsonDeserialize(IOEnv.TRACE)
Refines(e) == /\ Len(e.c.state) > 0
              /\ e.cpp.state = e.c.state          \* same effect on the object
              /\ e.cpp.ret = e.c.ret              \* same result
              /\ e.cpp.arrays = e.c.arrays        \* same output written through pointer arguments
Accept(e) == Refines(e)
TraceInit == l = 1
Step == /\ l <= Len(Tr)
        /\ (IF Accept(Tr[l]) = TRUE THEN TRUE ELSE PrintT(<<"TRACE-BAD", l>>))
        /\ l' = l + 1
TraceNext == Step
TraceAccepted == LET d == TLCGet("stats").diameter IN
                 IF d - 1 = Len(Tr) THEN TRUE ELSE Print(<<"TRACE-POS", d, "of", Len(Tr)>>, FALSE)
=============================================================================
