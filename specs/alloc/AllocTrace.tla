----------------------------- MODULE AllocTrace -----------------------------
(* Validates fault-injection runs of the real containers (vector, buffer, queue,
   string).  One event = one public call executed while the allocator fails
   according to a plan, followed by the same call with a healthy allocator and
   the destruction of the container (or, marked noretry, by the destruction alone):
     pre, reqs (every allocator request of the faulted call), failed,
     fail (return value class and state after the faulted call),
     retry (outcome and contents), expected (contents the specification of the
     container predicts for the successful call), leak, badfree, live0.
   Checked: LedgerOK, FailureIsReported, FailureIsAtomic, RetrySucceeds, NoLeak. *)
EXTENDS Alloc, Json, IOUtils
VARIABLE l
Tr == ndJsonDeserialize(IOEnv.TRACE)
SetOfSeq(q) == {q[i] : i \in 1..Len(q)}

\* lifecycle events (harness/life_h.c): heap constructor under a fault plan, fill, whole-object swap with a second object,
\* destruction of both with a counting destructor.  A failing constructor request is reported by a null result and leaves
\* nothing behind; otherwise the swap exchanges the complete contents (the buffer has no swap), destruction hands every
\* owned element to the destructor exactly once (queue: parked nodes included; string: none) and the ledger ends empty.
LifeOK(e) ==
  LET A == [i \in 1..e.na |-> 9 + i]  B == [i \in 1..e.nb |-> 49 + i]
      A2 == IF e.fam = "que" /\ e.na > 1 THEN Tail(A) ELSE A            \* the queue run parks its first element before the swap
  IN
  /\ LedgerRun([live |-> {}, ok |-> TRUE], e.reqs, 1).ok
  /\ (e.plan = "single" => e.failed >= 1 /\ e.null = 1)
  /\ (e.plan = "none" => e.failed = 0 /\ e.null = 0)
  /\ (e.null = 0 =>
        /\ (IF e.fam = "buf" THEN e.a = A /\ e.swapped = 0 ELSE e.swapped = 1 /\ e.a = B /\ e.b = A2)
        /\ e.dtor_calls = (CASE e.fam = "vec" -> e.na + e.nb [] e.fam = "buf" -> e.na [] e.fam = "que" -> e.na + e.nb [] OTHER -> 0))
  /\ e.leak = <<>> /\ e.badfree = 0

Accept(e) ==
  IF e.op = "life" THEN LifeOK(e) ELSE
  /\ e.failed >= 1                                          \* the plan did hit a request of this call
  /\ LedgerRun([live |-> SetOfSeq(e.live0), ok |-> TRUE], e.reqs, 1).ok      \* ledger discipline
  /\ e.fail.ret_fail = 1                                    \* FailureIsReported
  /\ e.fail.seq = e.pre.seq /\ e.fail.num = Len(e.pre.seq) /\ e.fail.num <= e.fail.mem   \* FailureIsAtomic
  /\ e.fail.siz = e.pre.siz
  /\ (IF "after" \in DOMAIN e.pre THEN (e.pre.after = 0 => e.fail.after = 0) ELSE TRUE)   \* a terminated string stays terminated
  \* RetrySucceeds (runs marked noretry destroy the container right after the failed call instead)
  /\ ("noretry" \in DOMAIN e \/ (e.retry.ok = 1 /\ e.retry.seq = e.expected))
  /\ e.leak = <<>> /\ e.badfree = 0                         \* NoLeak, every block released exactly once

TraceInit == /\ n = 0 /\ mem = 0 /\ blk = 0 /\ live = {} /\ phase = "idle" /\ need = 0
             /\ reqNo = 0 /\ plan = [kind |-> "none", k |-> 0] /\ saved = <<0, 0>> /\ outcome = "none" /\ l = 1
Step == /\ l <= Len(Tr)
        /\ (IF Accept(Tr[l]) = TRUE THEN TRUE ELSE PrintT(<<"TRACE-BAD", l>>))
        /\ l' = l + 1 /\ UNCHANGED vars
TraceNext == Step
TraceAccepted == LET d == TLCGet("stats").diameter IN
                 IF d - 1 = Len(Tr) THEN TRUE ELSE Print(<<"TRACE-POS", d, "of", Len(Tr)>>, FALSE)
=============================================================================
