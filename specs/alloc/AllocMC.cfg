CONSTANTS MaxLen = 6 MaxReq = 4
INIT Init
NEXT Next
INVARIANT Inv
CHECK_DEADLOCK FALSE
