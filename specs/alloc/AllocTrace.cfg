CONSTANTS MaxLen = 1 MaxReq = 1
INIT TraceInit
NEXT TraceNext
POSTCONDITION TraceAccepted
CHECK_DEADLOCK FALSE
