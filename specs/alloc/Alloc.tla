------------------------------- MODULE Alloc -------------------------------
(* The allocator as environment of the containers (a_alloc: one replaceable
   function pointer with realloc semantics: (null, n) allocates, (p, n) resizes,
   (p, 0) frees), with a fault plan, and the protocol by which a container
   operation uses it:   Begin -> Request (ok | fail) ... -> Commit | Abort.

   The state machine below is the design of "grow, then modify" used by
   a_vec_setm / a_str_setm / the queue's node and pool allocation: the contents
   are touched only after every request of the operation has succeeded, and a
   failed resize leaves the old block alive.  TLC checks on it, for every fault
   plan (single request k / all requests from k on):
     FailureIsReported, FailureIsAtomic, RetrySucceeds, NoLeak, LedgerOK.
   LedgerStep / LedgerRun give the ledger discipline as operators over a recorded
   request list; AllocTrace applies them to what the real code did.          *)
EXTENDS Integers, FiniteSets, Sequences, TLC

\* ---- ledger discipline over a recorded list of requests
\* request: [t |-> "alloc" | "free", blk |-> old block id (0 none, -1 unknown pointer), ok |-> 0/1, id |-> resulting id]
LedgerStep(st, r) ==
  IF r.t = "free"
  THEN [live |-> st.live \ {r.blk}, ok |-> st.ok /\ r.blk \in st.live]                 \* released exactly once, only if live
  ELSE IF r.ok = 1
       THEN IF r.blk = 0
            THEN [live |-> st.live \cup {r.id}, ok |-> st.ok /\ r.id \notin st.live]
            ELSE [live |-> st.live, ok |-> st.ok /\ r.blk \in st.live /\ r.id = r.blk]
       ELSE [live |-> st.live, ok |-> st.ok /\ (r.blk = 0 \/ r.blk \in st.live)]      \* a failed resize keeps the old block
RECURSIVE LedgerRun(_, _, _)
LedgerRun(st, reqs, i) == IF i > Len(reqs) THEN st ELSE LedgerRun(LedgerStep(st, reqs[i]), reqs, i + 1)

\* ---- the protocol as a state machine (one container, capacity growth by whole blocks)
CONSTANTS MaxLen, MaxReq
VARIABLES n,        \* number of elements (abstract contents are 1..n)
          mem,      \* capacity
          blk,      \* 0 = no block, 1 = block owned
          live,     \* ledger: set of live block ids
          phase,    \* "idle" | "op" | "dead"
          need,     \* capacity required by the operation in progress
          reqNo, plan, saved, outcome
vars == <<n, mem, blk, live, phase, need, reqNo, plan, saved, outcome>>
Plans == {[kind |-> "none", k |-> 0]} \cup {[kind |-> kk, k |-> i] : kk \in {"single", "from"}, i \in 1..MaxReq}
Fails(p, r) == (p.kind = "single" /\ r = p.k) \/ (p.kind = "from" /\ r >= p.k)

Init == /\ n = 0 /\ mem = 0 /\ blk = 0 /\ live = {} /\ phase = "idle" /\ need = 0
        /\ reqNo = 0 /\ plan \in Plans /\ saved = <<0, 0>> /\ outcome = "none"
Begin(k) == /\ phase = "idle" /\ n + k <= MaxLen
            /\ phase' = "op" /\ need' = n + k /\ saved' = <<n, mem>> /\ outcome' = "none"
            /\ UNCHANGED <<n, mem, blk, live, reqNo, plan>>
\* the operation has enough room: commit without a request
CommitNoGrow == /\ phase = "op" /\ need <= mem
                /\ n' = need /\ phase' = "idle" /\ outcome' = "ok" /\ UNCHANGED <<mem, blk, live, need, reqNo, plan, saved>>
\* one resize request; it succeeds or fails according to the plan
Request == /\ phase = "op" /\ need > mem /\ reqNo < MaxReq
           /\ reqNo' = reqNo + 1
           /\ IF Fails(plan, reqNo + 1)
              THEN /\ phase' = "idle" /\ outcome' = "failed"          \* Abort: nothing else is touched
                   /\ UNCHANGED <<n, mem, blk, live, need, plan, saved>>
              ELSE /\ mem' = need + (need \div 2) + 1 /\ blk' = 1 /\ live' = {1}
                   /\ n' = need /\ phase' = "idle" /\ outcome' = "ok"
                   /\ UNCHANGED <<need, plan, saved>>
Die == /\ phase = "idle" /\ phase' = "dead" /\ live' = {} /\ blk' = 0 /\ outcome' = "none"
       /\ UNCHANGED <<n, mem, need, reqNo, plan, saved>>
Next == (\E k \in 1..2 : Begin(k)) \/ CommitNoGrow \/ Request \/ Die
Spec == Init /\ [][Next]_vars

FailureIsAtomic == outcome = "failed" => <<n, mem>> = saved
NoLeak == phase = "dead" => live = {}
LedgerOK == (blk = 1) <=> (live = {1})
NumLeMem == n <= mem
Inv == FailureIsAtomic /\ NoLeak /\ LedgerOK /\ NumLeMem
=============================================================================
