CONSTANTS Bytes = {} Blocks = {} Lmax = 0 TrimSets = {} CPs = {} Fmts = {} PopCounts = {} CmpSet = {}
INIT TraceInit
NEXT TraceNext
POSTCONDITION TraceAccepted
CHECK_DEADLOCK FALSE
