------------------------------- MODULE StrMC -------------------------------
EXTENDS Str, Json
BlocksShort == {<<>>, <<97>>, <<32, 97>>, <<97, 0, 32>>, <<200, 32>>, <<0>>}
BlocksMid == {<<>>, <<97>>, <<32, 97>>}
BlocksLong == {<<>>, <<97>>, <<97, 97, 97>>}
TrimSetsDef == {{}, {97}, {32, 200}}
CmpShort == {<<>>, <<97>>, <<97, 32>>, <<32>>, <<200>>, <<97, 0>>, <<0>>, <<97, 200>>, <<97, 0, 32>>, <<97, 0, 97>>, <<0, 200>>, <<0, 97>>}
OpCode(o) == CASE o = "catc" -> 1 [] o = "catc_" -> 2 [] o = "catn" -> 3 [] o = "catn_" -> 4 [] o = "cats" -> 5 [] o = "cats_" -> 6
  [] o = "cat" -> 7 [] o = "cat_" -> 8 [] o = "catf" -> 9 [] o = "utf_catc" -> 10 [] o = "getc" -> 11 [] o = "getc_" -> 12
  [] o = "getn" -> 13 [] o = "getn_" -> 14 [] o = "rtrim" -> 15 [] o = "rtrim_" -> 16 [] o = "ltrim" -> 17 [] o = "ltrim_" -> 18
  [] o = "trim" -> 19 [] o = "trim_" -> 20 [] o = "setn" -> 21 [] o = "setn_" -> 22 [] o = "setm" -> 23 [] o = "setm_" -> 24
  [] o = "exit" -> 25 [] o = "cmpn" -> 26 [] o = "cmps" -> 27 [] o = "cmp" -> 28 [] o = "utf_len" -> 29 [] o = "acc" -> 30 [] OTHER -> 0
Emit == PrintT(ToJson(<<3333333, OpCode(last'.op), last'.a1, last'.ret, last'.term, mem, mem', Len(s), Len(s'), Len(last'.blk), Len(last'.out),
                        s, s', last'.blk, last'.out>>))
=============================================================================
