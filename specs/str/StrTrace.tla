------------------------------ MODULE StrTrace ------------------------------
(* Trace specification for a_str: every recorded call (harness/str_h.c) carries
   the content and capacity before, the content, capacity and the byte directly
   after the content afterwards (-1 if there is none inside the capacity), the
   argument block, the return value and bytes handed out.  TLC recomputes the
   abstract byte string with the operators of Str and checks C06:
   content = abstract string; length <= capacity; terminating variants leave a
   NUL directly after the content inside the capacity; formatted append appends
   exactly the formatter's output and returns its length; comparison = bytewise
   lexicographic order with length tie-break.                                *)
EXTENDS Str, Json, IOUtils
VARIABLE l
Tr == ndJsonDeserialize(IOEnv.TRACE)
TermOK(e) == e.post.after = 0
SetOfSeq(q) == {q[i] : i \in 1..Len(q)}

Accept(e) ==
  LET a == e.pre.s  b == e.post.s  m == e.pre.mem  m2 == e.post.mem  na == Len(a)
      same == b = a
      grows(need) == m2 >= need /\ m2 >= m
  IN
  /\ Len(b) <= m2
  /\ CASE e.op \in {"catc", "catn", "cat"} -> b = a \o e.blk /\ TermOK(e) /\ e.ret = (IF e.op = "catc" THEN e.blk[1] ELSE 0)
       [] e.op \in {"catc_", "catn_", "cat_"} -> b = a \o e.blk /\ e.ret = (IF e.op = "catc_" THEN e.blk[1] ELSE 0)
       [] e.op = "cats" -> b = a \o CStr(e.blk) /\ TermOK(e) /\ e.ret = 0
       [] e.op = "cats_" -> b = a \o CStr(e.blk) /\ e.ret = 0
       [] e.op = "catf" -> b = a \o FmtOut(e.a1) /\ e.ret = Len(FmtOut(e.a1)) /\ TermOK(e)
       [] e.op = "utf_catc" -> b = a \o Encode(e.a1) /\ TermOK(e) /\ e.ret = 0
       [] e.op \in {"getc", "getc_"} ->
            IF na = 0 THEN same /\ e.ret = -1
            \* the byte comes back as a plain C char converted to int: compared modulo 256
            ELSE b = SubSeq(a, 1, na - 1) /\ ((e.ret % 256) + 256) % 256 = a[na] /\ (e.op = "getc" => TermOK(e))
       [] e.op \in {"getn", "getn_"} ->
            LET c == Min2(e.a1, na) IN
            /\ b = SubSeq(a, 1, na - c) /\ e.ret = c /\ e.out = SubSeq(a, na - c + 1, na)
            /\ ((e.op = "getn" /\ c > 0) => TermOK(e))
       [] e.op \in {"rtrim", "rtrim_", "ltrim", "ltrim_", "trim", "trim_"} ->
            LET ts == SetOfSeq(e.blk)
                r == CASE e.op \in {"rtrim", "rtrim_"} -> RTrimOf(a, ts)
                       [] e.op \in {"ltrim", "ltrim_"} -> LTrimOf(a, ts)
                       [] OTHER -> LTrimOf(RTrimOf(a, ts), ts) IN
            /\ b = r /\ m2 = m
            /\ ((e.op \in {"rtrim", "ltrim", "trim"} /\ Len(r) < na) => TermOK(e))
       [] e.op \in {"setn", "setn_"} ->
            IF e.a1 <= m THEN b = (IF e.a1 <= na THEN SubSeq(a, 1, e.a1) ELSE a \o [j \in 1..(e.a1 - na) |-> FILLB]) /\ e.ret = 0
                         ELSE same /\ e.ret = 3
       [] e.op = "setm" -> same /\ grows(e.a1) /\ e.ret = 0
       [] e.op = "setm_" -> same /\ m2 >= e.a1 /\ e.ret = 0
       [] e.op = "exit" -> b = <<>> /\ m2 = 0 /\ (IF m = 0 THEN e.ret = 0 ELSE e.ret = 1 /\ e.outok = 1 /\ e.out = a)
       [] e.op \in {"cmpn", "cmp"} -> same /\ e.ret = (IF m = 0 \/ (e.op = "cmp" /\ e.blk = <<>>)
                                                        THEN LexCmp([i \in 1..na |-> 0], [i \in 1..Len(e.blk) |-> 0]) ELSE LexCmp(a, e.blk))
       [] e.op = "cmps" -> same /\ e.ret = (IF m = 0 THEN LexCmp([i \in 1..na |-> 0], [i \in 1..Len(CStr(e.blk)) |-> 0]) ELSE LexCmp(a, CStr(e.blk)))
       [] e.op = "utf_len" -> LET w == UtfWalk(a, 1, 0) IN same /\ e.ret = w[1] /\ e.out = <<w[2]>>
       [] e.op = "acc" -> LET j == IF e.a1 >= 0 THEN e.a1 ELSE e.a1 + na IN
                          /\ same /\ e.ret = (IF e.a1 >= 0 /\ e.a1 < m THEN e.a1 ELSE -1)            \* a_str_at
                          /\ e.out = <<(IF j >= 0 /\ j < m THEN j ELSE -1) % 256>>                     \* a_str_of (logged modulo 256)
       [] OTHER -> FALSE

TraceInit == Init /\ l = 1
Step == /\ l <= Len(Tr)
        /\ (IF Accept(Tr[l]) = TRUE THEN TRUE ELSE PrintT(<<"TRACE-BAD", l>>))
        /\ l' = l + 1 /\ UNCHANGED vars
TraceNext == Step
TraceAccepted == LET d == TLCGet("stats").diameter IN
                 IF d - 1 = Len(Tr) THEN TRUE ELSE Print(<<"TRACE-POS", d, "of", Len(Tr)>>, FALSE)
=============================================================================
