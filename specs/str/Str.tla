-------------------------------- MODULE Str --------------------------------
(* The dynamic string a_str (src/str.c, include/a/str.h).
   Abstract state: s, the byte sequence (integers 0..255).  Implementation-shaped
   state: mem, the capacity (a multiple of 8, or 0).  One action per public
   function and its underscore (non-terminating) twin.  The formatter and the
   UTF-8 encoder are environment functions: the action takes their output as the
   argument (FmtOut, Utf8!Encode).                                          *)
EXTENDS Integers, Sequences, FiniteSets, SequencesExt, TLC, Utf8
CONSTANTS Bytes,      \* bytes appended one at a time
          Blocks,     \* byte blocks appended with catn / cats / cat
          Lmax, TrimSets, CPs, Fmts, PopCounts, CmpSet
VARIABLES s, mem, last
vars == <<s, mem, last>>
view == <<s, mem>>
HUGE == 1000000
FILLB == 122
n == Len(s)
RoundUp8(x) == ((x + 7) \div 8) * 8
Setm(m, need) == IF need > m THEN RoundUp8(need) ELSE m
Min2(a, b) == IF a < b THEN a ELSE b
White == {9, 10, 11, 12, 13, 32}
\* what strlen() sees of a buffer: the part before its first NUL
RECURSIVE CStr(_)
CStr(b) == IF b = <<>> \/ b[1] = 0 THEN <<>> ELSE <<b[1]>> \o CStr(Tail(b))
\* the environment's formatter: output of format case f
FmtOut(f) == CASE f = 1 -> <<>>                                  \* "%s" with ""
               [] f = 2 -> <<120, 61, 55>>                        \* "x=%d" with 7
               [] f = 3 -> <<97, 98, 99, 100, 101>>               \* "%s" with "abcde"
               [] f = 4 -> <<45, 49, 50, 51, 52, 53, 54, 55>>     \* "%d" with -1234567   (8 bytes: exactly one capacity unit)
               [] f = 5 -> <<49, 50, 51, 52, 53, 54, 55, 56, 57, 48, 49, 50>>   \* "%s" with "123456789012"
               [] f = 6 -> <<97, 97, 97, 97, 97, 97, 97>>         \* "%s" with "aaaaaaa"   (7: fits with its terminator)
               [] f = 7 -> <<97, 97, 97, 97, 97, 97, 97, 97>>     \* "%s" with "aaaaaaaa"  (8: needs a second pass)
               [] f = 8 -> <<97, 97, 97, 97, 97>>                 \* "%.*s" with 5, "aaaaaaaaa"

Rec(op, a1, blk, ret, out, term) == [op |-> op, a1 |-> a1, blk |-> blk, ret |-> ret, out |-> out, term |-> term]
\* term: 1 = the call must leave a NUL directly after the content inside the capacity, 0 = no claim
Init == s = <<>> /\ mem = 0 /\ last = Rec("init", 0, <<>>, 0, <<>>, 0)

AppendOp(op, blk, extra, ret, term) ==       \* generic append of blk; the code reserves n + Len(blk) + extra
  /\ n + Len(blk) <= Lmax
  /\ s' = s \o blk /\ mem' = Setm(mem, n + Len(blk) + extra)
  /\ last' = Rec(op, 0, blk, ret, <<>>, term)

CatC(c) == AppendOp("catc", <<c>>, 1, c, 1)  /\ TRUE
CatC_(c) == AppendOp("catc_", <<c>>, 0, c, 0)
CatN(b) == AppendOp("catn", b, 1, 0, 1)
CatN_(b) == AppendOp("catn_", b, 0, 0, 0)
\* cats: the argument is a C string: cut at its first NUL
CatS(b) == /\ n + Len(CStr(b)) <= Lmax /\ s' = s \o CStr(b) /\ mem' = Setm(mem, n + Len(CStr(b)) + 1)
           /\ last' = Rec("cats", 0, b, 0, <<>>, 1)
CatS_(b) == /\ n + Len(CStr(b)) <= Lmax /\ s' = s \o CStr(b) /\ mem' = Setm(mem, n + Len(CStr(b)))
            /\ last' = Rec("cats_", 0, b, 0, <<>>, 0)
Cat(b) == AppendOp("cat", b, 1, 0, 1)
Cat_(b) == AppendOp("cat_", b, 0, 0, 0)
\* formatted append: appends exactly what the formatter produced and returns that length;
\* needs room for the formatter's own terminator
CatF(f) == LET o == FmtOut(f) IN
           /\ n + Len(o) <= Lmax
           /\ s' = s \o o /\ mem' = Setm(mem, n + Len(o) + 1)
           /\ last' = Rec("catf", f, o, Len(o), <<>>, 1)
UtfCatC(cp) == LET o == Encode(cp) IN
               /\ n + Len(o) <= Lmax
               /\ \A i \in 1..n : s[i] < 128      \* model bound: code points are appended to ASCII content only
               /\ s' = s \o o /\ mem' = Setm(mem, n + 7)
               /\ last' = Rec("utf_catc", cp, o, 0, <<>>, 1)
\* pops: -1 (~0) when empty
GetC(op) == IF n = 0 THEN UNCHANGED <<s, mem>> /\ last' = Rec(op, 0, <<>>, -1, <<>>, 0)
            ELSE /\ s' = SubSeq(s, 1, n - 1) /\ UNCHANGED mem
                 /\ last' = Rec(op, 0, <<>>, s[n], <<>>, IF op = "getc" THEN 1 ELSE 0)
GetN(op, k) == LET c == Min2(k, n) IN
               /\ s' = SubSeq(s, 1, n - c) /\ UNCHANGED mem
               /\ last' = Rec(op, k, <<>>, c, SubSeq(s, n - c + 1, n), IF op = "getn" /\ c > 0 THEN 1 ELSE 0)
InSet(b, ts) == IF ts = {} THEN b \in White ELSE b \in ts
RECURSIVE RTrimOf(_, _)
RTrimOf(x, ts) == IF x # <<>> /\ InSet(x[Len(x)], ts) THEN RTrimOf(SubSeq(x, 1, Len(x) - 1), ts) ELSE x
RECURSIVE LTrimOf(_, _)
LTrimOf(x, ts) == IF x # <<>> /\ InSet(x[1], ts) THEN LTrimOf(Tail(x), ts) ELSE x
Trim(op, ts) ==
  LET r == CASE op \in {"rtrim", "rtrim_"} -> RTrimOf(s, ts)
             [] op \in {"ltrim", "ltrim_"} -> LTrimOf(s, ts)
             [] OTHER -> LTrimOf(RTrimOf(s, ts), ts) IN
  /\ s' = r /\ UNCHANGED mem
  /\ last' = Rec(op, 0, SetToSeq(ts), 0, <<>>, IF op \in {"rtrim", "ltrim", "trim"} /\ Len(r) < n THEN 1 ELSE 0)
\* length change: within the capacity; bytes exposed by growing are unspecified (the harness writes FILLB)
SetN(op, k) == IF k <= mem
               THEN /\ k <= Lmax /\ (k <= n \/ FILLB \in Bytes \/ 32 \in Bytes)
                    /\ s' = IF k <= n THEN SubSeq(s, 1, k) ELSE s \o [j \in 1..(k - n) |-> FILLB]
                    /\ UNCHANGED mem /\ last' = Rec(op, k, <<>>, 0, <<>>, 0)
               ELSE /\ op = "setn" /\ UNCHANGED <<s, mem>> /\ last' = Rec(op, k, <<>>, 3, <<>>, 0)     \* A_OBOUNDS
SetM(op, m) == /\ (op = "setm_" => m >= n)            \* the unchecked variant must not be asked to cut the content
               /\ UNCHANGED s /\ mem' = (IF op = "setm" THEN Setm(mem, m) ELSE RoundUp8(m))
               /\ last' = Rec(op, m, <<>>, 0, <<>>, 0)
\* ownership hand-over: returns the buffer as a NUL-terminated C string (or null), leaves the object empty
Exit == /\ s' = <<>> /\ mem' = 0 /\ last' = Rec("exit", 0, <<>>, IF mem = 0 THEN 0 ELSE 1, s, 0)
\* comparison: bytewise (unsigned) lexicographic, length as tie-break; a null buffer compares by length only
RECURSIVE LexCmp(_, _)
LexCmp(a, b) == IF a = <<>> \/ b = <<>> THEN (IF Len(a) > Len(b) THEN 1 ELSE IF Len(a) < Len(b) THEN -1 ELSE 0)
                ELSE IF a[1] < b[1] THEN -1 ELSE IF a[1] > b[1] THEN 1 ELSE LexCmp(Tail(a), Tail(b))
Sign(x) == IF x < 0 THEN -1 ELSE IF x > 0 THEN 1 ELSE 0
Cmp(op, b) == /\ UNCHANGED <<s, mem>>
              /\ last' = Rec(op, 0, b, IF mem = 0 THEN LexCmp([i \in 1..n |-> 0], [i \in 1..Len(IF op = "cmps" THEN CStr(b) ELSE b) |-> 0])
                                        ELSE LexCmp(s, IF op = "cmps" THEN CStr(b) ELSE b), <<>>, 0)

\* number of code points at the head of the content and the bytes they take: the count stops at a NUL, at a byte that
\* cannot start a character, and at a character cut short by the end of the CONTENT (not of the capacity)
\* (this decoder takes a stray continuation byte as a unit of one byte - the property only fixes that multi-byte
\* sequences need continuation bytes behind the lead and that 0xFE / 0xFF never start anything)
RECURSIVE UtfWalk(_, _, _)
UtfWalk(b, i, cnt) ==
  IF i > Len(b) THEN <<cnt, i - 1>>
  ELSE LET L == IF IsCont(b[i]) THEN 1 ELSE LeadLen(b[i]) IN
       IF b[i] = 0 \/ L = 0 \/ i + L - 1 > Len(b) \/ ~(\A j \in 1..(L - 1) : IsCont(b[i + j])) THEN <<cnt, i - 1>>
       ELSE UtfWalk(b, i + L, cnt + 1)
UtfLen == LET w == UtfWalk(s, 1, 0) IN
          /\ mem > 0 /\ UNCHANGED <<s, mem>> /\ last' = Rec("utf_len", 0, <<>>, w[1], <<w[2]>>, 0)

\* index accessors and getters (read-only): a_str_at / a_str_of give a position inside the capacity or null, negative
\* indices of a_str_of count from the end of the content
Acc(i) == /\ mem > 0 /\ UNCHANGED <<s, mem>>
          /\ LET j == IF i >= 0 THEN i ELSE i + n IN
             last' = Rec("acc", i, <<>>, IF i >= 0 /\ i < mem THEN i ELSE -1, <<IF j >= 0 /\ j < mem THEN j ELSE -1>>, 0)

Next ==
  \/ UtfLen
  \/ \E i \in {-(Lmax + 2), -2, -1, 0, 1, 7, 8, 9, Lmax + 9} : Acc(i)
  \/ \E c \in Bytes : CatC(c) \/ CatC_(c)
  \/ \E b \in Blocks : CatN(b) \/ CatN_(b) \/ CatS(b) \/ CatS_(b) \/ Cat(b) \/ Cat_(b)
  \/ \E f \in Fmts : CatF(f)
  \/ \E cp \in CPs : UtfCatC(cp)
  \/ GetC("getc") \/ GetC("getc_")
  \/ \E k \in PopCounts : GetN("getn", k) \/ GetN("getn_", k)
  \/ \E ts \in TrimSets, op \in {"rtrim", "rtrim_", "ltrim", "ltrim_", "trim", "trim_"} : Trim(op, ts)
  \/ \E k \in 0..(Lmax + 1), op \in {"setn", "setn_"} : SetN(op, k)
  \/ \E m \in {0, 1, 8, 9, Lmax + 1}, op \in {"setm", "setm_"} : SetM(op, m)
  \/ Exit
  \/ \E b \in CmpSet, op \in {"cmpn", "cmps", "cmp"} : Cmp(op, b)
Spec == Init /\ [][Next]_vars

LenLeMem == n <= mem
Terminated == last.term = 1 => n < mem       \* room for the terminator inside the capacity
Inv == LenLeMem /\ Terminated /\ mem % 8 = 0
=============================================================================
