-------------------------------- MODULE TrajMC --------------------------------
(* Generator of feasible requests for C14 (integers).  Trapezoid: the sign of the
   acceleration matches and the sign of the deceleration opposes the direction
   of travel.  Bell: the standard feasibility condition of the double-S profile,
     Tj* = min( sqrt(|v1-v0|/jm), am/jm ),
     p >= Tj*(v0+v1)                      if Tj* < am/jm,
     p >= (v0+v1)/2 * (Tj* + |v1-v0|/am)   otherwise,
   evaluated with integer arithmetic on squares; boundary velocities lie inside
   the velocity limit and point in the direction of travel.                   *)
EXTENDS Integers, TLC, Json
CONSTANTS VM, AC, DE, DIST, VB, JM, AM
VARIABLES kind, req
Init == kind = "none" /\ req = <<>>
AbsI(x) == IF x < 0 THEN -x ELSE x
GenTrap == \E vm \in VM, a \in AC, d \in DE, p \in DIST, v0 \in VB, v1 \in VB, dir \in {1, -1}, sv \in {1, -1} :
             /\ v0 <= vm /\ v1 <= vm
             /\ kind' = "trap"
             \* v0 may also point against the direction of travel (sv = -1): the profile then first reverses
             /\ req' = <<vm, dir * a, -dir * d, 1, 1 + dir * p, dir * sv * v0, dir * v1>>
\* feasibility of the bell request for travel in the positive direction with 0 <= v0, v1 <= vm
BellFeasible(jm, am, vm, p, v0, v1) ==
  LET dv == AbsI(v1 - v0) IN
  IF dv * jm < am * am                       \* Tj* = sqrt(dv/jm) < am/jm
  THEN \* p >= sqrt(dv/jm) (v0+v1)   <=>   p^2 jm >= dv (v0+v1)^2
       p * p * jm >= dv * (v0 + v1) * (v0 + v1)
  ELSE \* p >= (v0+v1)/2 (am/jm + dv/am)   <=>   2 p jm am >= (v0+v1)(am^2 + dv jm)
       2 * p * jm * am >= (v0 + v1) * (am * am + dv * jm)
GenBell == \E jm \in JM, am \in AM, vm \in VM, p \in DIST, v0 \in VB, v1 \in VB, dir \in {1, -1} :
             /\ v0 <= vm /\ v1 <= vm /\ BellFeasible(jm, am, vm, p, v0, v1)
             /\ kind' = "bell"
             /\ req' = <<jm, am, vm, 2, 2 + dir * p, dir * v0, dir * v1>>
Next == kind = "none" /\ (GenTrap \/ GenBell)
Emit == PrintT(ToJson(<<IF kind' = "trap" THEN 1010101 ELSE 1020202, req'>>))
=============================================================================
