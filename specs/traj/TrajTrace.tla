------------------------------ MODULE TrajTrace ------------------------------
EXTENDS Traj, Json, IOUtils
VARIABLE l
Tr == ndJsonDeserialize(IOEnv.TRACE)
\* a request for which the generator reports duration 0 (not planned) carries no claim
Accept(e) == IF e.planned = 0 THEN TRUE
             ELSE IF e.f = "trap" THEN TrapOK(e) ELSE BellOK(e)
TraceInit == l = 1
Step == /\ l <= Len(Tr)
        /\ (IF Accept(Tr[l]) = TRUE THEN TRUE ELSE PrintT(<<"TRACE-BAD", l>>))
        /\ l' = l + 1
TraceNext == Step
TraceAccepted == LET d == TLCGet("stats").diameter IN
                 IF d - 1 = Len(Tr) THEN TRUE ELSE Print(<<"TRACE-POS", d, "of", Len(Tr)>>, FALSE)
=============================================================================
