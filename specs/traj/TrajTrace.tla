------------------------------ MODULE TrajTrace ------------------------------
EXTENDS Traj, Json, IOUtils
VARIABLE l
Tr == ndJsonDeserialize(IOEnv.TRACE)
\* a request for which the generator reports duration 0 (not planned) carries no claim
\* far-scale requests (phases many orders of magnitude apart): boundary facts only, as order-coded doubles, exactly:
\* before the start the planner holds (p0, recorded v0); at and after the reported end (p1, recorded v1)
FarOK(e) == \A i \in 1..Len(e.samples) :
               LET s == e.samples[i] IN
               IF s.after = 1 THEN s.p = e.p1 /\ s.v = e.v1 ELSE s.p = e.p0 /\ s.v = e.v0
Accept(e) == IF e.planned = 0 THEN TRUE
             ELSE IF e.f \in {"trapfar", "bellfar"} THEN FarOK(e)
             ELSE IF e.f = "trap" THEN TrapOK(e) ELSE BellOK(e)
TraceInit == l = 1
Step == /\ l <= Len(Tr)
        /\ (IF Accept(Tr[l]) = TRUE THEN TRUE ELSE PrintT(<<"TRACE-BAD", l>>))
        /\ l' = l + 1
TraceNext == Step
TraceAccepted == LET d == TLCGet("stats").diameter IN
                 IF d - 1 = Len(Tr) THEN TRUE ELSE Print(<<"TRACE-POS", d, "of", Len(Tr)>>, FALSE)
=============================================================================
