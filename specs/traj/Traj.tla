--------------------------------- MODULE Traj ---------------------------------
(* Velocity-profile trajectories (src/trajtrap.c, src/trajbell.c) - property C14.
   The statement is kinematic, so it is specified as relations that every planned
   motion has to satisfy, evaluated on fixed-point observations (scale 2^16) of
   the recorded plan and of pos / vel / acc / jer sampled at and around every
   phase boundary, on a uniform grid, before the start and after the end:
     - durations non-negative, ordered, adding up to the total
     - start state (p0, clamped v0), end state (p1, recorded v1), hold outside [0, t]
     - speed within vm (bell: acceleration within am, jerk within jm) at every sample
     - between ANY two consecutive samples the position changes by at most
       vm * dt, the velocity by at most amax * dt (bell: the acceleration by at
       most jm * dt): a Lipschitz form that contains continuity across all phase
       boundaries (samples straddle each boundary at distance 2^-8) and the limits.
   Requests are generated feasible: trapezoid - acceleration signs matching the
   direction of travel; bell - the standard double-S feasibility condition.    *)
EXTENDS Integers, Sequences, FiniteSets, TLC
S == 65536                          \* fixed-point scale
Tol == 24                           \* tolerance in fixed-point units (3.7e-4)
AbsI(x) == IF x < 0 THEN -x ELSE x
\* a logged value: exact dyadic [n, k] (k <= 16) or approximation [n, 16, 1]
Fx(d) == IF Len(d) = 3 THEN d[1] ELSE d[1] * (2 ^ (16 - d[2]))
OkVal(d) == d[2] >= 0 /\ d[2] <= 16
Le(a, b) == a <= b + Tol
EqT(a, b) == AbsI(a - b) <= Tol
\* Lipschitz bound between consecutive samples: |y2 - y1| <= K * (x2 - x1) + tolerance, K an integer limit
Lip(y1, y2, x1, x2, K) == AbsI(y2 - y1) <= K * (x2 - x1) + 2 * Tol

TrapOK(e) ==
  LET r == e.req  vm == AbsI(r.vm)  amax == IF AbsI(r.ac) > AbsI(r.de) THEN AbsI(r.ac) ELSE AbsI(r.de)
      t == Fx(e.t)  ta == Fx(e.ctx.ta)  td == Fx(e.ctx.td)
      v0c == IF r.v0 > vm THEN vm ELSE IF r.v0 < -vm THEN -vm ELSE r.v0
      n == Len(e.samples)
      X(i) == Fx(e.samples[i].x)  P(i) == Fx(e.samples[i].p)  V(i) == Fx(e.samples[i].v)
  IN
  /\ \A i \in 1..n : OkVal(e.samples[i].x) /\ OkVal(e.samples[i].p) /\ OkVal(e.samples[i].v)
  /\ OkVal(e.t) /\ t > 0
  /\ Le(0, ta) /\ Le(ta, td) /\ Le(td, t)                                        \* phase durations non-negative and adding up
  /\ EqT(Fx(e.ctx.v0), v0c * S) /\ Le(AbsI(Fx(e.ctx.v1)), vm * S)                 \* clamped start velocity, final velocity inside the limit
  /\ \A i \in 1..n :
       /\ Le(AbsI(V(i)), vm * S)                                                  \* speed within the velocity limit
       /\ (X(i) <= 0 => EqT(P(i), r.p0 * S) /\ EqT(V(i), Fx(e.ctx.v0)))           \* holds the boundary state before the start
       /\ (X(i) >= t => EqT(P(i), r.p1 * S) /\ EqT(V(i), Fx(e.ctx.v1)))           \* ... and after the end: reaches p1 with the recorded v1
       \* the reported acceleration vanishes outside the motion and strictly inside the cruise phase
       /\ OkVal(e.samples[i].a)
       /\ ((X(i) < 0 \/ X(i) > t \/ (X(i) > ta /\ X(i) < td)) => Fx(e.samples[i].a) = 0)
  /\ \A i \in 1..(n - 1) :
       /\ X(i) <= X(i + 1)
       /\ Lip(P(i), P(i + 1), X(i), X(i + 1), vm)                                 \* position continuous, speed limit between samples
       /\ Lip(V(i), V(i + 1), X(i), X(i + 1), amax)                               \* velocity continuous across the hand-overs

BellOK(e) ==
  LET r == e.req  vm == AbsI(r.vm)  am == AbsI(r.am)  jm == AbsI(r.jm)
      t == Fx(e.t)  ta == Fx(e.ctx.ta)  td == Fx(e.ctx.td)  tv == Fx(e.ctx.tv)  taj == Fx(e.ctx.taj)  tdj == Fx(e.ctx.tdj)
      v0c == IF r.v0 > vm THEN vm ELSE IF r.v0 < -vm THEN -vm ELSE r.v0
      v1c == IF r.v1 > vm THEN vm ELSE IF r.v1 < -vm THEN -vm ELSE r.v1
      n == Len(e.samples)
      X(i) == Fx(e.samples[i].x)  P(i) == Fx(e.samples[i].p)  V(i) == Fx(e.samples[i].v)  A(i) == Fx(e.samples[i].a)  J(i) == Fx(e.samples[i].j)
  IN
  /\ \A i \in 1..n : OkVal(e.samples[i].x) /\ OkVal(e.samples[i].p) /\ OkVal(e.samples[i].v) /\ OkVal(e.samples[i].a) /\ OkVal(e.samples[i].j)
  /\ OkVal(e.t) /\ t > 0
  /\ Le(0, ta) /\ Le(0, tv) /\ Le(0, td) /\ Le(0, taj) /\ Le(0, tdj)
  /\ Le(2 * taj, ta) /\ Le(2 * tdj, td)
  /\ EqT(ta + tv + td, t)                                                         \* phase durations add up to the total
  /\ EqT(Fx(e.ctx.v0), v0c * S) /\ EqT(Fx(e.ctx.v1), v1c * S)
  /\ \A i \in 1..n :
       /\ Le(AbsI(V(i)), vm * S) /\ Le(AbsI(A(i)), am * S) /\ Le(AbsI(J(i)), jm * S)   \* velocity, acceleration, jerk within their limits
       /\ (X(i) <= 0 => EqT(P(i), r.p0 * S) /\ EqT(V(i), v0c * S))
       /\ (X(i) >= t => EqT(P(i), r.p1 * S) /\ EqT(V(i), v1c * S))
       /\ ((X(i) < 0 \/ X(i) > t) => A(i) = 0 /\ J(i) = 0)                          \* at rest in the higher derivatives outside the motion
  /\ \A i \in 1..(n - 1) :
       /\ X(i) <= X(i + 1)
       /\ Lip(P(i), P(i + 1), X(i), X(i + 1), vm)
       /\ Lip(V(i), V(i + 1), X(i), X(i + 1), am)
       /\ ((X(i) > 0 /\ X(i + 1) < t) => Lip(A(i), A(i + 1), X(i), X(i + 1), jm))   \* acceleration continuous inside the motion
=============================================================================
