------------------------------ MODULE PolyTrace ------------------------------
(* Judges the real polynomial routines and polynomial trajectories.  All values
   are exact dyadic rationals [n, k]; with the enumerated data (durations 2^j,
   small integer boundary data, small dyadic evaluation points) every quantity of
   the computation is exactly representable, so equality is demanded.        *)
EXTENDS Poly, Json, IOUtils, TLC
VARIABLE l
Tr == ndJsonDeserialize(IOEnv.TRACE)
Exact(d) == d[2] >= 0
AllExact(s) == \A i \in 1..Len(s) : Exact(s[i])
Rs(s) == [i \in 1..Len(s) |-> RDy(s[i])]
SameR(x, y) == Len(x) = Len(y) /\ \A i \in 1..Len(x) : REq(x[i], y[i])

Accept(e) ==
  CASE e.f = "traj" ->
         LET c == Rs(e.c)  ts == RDy(e.ts)  c1 == Deriv(c)  c2 == Deriv(c1)  c3 == Deriv(c2) IN
         /\ AllExact(e.c) /\ AllExact(e.c1) /\ AllExact(e.c2) /\ AllExact(e.c3)
         /\ BoundaryOK(c, ts, e.bc, e.deg)                                    \* meets all boundary conditions
         /\ SameR(Rs(e.c1), c1) /\ SameR(Rs(e.c2), c2)                        \* accessors = successive formal derivatives
         /\ (e.deg = 7 => SameR(Rs(e.c3), c3))
         /\ \A i \in 1..Len(e.samples) :
              LET s == e.samples[i]  t == RDy(s.t) IN
              /\ Exact(s.pos) /\ Exact(s.vel) /\ Exact(s.acc) /\ Exact(s.jer)
              /\ REq(RDy(s.pos), Eval(c, t)) /\ REq(RDy(s.vel), Eval(c1, t)) /\ REq(RDy(s.acc), Eval(c2, t))
              /\ (e.deg = 7 => REq(RDy(s.jer), Eval(c3, t)))
    [] e.f = "poly" ->
         LET c == [i \in 1..Len(e.c) |-> RQ(e.c[i])]  x == RDy(e.x) IN
         /\ Exact(e.eval) /\ Exact(e.evar) /\ AllExact(e.swapped) /\ AllExact(e.swapped2)
         /\ REq(RDy(e.eval), Eval(c, x))                                        \* Horner value of the polynomial it denotes
         /\ REq(RDy(e.evar), Evar(c, x))                                        \* ... in the other coefficient order
         /\ SameR(Rs(e.swapped), Rev(c)) /\ SameR(Rs(e.swapped2), c)            \* order reversal is an involution
    \* precision: coefficients A_i + m_i * 2^-K (K just below the mantissa width of the element type), integer x:
    \* the exact value is H + M * 2^-K with the integer Horner values of the two parts; anything computed in a narrower
    \* type loses M.  Logged values are <<integer part, (value - integer part) * 2^K, exactly-an-integer flag>>
    [] e.f = "polyx" ->
         LET n == Len(e.A)
             HornerI(c) == LET RECURSIVE H(_, _)
                               H(i, acc) == IF i = 0 THEN acc ELSE H(i - 1, acc * e.x + c[i]) IN H(n, 0)     \* sum c[i] x^(i-1)
             RevI(c) == [i \in 1..n |-> c[n + 1 - i]] IN
         /\ e.eval = <<HornerI(e.A), HornerI(e.m), 1>>
         /\ e.evar = <<HornerI(RevI(e.A)), HornerI(RevI(e.m)), 1>>
    [] e.f = "trajx" -> e.pos0 = <<e.p[1], e.p[2], 1>> /\ e.vel0 = <<e.v[1], e.v[2], 1>>
    \* very short durations 2^-e, rest to rest between integer positions: end position p1 and start position p0 (exactly
    \* for the cubic and quintic, whose intermediates are all exact; within 512 units of 2^-K for the septic, which multiplies by a
    \* double-precision 1/6 - 4096 units in the long double build, where that constant is the dominant error), end velocity and acceleration zero
    [] e.f = "trajtiny" ->
         /\ e.pos0 = <<e.p[1], 0, 1>>
         /\ IF e.deg < 7 THEN e.posT = <<e.p[2], 0, 1>> /\ e.velT = <<0, 0, 1>> /\ e.accT = <<0, 0, 1>>
                         ELSE e.posT[1] = e.p[2] /\ AbsI(e.posT[2]) <= (IF e.width = 16 THEN 4096 ELSE 512)
    [] OTHER -> FALSE

TraceInit == l = 1
Step == /\ l <= Len(Tr)
        /\ (IF Accept(Tr[l]) = TRUE THEN TRUE ELSE PrintT(<<"TRACE-BAD", l>>))
        /\ l' = l + 1
TraceNext == Step
TraceAccepted == LET d == TLCGet("stats").diameter IN
                 IF d - 1 = Len(Tr) THEN TRUE ELSE Print(<<"TRACE-POS", d, "of", Len(Tr)>>, FALSE)
=============================================================================
