--------------------------------- MODULE Poly ---------------------------------
(* Polynomial evaluation (src/poly.c) and the cubic / quintic / septic point-to-
   point trajectories (src/trajpoly3.c, trajpoly5.c, trajpoly7.c) - property C15.
   A polynomial is its coefficient sequence c (c[1] = constant term), over exact
   rationals.  The trajectories are specified by their DEFINING conditions, not by
   their closed-form coefficients: the polynomial of degree 3/5/7 whose value and
   first 1/2/3 derivatives at 0 and at ts are the requested boundary data.     *)
EXTENDS Integers, Sequences, Rational
RECURSIVE PowR(_, _)
PowR(x, k) == IF k = 0 THEN RQ(1) ELSE RMul(x, PowR(x, k - 1))
RECURSIVE EvalFrom(_, _, _)
\* sum c[i] * x^(i-1), Horner from the top
EvalFrom(c, x, i) == IF i > Len(c) THEN RQ(0) ELSE RAdd(c[i], RMul(x, EvalFrom(c, x, i + 1)))
Eval(c, x) == EvalFrom(c, x, 1)
Rev(c) == [i \in 1..Len(c) |-> c[Len(c) + 1 - i]]
Evar(c, x) == Eval(Rev(c), x)                   \* the polynomial with the coefficient order reversed
Deriv(c) == [i \in 1..(Len(c) - 1) |-> RMul(RQ(i), c[i + 1])]
\* boundary conditions: bc = [p0, p1, v0, v1, a0, a1, j0, j1] (integers; unused ones ignored)
BoundaryOK(c, ts, bc, deg) ==
  LET c1 == Deriv(c)  c2 == Deriv(c1)  c3 == Deriv(c2)  z == RQ(0) IN
  /\ Len(c) = deg + 1
  /\ REq(Eval(c, z), RQ(bc.p0)) /\ REq(Eval(c, ts), RQ(bc.p1))
  /\ REq(Eval(c1, z), RQ(bc.v0)) /\ REq(Eval(c1, ts), RQ(bc.v1))
  /\ (deg >= 5 => REq(Eval(c2, z), RQ(bc.a0)) /\ REq(Eval(c2, ts), RQ(bc.a1)))
  /\ (deg >= 7 => REq(Eval(c3, z), RQ(bc.j0)) /\ REq(Eval(c3, ts), RQ(bc.j1)))
=============================================================================
