-------------------------------- MODULE PolyMC --------------------------------
(* Generator for C15: TLC enumerates durations, boundary data (with non-zero
   derivatives) and coefficient vectors / evaluation points.  Design-level facts
   about the definitions are checked as assumptions.                          *)
EXTENDS Poly, FiniteSets, TLC, Json
PVq == {-1, 0, 2}
DVq == {-1, 1}
AV == {-2, 2}
JV == {-6, 6}
DVt == {-2, -1, 1}
PVt == {-2, 0, 1, 3}
CoefQ == {-1, 0, 2}
CoefT == {-2, -1, 0, 1, 3}
DursQ == {-1, 0, 1}
DursT == {-2, -1, 0, 1, 2, 3}
Xq == {-1, 0, 1, 2}
Xt == {-3, -1, 0, 1, 2, 5}
CONSTANTS Durations, PV, DV, CoefVals, MaxLen, XVals, Degrees
Dur(i) == CASE i = -2 -> <<1, 4>> [] i = -1 -> <<1, 2>> [] i = 0 -> <<1, 1>> [] i = 1 -> <<2, 1>> [] i = 2 -> <<4, 1>> [] i = 3 -> <<8, 1>>
VARIABLES kind, a, b
Init == kind = "none" /\ a = <<>> /\ b = <<>>
\* trajectory case: a = <<deg, duration code>>, b = boundary data
TrajCase(deg) == \E d \in Durations, p0 \in PV, p1 \in PV, v0 \in DV, v1 \in DV,
                    \* accelerations even and jerks multiples of 6: then every coefficient (a/2, j/6, ...) is an exact dyadic rational
                    a0 \in (IF deg >= 5 THEN AV ELSE {0}), a1 \in (IF deg >= 5 THEN AV ELSE {0}),
                    j0 \in (IF deg >= 7 THEN JV ELSE {0}), j1 \in (IF deg >= 7 THEN JV ELSE {0}) :
                 kind' = "traj" /\ a' = <<deg, d>> /\ b' = <<p0, p1, v0, v1, a0, a1, j0, j1>>
SeqsLen(S, n) == [1..n -> S]
PolyCase == \E n \in 0..MaxLen : \E c \in SeqsLen(CoefVals, n), x \in XVals : kind' = "poly" /\ a' = c /\ b' = <<x>>
\* long coefficient vectors from fixed patterns (loops over many coefficients), evaluated at -1/2, 1/2 and 1 (x in halves)
LongPoly == \E n \in {9, 12, 16}, v \in {0, 1}, x \in {-1, 1, 2} :
              kind' = "poly" /\ a' = [i \in 1..n |-> ((i * (v + 2) + v) % 5) - 2] /\ b' = <<x>>
Next == kind = "none" /\ ((\E deg \in Degrees : TrajCase(deg)) \/ PolyCase \/ LongPoly)
Emit == PrintT(ToJson(<<IF kind' = "traj" THEN 7070707 ELSE 6060606, Len(a'), Len(b'), a', b'>>))
\* definitions are consistent: reversal is an involution, Evar of c is Eval of the reversed vector
ASSUME \A c \in SeqsLen({RQ(-1), RQ(2), RQ(0)}, 3) : Rev(Rev(c)) = c /\ REq(Evar(c, RQ(2)), Eval(Rev(c), RQ(2)))
ASSUME REq(Eval(<<RQ(1), RQ(2), RQ(3)>>, RQ(2)), RQ(17)) /\ REq(Evar(<<RQ(1), RQ(2), RQ(3)>>, RQ(2)), RQ(11))
ASSUME Deriv(<<RQ(5), RQ(1), RQ(2), RQ(3)>>) = <<RQ(1), RQ(4), RQ(9)>>
=============================================================================
