------------------------------ MODULE CNumTrace ------------------------------
(* One event = the same (function, argument) evaluated in the reference build
   configuration (every switch bound to the C library) and in another
   configuration, joined line by line.  Rejected: a far disagreement between the
   configurations, a structural rule broken in the configuration under test, an
   exact-algebra rule broken.  Inconclusive disagreements (between the two
   thresholds) are reported separately (TRACE-INC) and do not reject.        *)
EXTENDS CNum, Json, IOUtils, TLC
VARIABLE l
Tr == ndJsonDeserialize(IOEnv.TRACE)
Val(x) == IF "w" \in DOMAIN x THEN x.w ELSE x.y
Accept(e) ==
  LET a == e.alt  r == e.ref IN
  /\ NotFar(Val(r), Val(a), e.width)
  \* for sqrt/log on the real axis, -z lies on the branch cut (sign of zero decides): not compared
  /\ (a.k = "u" => Structure(a, e.width) /\ NotFar(r.wc, a.wc, e.width) /\ ((a.cut = 1 /\ SignIm(a.z) = 0) \/ NotFar(r.wn, a.wn, e.width)))
  /\ (a.k = "b" => ExactRule(a, e.width))
  \* scale relation: f(z * 2^s) scaled back by the exact power of two agrees with f(z) (s = +-600, float +-70)
  /\ (a.k = "h" => /\ Finite(a.w) /\ Finite(a.ws)
                   \* the logarithm relation subtracts s * ln 2 from a result of that size: conditioned by |s ln 2 / log z|, judged with the coarse threshold
                   /\ (IF a.fn \in {"log", "logabs"} THEN NotFarCoarse(a.w, a.ws, e.width) ELSE Close(a.w, a.ws, e.width)))
  \* the two calling forms of one operation (and the component-wise definitions of add/sub with a scalar) give the same value
  /\ (a.k = "e" => a.w = a.ws \/ Close(a.w, a.ws, e.width))        \* identical, or within the accuracy the property grants either form
  /\ (a.k \in {"r", "r2"} => Finite(a.y))
Inconclusive(e) == DistClass(Val(e.ref), Val(e.alt), e.width) = 1
TraceInit == l = 1
Step == /\ l <= Len(Tr)
        /\ (IF Accept(Tr[l]) = TRUE THEN TRUE ELSE PrintT(<<"TRACE-BAD", l>>))
        /\ (IF Inconclusive(Tr[l]) THEN PrintT(<<"TRACE-INC", l>>) ELSE TRUE)
        /\ l' = l + 1
TraceNext == Step
TraceAccepted == LET d == TLCGet("stats").diameter IN
                 IF d - 1 = Len(Tr) THEN TRUE ELSE Print(<<"TRACE-POS", d, "of", Len(Tr)>>, FALSE)
=============================================================================
