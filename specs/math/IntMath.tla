------------------------------- MODULE IntMath -------------------------------
(* Integer helpers of src/math.c and include/a/a.h (property C19).
   Definitions (the oracle):
     IsIsqrt(x, r)   r*r <= x < (r+1)*(r+1)
     IsGcd(a, b, g)  g divides both and every common divisor divides... is <= g; 0 only for (0,0)
     RevDef          bit i of the result is bit w-1-i of the argument
     little/big-endian byte layouts
   Transcriptions checked against the definitions by TLC for every input of a
   small word width W (the code is width-parametric):
     Newton's iteration of a_u32_sqrt / a_u64_sqrt with the start value 2^(bsr/2 + 1),
     the digit-by-digit root compiled instead where no bit-scan intrinsic exists,
     Euclid's algorithm of a_u32_gcd / a_u64_gcd, lcm = a / gcd * b,
     the swap-halves bit reversal.                                           *)
EXTENDS Integers, Sequences, FiniteSets, TLC
CONSTANT W                       \* word width of the model
Word == 0..(2 ^ W - 1)
IsIsqrt(x, r) == r * r <= x /\ x < (r + 1) * (r + 1)
Divides(d, x) == IF d = 0 THEN x = 0 ELSE x % d = 0
IsGcd(a, b, g) == /\ Divides(g, a) /\ Divides(g, b)
                  /\ \A d \in 1..(IF a > b THEN a ELSE b) : (Divides(d, a) /\ Divides(d, b)) => d <= g
                  /\ (g = 0 <=> (a = 0 /\ b = 0))
RECURSIVE Bsr(_)
Bsr(x) == IF x <= 1 THEN 0 ELSE 1 + Bsr(x \div 2)

\* ---- Newton's iteration as a state machine
VARIABLES x, x0, x1, pc, res
vars == <<x, x0, x1, pc, res>>
Init == x \in Word /\ x0 = 0 /\ x1 = 0 /\ pc = "start" /\ res = 0
Start == /\ pc = "start"
         /\ IF x <= 1 THEN pc' = "done" /\ res' = x /\ UNCHANGED <<x0, x1>>
            ELSE pc' = "loop" /\ x1' = 2 ^ ((Bsr(x) \div 2) + 1) /\ UNCHANGED <<x0, res>>
         /\ UNCHANGED x
Loop == /\ pc = "loop"
        /\ x0' = x1 /\ x1' = (x1 + x \div x1) \div 2
        /\ pc' = "test" /\ UNCHANGED <<x, res>>
Test == /\ pc = "test"
        /\ IF x0 > x1 THEN pc' = "loop" /\ UNCHANGED res ELSE pc' = "done" /\ res' = x0
        /\ UNCHANGED <<x, x0, x1>>
Next == Start \/ Loop \/ Test
NewtonCorrect == pc = "done" => IsIsqrt(x, res)
NoOverflow == x1 < 2 ^ (W + 1) /\ x0 < 2 ^ (W + 1)      \* intermediate values fit the word (plus the carry of the sum)
StartAbove == pc = "loop" /\ x0 = 0 => x1 * x1 > x       \* the first iterate is above the root

\* ---- the digit-by-digit root (the variant compiled where no bit-scan intrinsic exists): b starts at the highest power
\* of four of the word, is lowered to the highest one not above x, and one result bit is decided per power of four
RECURSIVE LowerB(_, _)
LowerB(b, v) == IF b > v THEN LowerB(b \div 4, v) ELSE b
RECURSIVE Digits(_, _, _)
Digits(v, y, b) == IF b = 0 THEN y
                   ELSE LET a == y + b  y2 == y \div 2 IN
                        IF v >= a THEN Digits(v - a, y2 + b, b \div 4) ELSE Digits(v, y2, b \div 4)
DigitRoot(v) == Digits(v, 0, LowerB(2 ^ (W - 2), v))
DigitCorrect == \A v \in Word : IsIsqrt(v, DigitRoot(v))
ASSUME W >= 2 /\ W % 2 = 0 => DigitCorrect        \* every word of the (even) model width, evaluated once

\* ---- Euclid, lcm, bit reversal as operators (checked by ASSUME-style invariants over all words)
RECURSIVE Euclid(_, _)
Euclid(a, b) == IF b = 0 THEN a ELSE Euclid(b, a % b)
Lcm(a, b) == LET g == Euclid(a, b) IN IF g = 0 THEN 0 ELSE (a \div g) * b
RevDef(v, w) == LET bit(i) == (v \div (2 ^ i)) % 2 IN
                LET RECURSIVE Sum(_) Sum(i) == IF i = w THEN 0 ELSE bit(w - 1 - i) * (2 ^ i) + Sum(i + 1) IN Sum(0)
Small == 0..63
GcdCorrect == \A a \in Small, b \in Small : IsGcd(a, b, Euclid(a, b))
LcmCorrect == \A a \in Small, b \in Small : Lcm(a, b) * Euclid(a, b) = a * b
RevInvolution == \A v \in Small : RevDef(RevDef(v, 8), 8) = v
=============================================================================
