------------------------------- MODULE RealVec -------------------------------
(* Reductions and array helpers of src/math.c (second half of C11), by their
   defining formulas on integer data: strided views, sum, absolute sum, sum of
   squares, mean, dot product, Euclidean norm (data chosen with a perfect-square
   sum of squares, also scaled by huge / tiny powers of two: the norm must not
   overflow or underflow when the true result is representable), copy / swap /
   fill / zero / push / roll.  Events come from harness/rvec_h.c.              *)
EXTENDS Integers, Sequences, Rational, Json, IOUtils, TLC
VARIABLE l
Tr == ndJsonDeserialize(IOEnv.TRACE)
Strided(p, n, c) == [i \in 1..n |-> p[(i - 1) * c + 1]]
RECURSIVE SumI(_, _)
SumI(s, i) == IF i > Len(s) THEN 0 ELSE s[i] + SumI(s, i + 1)
Abs1(x) == IF x < 0 THEN -x ELSE x
Map(s, F(_)) == [i \in 1..Len(s) |-> F(s[i])]
IsDy(d) == d[2] >= 0
IntOf(d) == d[1]                       \* only used after checking d[2] = 0
Ints(s) == \A i \in 1..Len(s) : s[i][2] = 0
Vals(s) == [i \in 1..Len(s) |-> s[i][1]]

Accept(e) ==
  CASE e.f = "reduce" ->
         LET v == Strided(e.p, e.n, e.c)  w == Strided(e.q, e.n, e.d) IN
         /\ IsDy(e.sum) /\ IsDy(e.sum1) /\ IsDy(e.sum2) /\ IsDy(e.dot)
         /\ REq(RDy(e.sum), RQ(SumI(v, 1)))
         /\ REq(RDy(e.sum1), RQ(SumI(Map(v, Abs1), 1)))
         /\ REq(RDy(e.sum2), RQ(SumI([i \in 1..e.n |-> v[i] * v[i]], 1)))
         /\ REq(RDy(e.dot), RQ(SumI([i \in 1..e.n |-> v[i] * w[i]], 1)))
         /\ (e.n > 0 => NearTol(e.mean, RNorm(SumI(v, 1), e.n)))
         \* Euclidean norm (data with a perfect-square sum of squares): the integer root, to a few ulps - exactness is not claimed
         /\ LET S == SumI([i \in 1..e.n |-> v[i] * v[i]], 1)
                R == CHOOSE r \in 0..S : r * r = S IN
            /\ NearTol(e.norm, RQ(R))
            \* the same data scaled by 2^+-k (k up to the exponent range): result scaled by the same factor, no overflow / underflow
            /\ \A i \in 1..Len(e.scaled) : NearTol(e.scaled[i], RQ(R))
            /\ (e.n = 2 => NearTol(e.norm2, RQ(R)))
            /\ (e.n = 3 => NearTol(e.norm3, RQ(R)))
            \* the unstrided twins: bit-identical to the strided forms at stride one (flagged by the harness) and right by themselves
            /\ "twins" \notin DOMAIN e
            /\ ("u" \in DOMAIN e =>
                  /\ IsDy(e.u.sum) /\ IsDy(e.u.sum1) /\ IsDy(e.u.sum2) /\ IsDy(e.u.dot)
                  /\ REq(RDy(e.u.sum), RQ(SumI(v, 1))) /\ REq(RDy(e.u.sum1), RQ(SumI(Map(v, Abs1), 1)))
                  /\ REq(RDy(e.u.sum2), RQ(S)) /\ REq(RDy(e.u.dot), RQ(SumI([i \in 1..e.n |-> v[i] * w[i]], 1)))
                  /\ (e.n > 0 => NearTol(e.u.mean, RNorm(SumI(v, 1), e.n)))
                  /\ NearTol(e.u.norm, RQ(R)))
    [] e.f = "move" ->
         LET n == e.n  a == e.a  b == e.b IN      \* a, b: integer arrays before; results after each helper
         /\ Ints(e.copy) /\ Vals(e.copy) = a
         /\ Ints(e.copy_s) /\ Vals(e.copy_s) = [i \in 1..Len(b) |-> IF (i - 1) % e.dc = 0 /\ (i - 1) \div e.dc < n THEN a[((i - 1) \div e.dc) * e.sc + 1] ELSE b[i]]
         /\ Vals(e.swap_a) = SubSeq(b, 1, n) \o SubSeq(a, n + 1, Len(a)) /\ Vals(e.swap_b) = SubSeq(a, 1, n) \o SubSeq(b, n + 1, Len(b))
         /\ Vals(e.fill) = [i \in 1..Len(a) |-> IF i <= n THEN 7 ELSE a[i]]
         /\ Vals(e.zero) = [i \in 1..Len(a) |-> IF i <= n THEN 0 ELSE a[i]]
         /\ Vals(e.push_fore) = (IF n = 0 THEN a ELSE <<9>> \o SubSeq(a, 1, n - 1) \o SubSeq(a, n + 1, Len(a)))
         /\ Vals(e.push_back) = (IF n = 0 THEN a ELSE SubSeq(a, 2, n) \o <<9>> \o SubSeq(a, n + 1, Len(a)))
         /\ Vals(e.roll_fore) = (IF n = 0 THEN a ELSE SubSeq(a, 2, n) \o <<a[1]>> \o SubSeq(a, n + 1, Len(a)))
         /\ Vals(e.roll_back) = (IF n = 0 THEN a ELSE <<a[n]>> \o SubSeq(a, 1, n - 1) \o SubSeq(a, n + 1, Len(a)))
    [] e.f = "bulk" ->
         \* bulk shift helpers on the first bn cells of an array of 8 (the rest must stay untouched)
         LET bn == e.bn  cn == e.cn  blk == SubSeq(e.b, 1, bn)  rest == SubSeq(e.b, bn + 1, 8)
             cache == SubSeq(e.c, 1, cn)
             n == IF cn < bn THEN cn ELSE bn
             RotL(s, k) == [i \in 1..Len(s) |-> s[((i - 1 + k) % Len(s)) + 1]]
             RotR(s, k) == [i \in 1..Len(s) |-> s[((i - 1 - k + 3 * 8 * Len(s)) % Len(s)) + 1]] IN
         /\ Ints(e.push_fore) /\ Ints(e.push_back) /\ Ints(e.roll_fore) /\ Ints(e.roll_back) /\ Ints(e.roll_fore2) /\ Ints(e.roll_back2)
         \* appending the cache element by element with the one-element push: the last bn of block ++ cache
         /\ Vals(e.push_back) = SubSeq(blk \o cache, cn + 1, cn + bn) \o rest
         \* a cache not longer than the block goes in front in its own order, the block's head moves up
         /\ (cn <= bn => Vals(e.push_fore) = SubSeq(cache \o blk, 1, bn) \o rest)
         \* a longer cache: undocumented which window of it remains - required: some contiguous window of the cache, rest untouched
         /\ (cn > bn => /\ SubSeq(Vals(e.push_fore), bn + 1, 8) = rest
                        /\ \E o \in 0..(cn - bn) : SubSeq(Vals(e.push_fore), 1, bn) = SubSeq(cache, o + 1, o + bn))
         /\ Vals(e.roll_fore) = RotL(blk, cn % bn) \o rest /\ Vals(e.roll_fore2) = RotL(blk, cn % bn) \o rest
         /\ Vals(e.roll_back) = RotR(blk, cn % bn) \o rest /\ Vals(e.roll_back2) = RotR(blk, cn % bn) \o rest
    [] e.f = "swaps" ->
         /\ Ints(e.ra) /\ Ints(e.rb)
         /\ Vals(e.ra) = [i \in 1..12 |-> IF (i - 1) % e.lc = 0 /\ (i - 1) \div e.lc < e.n THEN e.b[((i - 1) \div e.lc) * e.rc + 1] ELSE e.a[i]]
         /\ Vals(e.rb) = [i \in 1..12 |-> IF (i - 1) % e.rc = 0 /\ (i - 1) \div e.rc < e.n THEN e.a[((i - 1) \div e.rc) * e.lc + 1] ELSE e.b[i]]
    \* components hundreds of binary orders apart, the huge one (2^E, negative or positive, in any position) dominates: every
    \* norm, scaled back by 2^-E, is 1 to the accuracy of the element type
    [] e.f = "normmix" -> \A i \in 1..Len(e.vals) : NearTol(e.vals[i], RQ(1))
    [] e.f = "angle" -> NearTol(e.deg, RQ(45 * e.q)) /\ NearTol(e.rad4, RQ(e.q))
    [] e.f = "coord" ->
         \* Pythagorean points on the axes / in the quadrants: radius exact, angle in the right octant (units of pi/4), round trip
         \* the radius is exact where it is an integer (axis points and Pythagorean points)
         /\ e.rho[2] >= 0
         /\ (e.intrho = 1 => LET S == e.x * e.x + e.y * e.y + e.z * e.z IN NearTol(e.rho, RQ(CHOOSE r \in 0..S : r * r = S)))
         /\ NearTol(e.back[1], RQ(e.x)) /\ NearTol(e.back[2], RQ(e.y)) /\ NearTol(e.back[3], RQ(e.z))
         /\ (e.z = 0 /\ e.oct >= -4 => NearTol(e.theta4, RQ(e.oct)))
    [] OTHER -> FALSE

TraceInit == l = 1
Step == /\ l <= Len(Tr)
        /\ (IF Accept(Tr[l]) = TRUE THEN TRUE ELSE PrintT(<<"TRACE-BAD", l>>))
        /\ l' = l + 1
TraceNext == Step
TraceAccepted == LET d == TLCGet("stats").diameter IN
                 IF d - 1 = Len(Tr) THEN TRUE ELSE Print(<<"TRACE-POS", d, "of", Len(Tr)>>, FALSE)
=============================================================================
