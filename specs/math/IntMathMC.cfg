CONSTANT W = 8
INIT Init
NEXT Next
INVARIANT NewtonCorrect
INVARIANT NoOverflow
INVARIANT StartAbove
CHECK_DEADLOCK FALSE
