--------------------------------- MODULE CNum ---------------------------------
(* Relations over recorded floating-point behaviour of the complex functions
   (src/complex.c, C10) and the real special functions (src/math.c, C11).
   TLC has no reals; what it judges are relations between logged values:
   - agreement of every build configuration (each A_HAVE_* switch selects the C
     library or liba's fallback) with the all-libm configuration, normwise, with
     a two-sided threshold (close / inconclusive / far);
   - principal-value structure: conjugate symmetry, parity, sign rules on the
     cuts' sides, octant of the argument;
   - exact algebra on dyadic Gaussian numbers (field operations, scalar forms,
     principal square roots of perfect squares, non-negative integer powers,
     polar form at quarter turns), with exact rational expectations.
   A complex value is coded <<e, s1, hi1, lo1, s2, hi2, lo2>>:
   component = s * (hi * 2^24 + lo) * 2^(e - 53), the larger one in [2^52, 2^53). *)
EXTENDS Integers, Sequences, Rational
AbsV(x) == IF x < 0 THEN -x ELSE x
Finite(c) == AbsV(c[1]) < 99999 \/ c[1] = -99999
IsZero(c) == c[1] = -99999
\* halve a component (used to bring two codes to the same exponent)
HalfHi(h, l) == h \div 2
HalfLo(h, l) == (l + (h % 2) * 16777216) \div 2
\* difference of two components given at the same exponent, as <<dhi, dlo>> collapsed to one integer if |dhi| <= 1, else "big"
CompDiff(s1, h1, l1, s2, h2, l2) ==
  IF s1 = s2 \/ (h1 = 0 /\ l1 = 0) \/ (h2 = 0 /\ l2 = 0)
  THEN LET dh == (IF s1 = 0 THEN 0 ELSE h1) - (IF s2 = 0 THEN 0 ELSE h2) IN
       IF AbsV(dh) > 1 THEN 1000000000 ELSE AbsV(dh * 16777216 + (IF s1 = 0 THEN 0 ELSE l1) - (IF s2 = 0 THEN 0 ELSE l2))
  ELSE IF h1 + h2 > 1 THEN 1000000000 ELSE (h1 + h2) * 16777216 + l1 + l2      \* opposite signs: both must be tiny
CoarseDiff(s1, h1, s2, h2) == IF s1 = s2 \/ h1 = 0 \/ h2 = 0 THEN AbsV((IF s1 = 0 THEN 0 ELSE h1) - (IF s2 = 0 THEN 0 ELSE h2)) ELSE h1 + h2
Shift(c) == <<c[1] + 1, c[2], HalfHi(c[3], c[4]), HalfLo(c[3], c[4]), c[5], HalfHi(c[6], c[7]), HalfLo(c[6], c[7])>>
\* distance class of two codes: 0 close, 1 inconclusive, 2 far.  One unit = 2^-53 of the larger component (half an eps).
\* Calibration: on the whole argument grid the library's fallbacks differ from the C library by at most 6 eps (12 units).
\* double: close <= 64 units (32 eps); far > 1024 units (512 eps) - "a small multiple of machine precision" is exceeded
\* float : one float ulp is 32 hi units (a hi unit is 2^-29); close <= 512 hi units (16 ulps), far > 8192 hi units (256 ulps)
Klo == 64
Khi == 1024
KloF == 512
KhiF == 8192
\* the coarse classification (used where the relation itself is ill conditioned): close <= 2^16 units, far > 2^-20 resp. 2^-14
KloC == 65536
KhiCoarse == 512
KloFC == 2048
KhiFC == 32768
Aligned(a, b) ==
  LET x == IF a[1] < b[1] THEN (IF b[1] - a[1] = 1 THEN Shift(a) ELSE a) ELSE a
      y == IF b[1] < a[1] THEN (IF a[1] - b[1] = 1 THEN Shift(b) ELSE b) ELSE b IN <<x, y>>
DistClassG(a, b, wd, klo, khi, klof, khif, fine) ==
  IF ~Finite(a) \/ ~Finite(b) THEN (IF a = b THEN 0 ELSE 2)
  ELSE IF IsZero(a) /\ IsZero(b) THEN 0
  ELSE IF IsZero(a) \/ IsZero(b) THEN 2
  ELSE LET xy == Aligned(a, b)  x == xy[1]  y == xy[2] IN
       IF x[1] # y[1] THEN 2
       ELSE LET c1 == CoarseDiff(x[2], x[3], y[2], y[3])
                c2 == CoarseDiff(x[5], x[6], y[5], y[6]) IN
            IF wd = 4 THEN (IF c1 <= klof /\ c2 <= klof THEN 0 ELSE IF c1 <= khif /\ c2 <= khif THEN 1 ELSE 2)
            ELSE LET d1 == CompDiff(x[2], x[3], x[4], y[2], y[3], y[4])
                     d2 == CompDiff(x[5], x[6], x[7], y[5], y[6], y[7]) IN
                 IF d1 <= klo /\ d2 <= klo THEN 0
                 ELSE IF fine THEN (IF d1 <= khi /\ d2 <= khi THEN 1 ELSE 2)
                 ELSE (IF c1 <= khi /\ c2 <= khi THEN 1 ELSE 2)
DistClass(a, b, wd) == DistClassG(a, b, wd, Klo, Khi, KloF, KhiF, TRUE)
DistCoarse(a, b, wd) == DistClassG(a, b, wd, KloC, KhiCoarse, KloFC, KhiFC, FALSE)
Close(a, b, wd) == DistClass(a, b, wd) = 0
NotFar(a, b, wd) == DistClass(a, b, wd) # 2
NotFarCoarse(a, b, wd) == DistCoarse(a, b, wd) # 2
ConjC(c) == <<c[1], c[2], c[3], c[4], -c[5], c[6], c[7]>>
NegC(c) == <<c[1], -c[2], c[3], c[4], -c[5], c[6], c[7]>>
SignRe(c) == c[2]
SignIm(c) == c[5]
\* structural rules for a unary function value (u-events)
Structure(e, wd) ==
  /\ Finite(e.w) /\ Finite(e.wc) /\ Finite(e.wn)
  /\ Close(e.wc, ConjC(e.w), wd)                                         \* f(conj z) = conj f(z)
  /\ (e.par = 1 => Close(e.wn, NegC(e.w), wd)) /\ (e.par = 2 => Close(e.wn, e.w, wd))     \* odd / even
  \* f(z) = z (1 + O(z^2)) for the odd functions with unit slope at the origin: for tiny z the value is z itself,
  \* both components included (a tiny imaginary part is not noise)
  /\ (e.fn \in {"sin", "tan", "asin", "atan", "sinh", "tanh", "asinh", "atanh"} /\ Finite(e.z) /\ ~IsZero(e.z) /\ e.z[1] <= -59
        => Close(e.w, e.z, wd))
  /\ (e.fn = "sqrt" => SignRe(e.w) >= 0 /\ (SignIm(e.z) # 0 => SignIm(e.w) = SignIm(e.z)))   \* principal root
  /\ (e.fn \in {"log", "log2", "log10"} => (SignIm(e.z) # 0 => SignIm(e.w) = SignIm(e.z)) /\ (SignIm(e.z) = 0 /\ SignRe(e.z) > 0 => SignIm(e.w) = 0))

\* ---- exact algebra on dyadic Gaussian numbers: complex rationals as <<re, im>>
CAdd(x, y) == <<RAdd(x[1], y[1]), RAdd(x[2], y[2])>>
CSub(x, y) == <<RSub(x[1], y[1]), RSub(x[2], y[2])>>
CMul(x, y) == <<RSub(RMul(x[1], y[1]), RMul(x[2], y[2])), RAdd(RMul(x[1], y[2]), RMul(x[2], y[1]))>>
CAbs2(x) == RAdd(RMul(x[1], x[1]), RMul(x[2], x[2]))
CDiv(x, y) == LET d == CAbs2(y)  n == CMul(x, <<y[1], RNeg(y[2])>>) IN <<RDiv(n[1], d), RDiv(n[2], d)>>
RECURSIVE CPow(_, _)
CPow(x, n) == IF n = 0 THEN <<RQ(1), RQ(0)>> ELSE CMul(x, CPow(x, n - 1))
\* double: a short dyadic result is compared exactly, anything else within 2^-13; float results are all short dyadics, so
\* they are compared within 2^-13 throughout (exact rounding of inexact quotients is not claimed)
NearC(wd, x, width) == IF width = 4 THEN NearTol(wd[1], x[1]) /\ NearTol(wd[2], x[2]) ELSE Near(wd[1], x[1]) /\ Near(wd[2], x[2])
ExactRule(e, width) ==
  LET x == <<RVal(e.ad[1]), RVal(e.ad[2])>>  y == <<RVal(e.ad[3]), RVal(e.ad[4])>>  s == RVal(e.ad[3]) IN
  CASE e.fn = "add" -> NearC(e.wd, CAdd(x, y), width)
    [] e.fn = "sub" -> NearC(e.wd, CSub(x, y), width)
    [] e.fn = "mul" -> NearC(e.wd, CMul(x, y), width)
    [] e.fn = "div" -> NearC(e.wd, CDiv(x, y), width)
    [] e.fn = "muldiv" -> NearC(e.wd, x, width)                              \* multiply then divide by the same number
    [] e.fn = "mul_real" -> NearC(e.wd, <<RMul(x[1], s), RMul(x[2], s)>>, width)
    [] e.fn = "div_real" -> NearC(e.wd, <<RDiv(x[1], s), RDiv(x[2], s)>>, width)
    [] e.fn = "mul_imag" -> NearC(e.wd, <<RNeg(RMul(x[2], s)), RMul(x[1], s)>>, width)
    [] e.fn = "div_imag" -> NearC(e.wd, <<RDiv(x[2], s), RNeg(RDiv(x[1], s))>>, width)
    [] e.fn = "conj" -> NearC(e.wd, <<x[1], RNeg(x[2])>>, width)
    [] e.fn = "neg" -> NearC(e.wd, <<RNeg(x[1]), RNeg(x[2])>>, width)
    [] e.fn = "abs2_abs" -> Near(e.wd[1], CAbs2(x)) /\ RLe(RQ(0), RVal(e.wd[2]))
    [] e.fn = "explog" -> NearC(e.wd, x, width)                              \* log(exp z) = z for |Im z| < pi
    [] e.fn = "sqrtsq" -> NearC(e.wd, x, width)                              \* sqrt(z)^2 = z
    [] e.fn = "pow_int" -> (IF s[1] >= 0 /\ s[1] <= 2 /\ RLe(CAbs2(x), RQ(18)) THEN NearC(e.wd, CPow(x, s[1]), width) ELSE TRUE)
    [] e.fn = "pow_real2" -> (IF RLe(CAbs2(x), RQ(18)) THEN NearC(e.wd, CMul(x, x), width) ELSE TRUE)
    [] e.fn = "sqrt_exact" ->      \* principal root of (a + bi)^2 is +-(a + bi) with non-negative real part (positive imaginary part on the cut)
         LET a == y[1]  b == y[2]
             flip == RLt(a, RQ(0)) \/ (a[1] = 0 /\ RLt(b, RQ(0))) IN
         NearC(e.wd, IF flip THEN <<RNeg(a), RNeg(b)>> ELSE <<a, b>>, width)
    [] e.fn = "sqrt_real" -> (IF RLt(x[1], RQ(0)) THEN Near(e.wd[1], RQ(0)) /\ REq(RMul(RVal(e.wd[2]), RVal(e.wd[2])), RNeg(x[1])) /\ RLt(RQ(0), RVal(e.wd[2]))
                              ELSE Near(e.wd[2], RQ(0)) /\ REq(RMul(RVal(e.wd[1]), RVal(e.wd[1])), x[1]) /\ RLe(RQ(0), RVal(e.wd[1])))
    [] e.fn = "polar" -> LET rho == x[1]  q == x[2][1] IN
         NearC(e.wd, CASE q = 0 -> <<rho, RQ(0)>> [] q = 1 -> <<RQ(0), rho>> [] q = 2 -> <<RNeg(rho), RQ(0)>> [] OTHER -> <<RQ(0), RNeg(rho)>>, width)
    [] e.fn = "arg_octant" -> Near(e.wd[1], RQ(y[1][1]))             \* arg in units of pi/4: the octant the argument lies in / on
    [] OTHER -> TRUE
=============================================================================
