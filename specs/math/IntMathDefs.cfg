CONSTANT W = 2
INIT Init
NEXT Next
INVARIANT GcdCorrect
INVARIANT LcmCorrect
INVARIANT RevInvolution
CHECK_DEADLOCK FALSE
