---------------------------- MODULE IntMathTrace ----------------------------
(* Validates results of the real integer helpers (harness/intmath_h.c).  All
   numbers are little-endian byte sequences (Limbs).  The judgement is the
   definition, evaluated by TLC with exact arithmetic:
     sqrt   r*r <= x < (r+1)*(r+1)
     gcd    the recorded Euclidean chain a = q1*b + r1, b = q2*r1 + r2, ... (each
            step checked, remainders strictly decreasing to 0) certifies its last
            non-zero remainder as gcd(a,b); the library's result must equal it
     lcm    lcm * gcd = a * b whenever a*b fits the word
     rev    bit i of the result = bit w-1-i of the argument (hence an involution)
     setl/setb/getl/getb   the byte layout their names state                  *)
EXTENDS Limbs, SequencesExt, Json, IOUtils, TLC
VARIABLE l
Tr == ndJsonDeserialize(IOEnv.TRACE)
One == <<1>>
Fits(a, w) == Len(StripL(a)) <= w \div 8

RECURSIVE ChainOK(_, _, _, _)
\* prev = q*cur + nxt along the chain; returns the gcd or <<255,255,...>> marker (-1) when a step is wrong
ChainOK(prev, cur, chain, i) ==
  IF StripL(cur) = <<>> THEN (IF i > Len(chain) THEN StripL(prev) ELSE <<999>>)
  ELSE IF i > Len(chain) THEN <<999>>
  ELSE LET q == chain[i][1]  r == chain[i][2] IN
       IF LEq(prev, LAdd(LMul(q, cur), r)) /\ LLt(r, cur) THEN ChainOK(cur, r, chain, i + 1) ELSE <<999>>

Accept(e) ==
  CASE e.f = "sqrt" -> /\ IsBytes(e.x) /\ IsBytes(e.r)
                       /\ LLe(LMul(e.r, e.r), e.x) /\ LLt(e.x, LMul(LAdd(e.r, One), LAdd(e.r, One)))
    [] e.f = "gcd" -> /\ IsBytes(e.g)
                      /\ StripL(e.g) = ChainOK(e.a, e.b, e.chain, 1)
    [] e.f = "lcm" -> IF Fits(LMul(e.a, e.b), e.w) THEN LEq(LMul(e.l, e.g), LMul(e.a, e.b)) ELSE TRUE
    [] e.f = "rev" -> /\ IsBytes(e.r) /\ Len(StripL(e.r)) <= e.w \div 8
                      /\ \A i \in 0..(e.w - 1) : LBit(e.r, i) = LBit(e.x, e.w - 1 - i)
    [] e.f = "setl" -> e.bytes = e.x
    [] e.f = "setb" -> e.bytes = Reverse(e.x)
    [] e.f = "getl" -> e.x = e.bytes
    [] e.f = "getb" -> e.x = Reverse(e.bytes)
    [] OTHER -> FALSE

TraceInit == l = 1
Step == /\ l <= Len(Tr)
        /\ (IF Accept(Tr[l]) = TRUE THEN TRUE ELSE PrintT(<<"TRACE-BAD", l>>))
        /\ l' = l + 1
TraceNext == Step
TraceAccepted == LET d == TLCGet("stats").diameter IN
                 IF d - 1 = Len(Tr) THEN TRUE ELSE Print(<<"TRACE-POS", d, "of", Len(Tr)>>, FALSE)
=============================================================================
