CONSTANTS WM = 16
 Polys = {4129, 32773, 1, 65535}
 Regs = {0, 65535, 4660}
 BytesC = {0, 49, 255}
