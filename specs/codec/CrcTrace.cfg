CONSTANTS WM = 8 Polys = {} Regs = {} BytesC = {}
INIT TraceInit
NEXT TraceNext
POSTCONDITION TraceAccepted
CHECK_DEADLOCK FALSE
