--------------------------------- MODULE Crc ---------------------------------
(* CRC of src/crc.c and the multiplicative string hashes of src/hash.c (C17).
   Registers are bit sequences of length w, most significant bit first.
   Definition = bit-by-bit polynomial division:
     MSB-first: the message byte is XOR-ed into the top 8 bits; 8 times: shift
                left, and if the bit shifted out was 1, XOR the polynomial;
     LSB-first: the byte is XOR-ed into the low 8 bits; 8 times: shift right,
                and if the bit shifted out was 1, XOR the bit-reversed polynomial.
   The table-driven form (one lookup per byte) is defined from it; TLC checks the
   inductive step "table step = 8 bit steps" from an arbitrary register value,
   and the reflection law between the two bit orders.                         *)
EXTENDS Integers, Sequences, FiniteSets, SequencesExt, TLC, Limbs
Xor(a, b) == [i \in 1..Len(a) |-> (a[i] + b[i]) % 2]
Zero(w) == [i \in 1..w |-> 0]
ShiftL(r) == Tail(r) \o <<0>>
ShiftR(r) == <<0>> \o SubSeq(r, 1, Len(r) - 1)
RevBits(r) == Reverse(r)
ByteBits(b) == [i \in 1..8 |-> (b \div (2 ^ (8 - i))) % 2]             \* MSB first
FromInt(x, w) == [i \in 1..w |-> (x \div (2 ^ (w - i))) % 2]             \* for w <= 30
ToInt(r) == LET RECURSIVE S(_) S(i) == IF i > Len(r) THEN 0 ELSE r[i] * (2 ^ (Len(r) - i)) + S(i + 1) IN S(1)
\* little-endian byte limbs <-> bit sequence
BitsOf(a, w) == [i \in 1..w |-> LBit(a, w - i)]

RECURSIVE StepsM(_, _, _)
StepsM(r, poly, k) == IF k = 0 THEN r ELSE StepsM(IF r[1] = 1 THEN Xor(ShiftL(r), poly) ELSE ShiftL(r), poly, k - 1)
RECURSIVE StepsL(_, _, _)
StepsL(r, rpoly, k) == IF k = 0 THEN r ELSE StepsL(IF r[Len(r)] = 1 THEN Xor(ShiftR(r), rpoly) ELSE ShiftR(r), rpoly, k - 1)
ByteM(r, poly, b) == LET w == Len(r) IN StepsM(Xor(r, ByteBits(b) \o [i \in 1..(w - 8) |-> 0]), poly, 8)
ByteL(r, poly, b) == LET w == Len(r) IN StepsL(Xor(r, [i \in 1..(w - 8) |-> 0] \o ByteBits(b)), RevBits(poly), 8)
RECURSIVE CrcM(_, _, _, _)
CrcM(r, poly, msg, i) == IF i > Len(msg) THEN r ELSE CrcM(ByteM(r, poly, msg[i]), poly, msg, i + 1)
RECURSIVE CrcL(_, _, _, _)
CrcL(r, poly, msg, i) == IF i > Len(msg) THEN r ELSE CrcL(ByteL(r, poly, msg[i]), poly, msg, i + 1)
\* table entries as the code builds them
TableM(poly, c) == ByteM(Zero(Len(poly)), poly, c)
TableL(poly, c) == ByteL(Zero(Len(poly)), poly, c)
\* table-driven update of one byte
TStepM(r, poly, b) == LET w == Len(r)  idx == ToInt(Xor(SubSeq(r, 1, 8), ByteBits(b))) IN
                      Xor(SubSeq(r, 9, w) \o [i \in 1..8 |-> 0], TableM(poly, idx))
TStepL(r, poly, b) == LET w == Len(r)  idx == ToInt(Xor(SubSeq(r, w - 7, w), ByteBits(b))) IN
                      Xor([i \in 1..8 |-> 0] \o SubSeq(r, 1, w - 8), TableL(poly, idx))
Rev8(b) == ToInt(Reverse(ByteBits(b)))
\* ---- design-level checks for a small width (CONSTANTS chosen in the cfg)
CONSTANTS WM, Polys, Regs, BytesC
TableEqualsBitSerial == \A p \in Polys, r \in Regs, b \in BytesC :
   LET P == FromInt(p, WM) R == FromInt(r, WM) IN TStepM(R, P, b) = ByteM(R, P, b) /\ TStepL(R, P, b) = ByteL(R, P, b)
Reflection == \A p \in Polys, r \in Regs, b \in BytesC :
   LET P == FromInt(p, WM) R == FromInt(r, WM) IN ByteL(R, P, b) = RevBits(ByteM(RevBits(R), P, Rev8(b)))
Chunking == \A p \in Polys, r \in Regs, b \in BytesC, c \in BytesC :
   LET P == FromInt(p, WM) R == FromInt(r, WM) IN CrcM(R, P, <<b, c>>, 1) = CrcM(CrcM(R, P, <<b>>, 1), P, <<c>>, 1)
ASSUME TableEqualsBitSerial
ASSUME Reflection
ASSUME Chunking
\* ---- hashes: val' = val * m + c  (mod 2^32), on byte limbs
Trunc4(a) == [i \in 1..4 |-> Dig(a, i)]
HashStep(v, m, c) == Trunc4(LAdd(LMul(v, m), <<c>>))
RECURSIVE HashFold(_, _, _, _)
HashFold(v, m, msg, i) == IF i > Len(msg) THEN v ELSE HashFold(HashStep(v, m, msg[i]), m, msg, i + 1)
BKDR == <<131>>
SDBM == <<63, 0, 1>>      \* 65599 = 0x1003F
=============================================================================
