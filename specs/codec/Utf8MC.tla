------------------------------- MODULE Utf8MC -------------------------------
(* Generator for the UTF-8 conformance run (C18): TLC enumerates
   - every byte string up to length L over one representative (both ends) of each
     byte class the decoder distinguishes: NUL, ASCII, continuation, lead bytes of
     2..6 byte sequences, 0xFE, 0xFF;
   - the code points around every length boundary and every power of two;
   and checks the design-level facts of the code (Utf8): round trip of the
   reference encoder/decoder pair and rejection of proper prefixes.          *)
EXTENDS Utf8, FiniteSets, SequencesExt, TLC, Json
CONSTANT L
ClassBytes == {0, 65, 127, 128, 191, 192, 194, 223, 224, 239, 240, 247, 248, 251, 252, 253, 254, 255}
VARIABLE b
Init == b = <<>>
Next == Len(b) < L /\ \E c \in ClassBytes : b' = Append(b, c)
Emit == PrintT(ToJson(<<2222222, Len(b'), b'>>))

\* reference decoder of a well-formed sequence (definition, not the transcription)
RECURSIVE Fold(_, _, _)
Fold(s, i, acc) == IF i > Len(s) THEN acc ELSE Fold(s, i + 1, acc * 64 + (s[i] % 64))
DecodeRef(s) == IF Len(s) = 1 THEN s[1] ELSE Fold(s, 2, s[1] - LeadMask(Len(s)))
Pow2(k) == 2 ^ k
Boundaries == {1, 2, 126, 127, 128, 129, 2046, 2047, 2048, 2049, 65534, 65535, 65536, 65537, 2097150, 2097151, 2097152, 2097153,
               67108862, 67108863, 67108864, 67108865, 2147483646, 2147483647}
CodePoints == Boundaries \cup {Pow2(k) : k \in 0..30} \cup {Pow2(k) - 1 : k \in 1..30} \cup {Pow2(k) + 1 : k \in 1..30}
RoundTrip == \A cp \in CodePoints : /\ Len(Encode(cp)) = ULen(cp)
                                     /\ DecodeRef(Encode(cp)) = cp
                                     /\ LeadLen(Encode(cp)[1]) = ULen(cp)
                                     /\ \A i \in 2..ULen(cp) : IsCont(Encode(cp)[i])
                                     /\ cp >= MinCp(ULen(cp))
EmitCps == PrintT(ToJson(<<1111111, SetToSeq(CodePoints)>>))
Table == PrintT(ToJson(<<1212121, [n \in 1..6 |-> MinCp(n)], [n \in 1..6 |-> LeadMask(n)]>>))
\* long structured strings: every multi-byte lead class (and 0xFE / 0xFF) followed by 0..9 continuation bytes and then
\* nothing, an ASCII byte or a NUL - the decoder's window is the table's six bytes whatever follows
Leads == {192, 223, 224, 239, 240, 247, 248, 251, 252, 253, 254, 255}
LongStrs == {<<ld>> \o [i \in 1..k |-> c] \o tl : ld \in Leads, k \in 0..9, c \in {128, 191}, tl \in {<<>>, <<65>>, <<0>>}}
EmitLong == \A s \in LongStrs : PrintT(ToJson(<<2222222, Len(s), s>>))
\* long mixed texts: up to three units (ASCII, NUL, two- and three-byte characters, a stray continuation byte, 0xFE)
\* between a short head and a tail of at least seven more bytes - the counter must stop at the first NUL or
\* undecodable byte however much text follows
Units == {<<65>>, <<0>>, <<195, 169>>, <<226, 130, 172>>, <<128>>, <<254>>, <<240, 159>>}
Heads == {<<>>, <<66>>, <<195, 169>>}
Tails == {<<67, 68, 69, 70, 71, 72, 73>>, <<67, 68, 69, 70, 71, 72, 195, 169, 74>>}
Mixed == {h \o u1 \o t : h \in Heads, u1 \in Units, t \in Tails}
         \cup {h \o u1 \o u2 \o t : h \in Heads, u1 \in Units, u2 \in Units, t \in Tails}
         \cup {h \o u1 \o u2 \o u3 \o t : h \in Heads, u1 \in Units, u2 \in Units, u3 \in Units, t \in Tails}
EmitMixed == \A s \in Mixed : PrintT(ToJson(<<2222222, Len(s), s>>))
ASSUME RoundTrip
ASSUME EmitLong
ASSUME EmitMixed
ASSUME EmitCps
ASSUME Table
=============================================================================
