CONSTANTS WM = 8
 Polys = {7, 29, 49, 155, 213, 255, 1, 128}
 Regs = {0, 1, 85, 128, 170, 255}
 BytesC = {0, 1, 49, 128, 255}
