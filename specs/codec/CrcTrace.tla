------------------------------ MODULE CrcTrace ------------------------------
(* Judges results of the real table-driven CRCs and string hashes
   (harness/crc_h.c) by the bit-serial definition of Crc.  Numbers are
   little-endian byte limbs.  Events:
   table  one table entry built by a_crc{8,16,32,64}{m,l}_init
   crc    a message, polynomial, initial value: the value after feeding it at
          once and after feeding it in two pieces for every split point
   hash   a NUL-free message: string form, length-delimited form, every split *)
EXTENDS Crc, Json, IOUtils
VARIABLE l
Tr == ndJsonDeserialize(IOEnv.TRACE)

Accept(e) ==
  CASE e.f = "table" ->
         LET P == BitsOf(e.poly, e.w) IN
         BitsOf(e.t, e.w) = (IF e.dir = "m" THEN TableM(P, e.i) ELSE TableL(P, e.i))
    [] e.f = "crc" ->
         LET P == BitsOf(e.poly, e.w)  R == BitsOf(e.init, e.w)
             def == IF e.dir = "m" THEN CrcM(R, P, e.msg, 1) ELSE CrcL(R, P, e.msg, 1)
             rmsg == [i \in 1..Len(e.msg) |-> Rev8(e.msg[i])] IN
         /\ BitsOf(e.whole, e.w) = def                                        \* table-driven = bit-by-bit division
         /\ \A k \in 1..Len(e.pieces) : e.pieces[k] = e.whole                   \* fed in pieces = fed at once
         /\ Len(e.pieces) = Len(e.msg) + 1
         /\ (e.dir = "l" => def = RevBits(CrcM(RevBits(R), P, rmsg, 1)))        \* the two bit orders are reflections
    [] e.f = "hash" ->
         LET m == IF e.kind = "bkdr" THEN BKDR ELSE SDBM
             def == HashFold(e.init, m, e.msg, 1) IN
         /\ Trunc4(e.len) = def /\ e.str = e.len
         /\ \A k \in 1..Len(e.pieces) : e.pieces[k] = e.len
         /\ Len(e.pieces) = 2 * (Len(e.msg) + 1)
    [] OTHER -> FALSE

TraceInit == l = 1
Step == /\ l <= Len(Tr)
        /\ (IF Accept(Tr[l]) = TRUE THEN TRUE ELSE PrintT(<<"TRACE-BAD", l>>))
        /\ l' = l + 1
TraceNext == Step
TraceAccepted == LET d == TLCGet("stats").diameter IN
                 IF d - 1 = Len(Tr) THEN TRUE ELSE Print(<<"TRACE-POS", d, "of", Len(Tr)>>, FALSE)
=============================================================================
