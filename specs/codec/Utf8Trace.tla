------------------------------ MODULE Utf8Trace ------------------------------
(* Validates what the real a_utf_encode / a_utf_decode / a_utf_length did
   (harness/utf_h.c).  Events:
   cp     a code point, the bytes and length the encoder produced, the decoder's
          result on exactly those bytes (with and without a value pointer, and
          with trailing bytes available), and its results on every proper prefix
   bytes  an arbitrary byte string with a stated length num: the decoder's
          reported length (both variants)
   length a byte string, the decoder results at the successive positions the
          length counter visits, the count and the stop offset it reported
   The buffer handed to the real code is exactly num bytes long under ASan, so a
   read beyond the stated length aborts the harness.                          *)
EXTENDS Utf8, Json, IOUtils, TLC
VARIABLE l
Tr == ndJsonDeserialize(IOEnv.TRACE)
RECURSIVE SumSeq(_, _)
SumSeq(s, i) == IF i > Len(s) THEN 0 ELSE s[i] + SumSeq(s, i + 1)

RECURSIVE FastWalk(_, _, _, _)
FastWalk(b, i, n, cnt) == IF i > n \/ b[i] = 0 THEN cnt
                         ELSE LET L == IF LeadLen(b[i]) = 0 THEN 1 ELSE LeadLen(b[i]) IN
                              IF i + L - 1 > n THEN cnt ELSE FastWalk(b, i + L, n, cnt + 1)
Accept(e) ==
  CASE e.f = "cp" ->
         /\ e.n = ULen(e.cp) /\ e.enc = Encode(e.cp)                      \* the table's length, the table's bytes
         /\ e.dec_len = e.n /\ e.dec_cp = e.cp                             \* round trip
         /\ e.dec_len_noval = e.n /\ e.dec_len_more = e.n /\ e.dec_cp_more = e.cp
         /\ \A i \in 1..Len(e.prefix) : e.prefix[i] = 0                    \* every proper prefix is rejected
         /\ Len(e.prefix) = e.n - 1
    [] e.f = "bytes" ->
         /\ e.len <= e.num                                                  \* never reports more bytes than available
         /\ e.len = e.len_noval
         /\ (e.len >= 2 => \A i \in 2..e.len : IsCont(e.b[i]))               \* trailing bytes are continuation bytes
         /\ (e.len >= 1 => e.b[1] # 0)
         \* a length of the UTF-8 table: the one the first byte announces (a stray continuation byte passes as one unit,
         \* as in the length counter of C06; 0xFE and 0xFF announce nothing and are never accepted)
         /\ (e.len >= 1 => e.len = (IF IsCont(e.b[1]) THEN 1 ELSE LeadLen(e.b[1])))
         /\ (e.num >= 1 /\ e.b[1] = 0 => e.len = 0)
    [] e.f = "length" ->
         LET k == Len(e.decs) IN
         /\ k >= 1 /\ e.decs[k] = 0 /\ \A i \in 1..(k - 1) : e.decs[i] > 0   \* stops at the first NUL or undecodable byte
         /\ e.count = k - 1                                                   \* one code point per accepted sequence
         /\ e.stop = SumSeq(e.decs, 1) /\ e.stop <= e.num                     \* advances by exactly the reported lengths
         \* the unvalidating counter (for text known to be well formed) agrees whenever the text is well formed up to its
         \* end or its first NUL
         /\ ("fast" \in DOMAIN e /\ (e.stop = e.num \/ e.b[e.stop + 1] = 0) => e.fast = e.count)
         \* ... and on any text it counts by lead bytes: each position advances by the length its byte announces (one for a
         \* byte that announces nothing: continuation bytes, 0xFE, 0xFF), up to the first NUL; a character cut by the end is not counted
         /\ ("fast" \in DOMAIN e => e.fast = FastWalk(e.b, 1, e.num, 0))
    [] OTHER -> FALSE

TraceInit == l = 1
Step == /\ l <= Len(Tr)
        /\ (IF Accept(Tr[l]) = TRUE THEN TRUE ELSE PrintT(<<"TRACE-BAD", l>>))
        /\ l' = l + 1
TraceNext == Step
TraceAccepted == LET d == TLCGet("stats").diameter IN
                 IF d - 1 = Len(Tr) THEN TRUE ELSE Print(<<"TRACE-POS", d, "of", Len(Tr)>>, FALSE)
=============================================================================
