"""Per-property registration data: which module runs it, what is claimed. MANIFEST.json is generated from this."""
CHECKS = {
    "C01": dict(module="checks.trees", category="model_checking", design="4/C01",
        technique="TLA+ spec Avl.tla model-checked by TLC (all trees over N keys); every TLC transition replayed into a_avl_insert/remove/search; TLC trace validation (AvlTrace.tla) of every structure the real code produced",
        text="TLC exhaustively explores every AVL tree reachable over N keys (N=9 quick, 13 thorough) and checks the C01 invariants on the design; every transition of that state graph is replayed into the real code compiled from /repo with ASan/UBSan, and every concrete pointer structure the real code produces (plus seeded random histories over 40-60 keys) is validated by TLC against the same invariants. With zero drift between the transcription and the code the result is exhaustive for all histories over N keys.",
        note="Assumes the comparison callback is a strict total order and each call is a deterministic function of the linked nodes' public fields; trees larger than the bound are covered only by random histories."),
    "C02": dict(module="checks.trees", category="model_checking", design="4/C02",
        technique="TLA+ spec Rbt.tla model-checked by TLC; every TLC transition replayed into a_rbt_insert/remove/search; TLC trace validation (RbtTrace.tla)",
        text="Same construction as C01 for the red-black tree (N=10 quick, 12 thorough): root black, no red-red edge, equal black height, parent links, contents, duplicate and lookup rules checked by TLC on the design and on every structure produced by the real code; all 20 insert/remove repair cases (both mirrors) must be exercised or the check reports itself broken.",
        note="Same assumptions as C01."),
    "C03": dict(module="checks.iters", category="model_checking", design="4/C03",
        technique="TLA+ spec TreeIter.tla (reference orders + transcribed step functions) checked by TLC as an invariant on every tree reachable in Avl/Rbt; real iterators and tear-down run on every reachable shape and validated by TLC (TreeIterTrace.tla)",
        text="IterInv (six traversal orders equal their recursive definitions, next/prev mutually inverse, tear-down hands out each node once with children first, reads no handed-out node, leaves a linked remainder after any interruption and ends empty) is model-checked by TLC on every tree reachable over N keys in both containers; the real foreach macros, single-step functions from every node and a_*_tear (from the root, from every start node, interrupted and restarted at every k, handed-out nodes poisoned under ASan) are executed on every such shape and TLC validates the logged sequences against the reference orders.",
        note="Shapes beyond N keys are not enumerated; read-after-hand-out is observed through ASan poisoning in the harness."),
}
NOT_YET = {}
