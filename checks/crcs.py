"""C17: CRC and string hashes (Crc / CrcTrace)."""
import os, glob, json, re
import vlib
from vlib import Check, Broken, tlc, tlc_must_pass

SPECDIR = os.path.join(vlib.SPECS, "codec")


def run(pid, tier, replay=None):
    ck = Check(pid, tier, "model_checking")
    sc = ck.scratch
    q = tier == "quick"
    ck.assumptions += [
        "the bit-serial definition (Crc.tla) is the oracle; TLC evaluates it on every recorded polynomial / initial value / message",
        "width 8: %s polynomials; widths 16/32/64: 4 standard + %d seeded random polynomials per bit order; messages: all of length <= 2 over 6 bytes + seeded messages of length 3-4, every split point"
        % ("16" if q else "all 256", 2 if q else 60),
        "any-length claim: the table step = 8 bit steps from an arbitrary register value is the inductive step; TLC checks it at the design level for widths 8 and 16 on sampled registers",
    ]
    for cfg in ("CrcMC.cfg", "CrcMC16.cfg"):
        res = tlc(os.path.join(SPECDIR, "Crc.tla"), os.path.join(SPECDIR, cfg), sc, timeout=600, workers=4)
        tlc_must_pass(res, "Crc design " + cfg)
        if "Assumption" in res.out and "false" in res.out:
            raise Broken("Crc design assumption false")
        ck.part("design_" + cfg, checked=["TableEqualsBitSerial", "Reflection", "Chunking"], wall=round(res.wall, 1))
    ck.cov["states"] += 1; ck.cov["transitions"] += 1
    exe = vlib.cc_build(sc.path("crc_h"), [os.path.join(vlib.HARNESS, "crc_h.c")] + vlib.repo_src("crc.c", "hash.c", "a.c"), sc)
    r = vlib.run_harness([exe, str(ck.seed), sc.path("g"), "14", "0" if q else "1"], timeout=1200)
    m = re.search(r"^SUMMARY (\{.*\})$", r.stdout or "", re.M)
    if r.returncode != 0 or not m:
        if r.returncode in (96, 97, 98, 99, -6, -11):
            ck.violation("crash", {"what": "sanitizer abort in the CRC/hash routines", "stderr": (r.stderr or "")[-1500:]})
            return ck.finish()
        raise Broken("harness failed rc=%s: %s" % (r.returncode, (r.stderr or "")[-1500:]))
    summ = json.loads(m.group(1))
    ck.part("recorded", **summ)
    files = sorted(glob.glob(sc.path("g-*.ndjson")))
    nev, bad = vlib.validate_collect(os.path.join(SPECDIR, "CrcTrace.tla"), os.path.join(SPECDIR, "CrcTrace.cfg"), files, sc, timeout=3000)
    for f, idx, ev in bad:
        key = "trace:%s:%s%s" % (ev.get("f"), ev.get("kind", "w%s" % ev.get("w")), ev.get("dir", ""))
        ck.violation(key, {"what": "TLC rejected the recorded value: not the bit-serial remainder / not the hash definition / pieces differ from whole", "event": ev})
    ck.cov["traces_validated_against_impl"] = nev
    ck.cov["evaluations"] = summ["events"]
    ck.cov["distinct_nontrivial"] = summ["crc_messages"] + summ["hash_messages"]
    with open(files[0]) as fh:
        ck.sample(json.loads(fh.readline()))
    with open(files[-1]) as fh:
        ck.sample(json.loads(fh.readlines()[-1]))
    ck.cov["rule"] = "one case = one table entry, or one (width, bit order, polynomial, initial value, message) with every split, or one hash message with every split; non-trivial = the message cases"
    return ck.finish(exhaustive=False)
