"""C19: integer square root, gcd/lcm, bit reversal, byte order (IntMath / IntMathTrace)."""
import os, glob, json, re, collections
import vlib
from vlib import Check, Broken, tlc, tlc_must_pass

SPECDIR = os.path.join(vlib.SPECS, "math")


def run(pid, tier, replay=None):
    ck = Check(pid, tier, "model_checking")
    sc = ck.scratch
    q = tier == "quick"
    ck.assumptions += [
        "both variants of the integer roots are built and run (Newton with the bit-scan intrinsic; the digit-by-digit loop with the intrinsic macros undefined in a scratch copy of math.c)",
        "the Newton iteration, the digit-by-digit loop, Euclid's algorithm and the reversal are width-parametric: TLC checks them for every input of word widths 8 and 12 (16 thorough); "
        "the 32/64-bit instances are judged on recorded results by the defining predicates evaluated by TLC with exact byte-limb arithmetic",
        "the sweep over 2^22 (2^32 thorough) arguments of a_u32_sqrt and the sampled a_u64_sqrt arguments are native loops of the defining predicate r*r <= x < (r+1)^2 (conformance extension, not model checking)",
    ]
    # 1. design: Newton transcription for every word of width W; definitions of gcd/lcm/rev
    for W in ([8, 12] if q else [8, 12, 16]):
        cfg = vlib.write_cfg(sc.path("im%d.cfg" % W), ["CONSTANT W = %d" % W, "INIT Init", "NEXT Next", "INVARIANT NewtonCorrect", "INVARIANT NoOverflow",
                                                        "INVARIANT StartAbove", "CHECK_DEADLOCK FALSE"])
        res = tlc(os.path.join(SPECDIR, "IntMath.tla"), cfg, sc, timeout=900)
        tlc_must_pass(res, "IntMath Newton W=%d" % W)
        ck.add_tlc(res, "newton_W%d" % W)
    res = tlc(os.path.join(SPECDIR, "IntMath.tla"), os.path.join(SPECDIR, "IntMathDefs.cfg"), sc, timeout=600)
    tlc_must_pass(res, "IntMath definitions")
    ck.add_tlc(res, "euclid_lcm_rev_definitions")
    # 2. the real functions
    exe = vlib.cc_build(sc.path("intmath_h"), [os.path.join(vlib.HARNESS, "intmath_h.c")] + vlib.repo_src("math.c", "a.c"), sc, opt="-O2", sanitize=False)
    nrand = 3000 if q else 40000
    r = vlib.run_harness([exe, str(ck.seed), sc.path("g"), "14", str(nrand), "22" if q else "32"], timeout=1800)
    m = re.search(r"^SUMMARY (\{.*\})$", r.stdout or "", re.M)
    if r.returncode != 0 or not m:
        mh = re.search(r"^HANG (\{.*\})$", r.stdout or "", re.M)
        if r.returncode == 96 and mh:
            ck.violation("hang:intmath", {"what": "an integer routine did not return within its time limit", "where": mh.group(1)[:200]})
            return ck.finish()
        raise Broken("harness failed rc=%s: %s" % (r.returncode, (r.stderr or "")[-1500:]))
    summ = json.loads(m.group(1))
    ck.part("native_sweep", **summ)
    if summ["sweep32_bad"]:
        ck.violation("sweep:sqrt32", {"what": "a_u32_sqrt(x) is not floor(sqrt(x))", "first_x": summ["sweep32_first_bad"], "count": summ["sweep32_bad"]})
    if summ["sweep64_bad"]:
        ck.violation("sweep:sqrt64", {"what": "a_u64_sqrt(x) is not floor(sqrt(x))", "first_x_hi": summ["sweep64_first_bad_hi"], "first_x_lo": summ["sweep64_first_bad_lo"], "count": summ["sweep64_bad"]})
    # the other variant of the two roots: the digit-by-digit loop that is compiled where no bit-scan intrinsic exists.  A
    # scratch copy of math.c gets the two intrinsic macros undefined in front of the functions; same harness, same judgement
    msrc = open(vlib.repo_src("math.c")[0], errors="replace").read()
    m2, n1 = re.subn(r"^(a_u16 a_u32_sqrt\(a_u32 x\))", r"#undef A_U32_BSR\n\1", msrc, flags=re.M)
    m2, n2 = re.subn(r"^(a_u32 a_u64_sqrt\(a_u64 x\))", r"#undef A_U64_BSR\n\1", m2, flags=re.M)
    if n1 == 1 and n2 == 1 and "Digit-by-digit" in msrc:
        alt = sc.path("math_digit.c")
        with open(alt, "w") as fh:
            fh.write(m2)
        exe2 = vlib.cc_build(sc.path("intmath_d"), [os.path.join(vlib.HARNESS, "intmath_h.c"), alt] + vlib.repo_src("a.c"), sc, opt="-O2", sanitize=False)
        r2 = vlib.run_harness([exe2, str(ck.seed + 7), sc.path("d"), "4", str(nrand // 2), "20" if q else "26"], timeout=1800)
        mm = re.search(r"^SUMMARY (\{.*\})$", r2.stdout or "", re.M)
        if r2.returncode == 96 and re.search(r"^HANG ", r2.stdout or "", re.M):
            ck.violation("hang:intmath:digit-by-digit", {"what": "an integer routine (digit-by-digit build) did not return within its time limit"})
            return ck.finish()
        if r2.returncode != 0 or not mm:
            raise Broken("harness (digit-by-digit build) failed rc=%s: %s" % (r2.returncode, (r2.stderr or "")[-1500:]))
        s2 = json.loads(mm.group(1))
        ck.part("native_sweep_digit_by_digit_build", **s2)
        if s2["sweep32_bad"]:
            ck.violation("sweep:sqrt32:digit-by-digit", {"what": "a_u32_sqrt(x) (digit-by-digit build) is not floor(sqrt(x))", "first_x": s2["sweep32_first_bad"], "count": s2["sweep32_bad"]})
        if s2["sweep64_bad"]:
            ck.violation("sweep:sqrt64:digit-by-digit", {"what": "a_u64_sqrt(x) (digit-by-digit build) is not floor(sqrt(x))", "first_x_hi": s2["sweep64_first_bad_hi"], "first_x_lo": s2["sweep64_first_bad_lo"], "count": s2["sweep64_bad"]})
        summ["events"] += s2["events"]; summ["sweep32"] += s2["sweep32"]; summ["sweep64"] += s2["sweep64"]
    else:
        ck.part("native_sweep_digit_by_digit_build", note="the source no longer has the two variants in the expected shape; not built")
    files = sorted(glob.glob(sc.path("g-*.ndjson")) + glob.glob(sc.path("d-*.ndjson")))
    nev, bad = vlib.validate_collect(os.path.join(SPECDIR, "IntMathTrace.tla"), os.path.join(SPECDIR, "IntMathTrace.cfg"), files, sc)
    for f, idx, ev in bad:
        ck.violation("trace:%s%s" % (ev.get("f"), ev.get("w", "")), {"what": "TLC rejected the recorded result: it does not satisfy the definition", "event": ev})
    kinds = collections.Counter()
    for f in files:
        with open(f) as fh:
            for line in fh:
                e = json.loads(line); kinds["%s%s" % (e["f"], e.get("w", ""))] += 1
    ck.part("events_by_function", **dict(sorted(kinds.items())))
    ck.cov["traces_validated_against_impl"] = nev
    ck.cov["evaluations"] = summ["events"] + summ["sweep32"] + summ["sweep64"]
    ck.cov["distinct_nontrivial"] = summ["events"]
    with open(files[0]) as fh:
        for i in range(3):
            ck.sample(json.loads(fh.readline()))
    ck.cov["rule"] = ("events: every x < 4096, k^2-1/k^2/k^2+1 and 2^b-1/2^b/2^b+1 for every bit length, seeded random arguments (sqrt 32/64); all pairs < 40 and seeded pairs with and "
                      "without large common factors with their Euclidean chains (gcd/lcm 32/64); all bytes, every single-bit word and random words (rev 8/16/32/64); single-bit and random words "
                      "(set/get little/big endian 16/32/64).  distinct_nontrivial counts the TLC-validated events; evaluations adds the native sweep")
    return ck.finish(exhaustive=False)
