"""Shared by C12 (fuzzy / neuro controllers) and C13 (membership functions, operators, gain scheduling):
runs FuzzyMC, the fuzzy harness and FuzzyTrace once and attributes rejected events to the properties."""
import os, glob, json, re
import vlib
from vlib import Broken, tlc, tlc_must_pass

SPECDIR = os.path.join(vlib.SPECS, "ctrl")
C12_EVENTS = ("fpid", "npid", "fpidk", "npidx", "npidl")


def run_fuzzy(ck, sc, tier):
    q = tier == "quick"
    cfg = vlib.write_cfg(sc.path("fz.cfg"), ["CONSTANTS Grid = %s" % ("{0, 1, 2, 4}" if q else "{0, 1, 2, 3, 4, 5, 6}"), " XNum <- %s" % ("XNumQ" if q else "XNumT"),
                                              "INIT Init", "NEXT Next", "INVARIANT Inv", "ACTION_CONSTRAINT Emit", "CHECK_DEADLOCK FALSE"])
    out = sc.path("fz.out")
    res = tlc(os.path.join(SPECDIR, "FuzzyMC.tla"), cfg, sc, timeout=1800, heap="8g", capture_prefix="4040404", stdout_path=out)
    tlc_must_pass(res, "FuzzyMC")
    ck.add_tlc(res, "membership_shape_facts_and_operator_laws")
    exe = vlib.cc_build(sc.path("fuzzy_h"), [os.path.join(vlib.HARNESS, "fuzzy_h.c")] +
                        vlib.repo_src("mf.c", "fuzzy.c", "pid.c", "pid_fuzzy.c", "pid_neuro.c", "math.c", "a.c"), sc)
    r = vlib.run_harness([exe, out, sc.path("fz"), "14", str(ck.seed), "1" if q else "40"], timeout=1800)
    m = re.search(r"^SUMMARY (\{.*\})$", r.stdout or "", re.M)
    if r.returncode != 0 or not m:
        if r.returncode in (96, 97, 98, 99, -6, -11) or "Sanitizer" in (r.stderr or ""):
            return None, [("crash", {"what": "sanitizer abort in the fuzzy routines (e.g. scratch buffer overrun)", "stderr": (r.stderr or "")[-1500:]})], []
        raise Broken("fuzzy harness failed rc=%s: %s" % (r.returncode, (r.stderr or "")[-1500:]))
    summ = json.loads(m.group(1))
    # the controllers again in the float and long double builds (scratch buffer layout, value block offsets depend on the width)
    for real in (4, 16):
        exe_w = vlib.cc_build(sc.path("fuzzy_h%d" % real), [os.path.join(vlib.HARNESS, "fuzzy_h.c")] +
                              vlib.repo_src("mf.c", "fuzzy.c", "pid.c", "pid_fuzzy.c", "pid_neuro.c", "math.c", "a.c"), sc, real=real,
                              extra=["-fno-sanitize=alignment"])   # the value block follows 2*n unsigned ints: not 16-byte aligned for odd n, not claimed
        rw = vlib.run_harness([exe_w, out, sc.path("fz%d" % real), "2", str(ck.seed), "1"], timeout=900)
        mw = re.search(r"^SUMMARY (\{.*\})$", rw.stdout or "", re.M)
        if rw.returncode != 0 or not mw:
            if rw.returncode in (96, 97, 98, 99, -6, -11) or "Sanitizer" in (rw.stderr or ""):
                return None, [("crash", {"what": "sanitizer abort in the fuzzy routines, real width %d (e.g. scratch buffer overrun)" % real, "stderr": (rw.stderr or "")[-1500:]})], []
            raise Broken("fuzzy harness (real width %d) failed rc=%s: %s" % (real, rw.returncode, (rw.stderr or "")[-1500:]))
        sw = json.loads(mw.group(1))
        summ["controllers"] += sw["controllers"]; summ["events"] += sw["events"]
        summ["learn"] = summ.get("learn", 0) + sw.get("learn", 0); summ["learn_inrange"] = summ.get("learn_inrange", 0) + sw.get("learn_inrange", 0)
    files = sorted(glob.glob(sc.path("fz*-*.ndjson")))
    nev, bad = vlib.validate_collect(os.path.join(SPECDIR, "FuzzyTrace.tla"), os.path.join(SPECDIR, "FuzzyTrace.cfg"), files, sc)
    return summ, bad, files


def part_c12(ck, sc, tier):
    summ, bad, files = run_fuzzy(ck, sc, tier)
    if summ is None:
        for k, d in bad:
            ck.violation("crash:fuzzy", d)
        return
    n = 0
    for f, idx, ev in bad:
        if ev.get("f") in C12_EVENTS:
            if ev["f"] == "npidl":
                ck.violation("trace:npidl:inc", {"what": "single-neuron controller with learning: a step is not w += eta e u(k-1) x(k-1), u = clamp(u(k-1) + K w.x / |w|_1) within the logging unit", "event": ev})
                n += 1
                continue
            if ev["f"] == "npidx":
                ck.violation("trace:npidx:inc", {"what": "single-neuron controller (learning rates zero, exact data): output is not clamp(u(k-1) + K (wp xp + wi xi + wd xd) / (|wp|+|wi|+|wd|)), or the weights moved", "event": ev})
                n += 1
                continue
            ck.violation("trace:%s:opr%s:mode%s" % (ev["f"], ev.get("opr", "-"), ev.get("mode")),
                         {"what": "TLC rejected the fuzzy / neuro controller run: output limits, finiteness, scheduled gains or reset behaviour", "event": ev})
            n += 1
    ck.part("fuzzy_and_neuro_controllers", scenarios=summ["controllers"], rejected=n, neuro_learning_scenarios=summ.get("learn", 0), neuro_learning_in_logging_range=summ.get("learn_inrange", 0))
    if summ.get("learn", 0) and summ.get("learn_inrange", 0) * 2 < summ.get("learn", 0):
        # an outcome of the code under test (weights beyond the logging range are finite, hence no violation): recorded only
        vlib.log("NOTE property=%s: fewer than half of the single-neuron learning scenarios stayed inside the logging range" % ck.pid)
    ck.cov["evaluations"] += summ["controllers"]
    ck.cov["distinct_nontrivial"] += summ["controllers"]
    ck.cov["traces_validated_against_impl"] += summ["controllers"] - n
