"""C18: UTF-8 codec (Utf8 / Utf8MC / Utf8Trace)."""
import os, glob, json, re, collections
import vlib
from vlib import Check, Broken, tlc, tlc_must_pass

SPECDIR = os.path.join(vlib.SPECS, "codec")


def run(pid, tier, replay=None):
    ck = Check(pid, tier, "model_checking")
    sc = ck.scratch
    q = tier == "quick"
    L = 4 if q else 5
    ck.assumptions += [
        "byte strings are enumerated over both ends of each byte class the decoder can distinguish (NUL, ASCII, continuation, lead 2..6, 0xFE, 0xFF); other bytes of a class behave alike",
        "reads beyond the stated length are observed through ASan on buffers of exactly num bytes",
        "the sweep over code points (step %d) is a native loop whose only oracle data are the thresholds/masks printed by the specification" % (4099 if q else 1),
        "a stray continuation byte in lead position is accepted by the decoder as a one-byte sequence; the property does not forbid it, so it is not judged",
    ]
    cfg = vlib.write_cfg(sc.path("utf.cfg"), ["CONSTANT L = %d" % L, "INIT Init", "NEXT Next", "ACTION_CONSTRAINT Emit", "CHECK_DEADLOCK FALSE"])
    out = sc.path("utf.out")
    res = tlc(os.path.join(SPECDIR, "Utf8MC.tla"), cfg, sc, timeout=1200, heap="8g", capture_prefix="2222222", stdout_path=out)
    tlc_must_pass(res, "Utf8MC L=%d" % L)
    ck.add_tlc(res, "string_enumeration_and_roundtrip_design")
    exe = vlib.cc_build(sc.path("utf_h"), [os.path.join(vlib.HARNESS, "utf_h.c")] + vlib.repo_src("utf.c", "str.c", "a.c"), sc)
    r = vlib.run_harness([exe, out, sc.path("g"), "14", str(ck.seed), "4099" if q else "1"], timeout=3000)
    m = re.search(r"^SUMMARY (\{.*\})$", r.stdout or "", re.M)
    mc = re.search(r"^CRASH (\{.*\})$", r.stdout or "", re.M)
    if mc:
        d = json.loads(mc.group(1)); d["stderr"] = (r.stderr or "")[-1200:]
        d["what"] = "sanitizer abort: the codec touched memory outside the buffer it was given"
        ck.violation("crash:%s" % d.get("f"), d)
    elif r.returncode == 96 and re.search(r"^HANG ", r.stdout or "", re.M):
        ck.violation("hang:codec", {"what": "a codec call did not return within 20 s (or the native sweep stalled)"})
        return ck.finish()
    elif r.returncode != 0 or not m:
        raise Broken("harness failed rc=%s: %s" % (r.returncode, (r.stderr or "")[-1500:]))
    if m:
        summ = json.loads(m.group(1))
        if not summ["table"]:
            raise Broken("specification table not found in TLC output")
        ck.part("native_sweep", **summ)
        if summ["sweep_bad"]:
            ck.violation("sweep:roundtrip", {"what": "decode(encode(cp)) != (len(cp), cp) or a proper prefix was accepted", "first_cp": summ["sweep_first_bad"], "count": summ["sweep_bad"]})
        ck.cov["evaluations"] = summ["events"] + summ["swept"]
        ck.cov["distinct_nontrivial"] = summ["strings"] + summ["codepoints"]
    files = vlib.drop_partial_lines(sorted(glob.glob(sc.path("g-*.ndjson"))))
    nev, bad = vlib.validate_collect(os.path.join(SPECDIR, "Utf8Trace.tla"), os.path.join(SPECDIR, "Utf8Trace.cfg"), files, sc)
    for f, idx, ev in bad:
        ck.violation("trace:%s" % ev.get("f"), {"what": "TLC rejected the recorded codec result", "event": ev})
    ck.cov["traces_validated_against_impl"] = nev
    if files:
        with open(files[0]) as fh:
            for i in range(2):
                ck.sample(json.loads(fh.readline()))
    ck.cov["rule"] = ("every byte string up to length %d over 18 class-representative bytes, decoded with every stated length 0..len and fed to the length counter; "
                      "code points around every length boundary and power of two plus seeded samples (encode, decode, decode of every proper prefix, decode with trailing bytes); "
                      "distinct_nontrivial = strings + code points" % L)
    return ck.finish(exhaustive=False)
