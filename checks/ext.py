"""Specification growth beyond the twenty listed properties (not in MANIFEST.json): bin/check X01 ...
X01 version (specs/ext/Version*), X02 regression (specs/ext/Regress*)."""
import os, re, json, glob
import vlib
from vlib import Check, Broken, tlc, tlc_must_pass

SPECDIR = os.path.join(vlib.SPECS, "ext")


def run_version(pid, tier, replay=None):
    ck = Check(pid, tier, "model_checking")
    sc = ck.scratch
    res = tlc(os.path.join(SPECDIR, "VersionMC.tla"), os.path.join(SPECDIR, "VersionMC.cfg"), sc, timeout=900, capture_prefix="1313131", stdout_path=sc.path("ver.out"), workers=8)
    tlc_must_pass(res, "VersionMC")
    ck.add_tlc(res, "order_facts_and_enumeration")
    exe = vlib.cc_build(sc.path("ver_h"), [os.path.join(vlib.HARNESS, "ver_h.c")] + vlib.repo_src("version.c", "a.c"), sc)
    r = vlib.run_harness([exe, sc.path("ver.out"), sc.path("ver.ndjson")], timeout=600)
    if r.returncode != 0:
        if r.returncode in (96, 97, 98, 99, -6, -11) or "Sanitizer" in (r.stderr or ""):
            ck.violation("crash:version", {"what": "sanitizer abort in the version routines", "stderr": (r.stderr or "")[-1500:]})
            return ck.finish()
        raise Broken("version harness failed: %s" % (r.stderr or "")[-800:])
    files = vlib.split_file_lines(sc.path("ver.ndjson"), 14, sc.dir, "verb")
    nev, bad = vlib.validate_collect(os.path.join(SPECDIR, "VersionTrace.tla"), os.path.join(SPECDIR, "VersionTrace.cfg"), files, sc)
    for f, idx, ev in bad:
        ck.violation("trace:version", {"what": "TLC rejected: order / derived predicates / text form / parse round trip", "event": ev})
    ck.cov["evaluations"] = nev + len(bad); ck.cov["traces_validated_against_impl"] = nev; ck.cov["distinct_nontrivial"] = nev
    ck.cov["rule"] = "one case = (version a, version b, tag, extra number) from the TLC enumeration"
    ck.assumptions.append("extension beyond the listed properties: a_version order, derived predicates, text form (exact and truncated buffers), parse round trip, tag accessors")
    with open(files[0]) as fh:
        ck.sample(json.loads(fh.readline()))
    return ck.finish(exhaustive=not ck.violations)


def run_regress(pid, tier, replay=None):
    ck = Check(pid, tier, "model_checking")
    sc = ck.scratch
    res = tlc(os.path.join(SPECDIR, "RegressMC.tla"), os.path.join(SPECDIR, "RegressMC.cfg"), sc, timeout=900, capture_prefix="1[45]1[45]1[45]1", stdout_path=sc.path("reg.out"), workers=8)
    tlc_must_pass(res, "RegressMC")
    ck.add_tlc(res, "enumeration")
    exe = vlib.cc_build(sc.path("reg_h"), [os.path.join(vlib.HARNESS, "reg_h.c")] + vlib.repo_src("regress_simple.c", "regress_linear.c", "regress.c", "math.c", "a.c"), sc)
    r = vlib.run_harness([exe, sc.path("reg.out"), sc.path("reg.ndjson")], timeout=600)
    if r.returncode != 0:
        if r.returncode in (96, 97, 98, 99, -6, -11) or "Sanitizer" in (r.stderr or ""):
            ck.violation("crash:regress", {"what": "sanitizer abort in the regression routines", "stderr": (r.stderr or "")[-1500:]})
            return ck.finish()
        raise Broken("regress harness failed: %s" % (r.stderr or "")[-800:])
    files = vlib.split_file_lines(sc.path("reg.ndjson"), 14, sc.dir, "regb")
    nev, bad = vlib.validate_collect(os.path.join(SPECDIR, "RegressTrace.tla"), os.path.join(SPECDIR, "RegressTrace.cfg"), files, sc)
    for f, idx, ev in bad:
        ck.violation("trace:regress:%s" % ev.get("f"), {"what": "TLC rejected: not the least squares line / not the documented gradient step", "event": ev})
    ck.cov["evaluations"] = nev + len(bad); ck.cov["traces_validated_against_impl"] = nev; ck.cov["distinct_nontrivial"] = nev
    ck.cov["rule"] = "one case = one data set (simple regression, 2-3 points) or one (model, two samples) pair (linear model with two coefficients)"
    ck.assumptions.append("extension beyond the listed properties: least squares by the normal equations (all four entry points), prediction and its inverse, residuals, gradient / stochastic / batch steps with step size 1/2; a_regress_linear_mgd is not modelled")
    with open(files[0]) as fh:
        ck.sample(json.loads(fh.readline()))
    return ck.finish(exhaustive=not ck.violations)


def run_polyfit(pid, tier, replay=None):
    ck = Check(pid, tier, "model_checking")
    sc = ck.scratch
    res = tlc(os.path.join(SPECDIR, "PolyFitMC.tla"), os.path.join(SPECDIR, "PolyFitMC.cfg"), sc, timeout=900, capture_prefix="1616161", stdout_path=sc.path("pf.out"), workers=8)
    tlc_must_pass(res, "PolyFitMC")
    ck.add_tlc(res, "enumeration_and_symmetry")
    files = []
    for real in (8, 4, 16):
        exe = vlib.cc_build(sc.path("pfit_h%d" % real), [os.path.join(vlib.HARNESS, "pfit_h.c")] + vlib.repo_src("poly.c", "math.c", "a.c"), sc, real=real)
        o = sc.path("pf%d.ndjson" % real)
        r = vlib.run_harness([exe, sc.path("pf.out"), o], timeout=600)
        if r.returncode != 0:
            if r.returncode in (96, 97, 98, 99, -6, -11) or "Sanitizer" in (r.stderr or ""):
                ck.violation("crash:polyfit", {"what": "sanitizer abort in a_poly_xTx / a_poly_xTy (real width %d)" % real, "stderr": (r.stderr or "")[-1500:]})
                continue
            raise Broken("polyfit harness failed: %s" % (r.stderr or "")[-800:])
        files += vlib.split_file_lines(o, 5, sc.dir, "pfb%d" % real)
    nev, bad = vlib.validate_collect(os.path.join(SPECDIR, "PolyFitTrace.tla"), os.path.join(SPECDIR, "PolyFitTrace.cfg"), files, sc)
    for f, idx, ev in bad:
        ck.violation("trace:polyfit", {"what": "TLC rejected: not the sums of powers the normal equations need, or a write outside the result", "event": ev})
    ck.cov["evaluations"] = nev + len(bad); ck.cov["traces_validated_against_impl"] = nev; ck.cov["distinct_nontrivial"] = nev
    ck.cov["rule"] = "one case = (points x, values y, number of coefficients n), 0-3 points, n = 1..3, three real widths"
    ck.assumptions.append("extension beyond the listed properties: a_poly_xTx / a_poly_xTy on integer data (exact), empty data included")
    with open(files[0]) as fh:
        ck.sample(json.loads(fh.readline()))
    return ck.finish(exhaustive=not ck.violations)


def run_notefreq(pid, tier, replay=None):
    """X04: the note frequency table (pure data): every reference pitch compiled and printed, relations judged by TLC"""
    import subprocess
    ck = Check(pid, tier, "model_checking")
    sc = ck.scratch
    hdr = os.path.join(vlib.REPO, "include", "a", "notefreqs.h")
    text = open(hdr, errors="replace").read()
    names = []
    for m in re.finditer(r"#define\s+A_NOTEFREQ_FREQ_(\w+)\s", text):
        if m.group(1) not in names:
            names.append(m.group(1))
    base = {"C": 0, "D": 2, "E": 4, "F": 5, "G": 7, "A": 9, "B": 11}
    notes = []
    for nm in names:
        mm = re.match(r"^([A-G])(_|b)?(\d+)$", nm)
        if mm:
            notes.append((nm, 12 * int(mm.group(3)) + base[mm.group(1)] + (1 if mm.group(2) == "_" else -1 if mm.group(2) == "b" else 0)))
    pitches = sorted(set(int(x) for x in re.findall(r"#(?:el)?if\s+A_NOTEFREQ_A4\s*==\s*(\d+)", text)))
    if len(notes) < 100 or len(pitches) < 2:
        raise Broken("note table not recognised: %d note names, pitches %s" % (len(notes), pitches))
    src = sc.path("nf.c")
    with open(src, "w") as fh:
        fh.write('#include <stdio.h>\n#include <math.h>\n#include "a/notefreqs.h"\nint main(void)\n{\n    printf("{\\"a4\\":%d,\\"notes\\":[", VERIF_A4);\n')
        for i, (nm, semi) in enumerate(notes):
            fh.write('    printf("%s{\\"semi\\":%d,\\"c\\":%%ld,\\"div\\":%%ld}", lround((double)(A_NOTEFREQ_FREQ_%s) * 100), (long)(A_NOTEFREQ_%s));\n' % ("," if i else "", semi, nm, nm))
        fh.write('    printf("]}\\n");\n    return 0;\n}\n')
    out = sc.path("nf.ndjson")
    with open(out, "w") as fo:
        for a4 in pitches:
            exe = sc.path("nf_%d" % a4)
            p = subprocess.run(["gcc", "-O0", "-w", "-I" + os.path.join(vlib.REPO, "include"), "-DA_NOTEFREQ_A4=%d" % a4, "-DVERIF_A4=%d" % a4, "-DA_NOTEFREQ_FREQ=1000000", src, "-o", exe, "-lm"], stdout=subprocess.PIPE, stderr=subprocess.STDOUT, text=True)
            if p.returncode != 0:
                ck.violation("build:notefreq:%d" % a4, {"what": "the header does not compile with this reference pitch (a note macro is missing or malformed)", "output": p.stdout[-1200:]})
                continue
            r = subprocess.run([exe], stdout=subprocess.PIPE, text=True)
            fo.write(r.stdout)
    nev, bad = vlib.validate_collect(os.path.join(SPECDIR, "NoteFreq.tla"), os.path.join(SPECDIR, "NoteFreq.cfg"), [out], sc)
    for f, idx, ev in bad:
        ck.violation("trace:notefreq:%s" % ev.get("a4"), {"what": "TLC rejected the table of this reference pitch: not rising, names of one key differ, A4 off, an octave not doubling, or a fifth / third off", "a4": ev.get("a4")})
    ck.cov["evaluations"] = len(pitches) * len(notes); ck.cov["traces_validated_against_impl"] = nev; ck.cov["distinct_nontrivial"] = len(pitches)
    ck.cov["rule"] = "one case = one reference pitch (the header compiled with it; %d note macros printed in 1/100 Hz)" % len(notes)
    ck.assumptions.append("extension beyond the listed properties: the note table is data; judged are the relations the equal-tempered scale fixes without the twelfth root of two")
    ck.part("table", pitches=pitches, note_macros=len(notes))
    return ck.finish(exhaustive=not ck.violations)
