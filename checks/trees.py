"""C01 (AVL) and C02 (red-black): model checking + edge replay + trace validation."""
import os, glob, json, re
import vlib
from vlib import Check, Broken, tlc, tlc_must_pass, log

CFG = {
    "C01": dict(kind="avl", mod="Avl", src="avl.c", defs=(), quickN=9, thoroughN=12,
                labels={1: "dup", 2: "root", 3: "leaf-balances-parent", 4: "growth-propagates", 5: "growth-absorbed",
                        6: "insert-single-rotation", 7: "insert-double-rotation", 10: "remove-root-simple",
                        11: "remove-simple", 12: "remove-successor-direct", 13: "remove-successor-deep",
                        14: "shrink-stops", 15: "shrink-propagates", 16: "shrink-single-rotation-balanced-child",
                        17: "shrink-single-rotation", 18: "shrink-double-rotation", 19: "remove-rotates-twice"},
                required=[1, 2, 3, 4, 5, 6, 7, 10, 11, 12, 13, 14, 15, 16, 17, 18],
                required_thorough=[19]),
    "C02": dict(kind="rbt", mod="Rbt", src="rbt.c", defs=("RBT",), quickN=10, thoroughN=12,
                labels={1: "dup", 2: "root-blackened", 3: "parent-black", 4: "ins-case1-recolour", 5: "ins-case2-left",
                        6: "ins-case2-right", 7: "ins-case3-left", 8: "ins-case3-right", 9: "rem-no-left-child",
                        10: "rem-no-right-child", 11: "rem-successor-direct", 12: "rem-successor-deep",
                        13: "fix-case1-left", 14: "fix-case1-right", 15: "fix-case2-stop", 16: "fix-case2-recurse",
                        17: "fix-case3-left", 18: "fix-case3-right", 19: "fix-case4-left", 20: "fix-case4-right"},
                required=list(range(1, 21)), required_thorough=[]),
}


def run(pid, tier, replay=None):
    c = CFG[pid]
    ck = Check(pid, tier, "model_checking")
    sc = ck.scratch
    mod = c["mod"]
    N = c["quickN"] if tier == "quick" else c["thoroughN"]
    N = int(os.environ.get("VERIF_TREE_N", N))
    specdir = os.path.join(vlib.SPECS, "tree")
    ck.assumptions += [
        "keys matter only through the comparison callback, so N keys 1..N stand for any N-element key set",
        "each public call is a deterministic function of the projected node fields (intrusive nodes, no hidden state)",
        "fields of nodes that are not linked into the tree are not part of the state (the code leaves removed nodes stale)",
    ]
    # 1. build the harness from /repo's working tree
    exe = vlib.cc_build(sc.path("tree_" + c["kind"]), [os.path.join(vlib.HARNESS, "tree_h.c")] + vlib.repo_src(c["src"]),
                        sc, defs=c["defs"], extra=["-fsanitize=pointer-overflow,unreachable"] if False else [])
    # 2. TLC: exhaustive model check of the design for N keys, emitting every transition
    cfg = vlib.write_cfg(sc.path(mod + "MC.cfg"), [
        "CONSTANT N = %d" % N, "INIT Init", "NEXT Next", "VIEW view",
        "INVARIANT Inv", "INVARIANT DupInsertIsNoOp", "INVARIANT InsertRet", "INVARIANT SearchIffPresent",
        "ACTION_CONSTRAINT Emit"])
    edges_file = sc.path("edges.out")
    res = tlc(os.path.join(specdir, mod + "MC.tla"), cfg, sc, timeout=3000, heap="12g",
              capture_prefix="7777777", stdout_path=edges_file)
    tlc_must_pass(res, mod + "MC N=%d" % N)
    ck.add_tlc(res, "design_model_check")
    ck.part("design_model_check", N=N, invariants=["TypeOK", "Bst", "Balanced/FactorOK" if pid == "C01" else "RootBlack/NoRedRed/EqualBH",
                                                   "ParentOK", "Refines", "DupInsertIsNoOp", "InsertRet", "SearchIffPresent"])
    # action property on a smaller instance (temporal checking is slower): duplicate insert changes nothing
    cfg2 = vlib.write_cfg(sc.path(mod + "AP.cfg"), ["CONSTANT N = %d" % min(N, 7), "SPECIFICATION Spec", "VIEW view", "PROPERTY DupNoChange", "ACTION_CONSTRAINT NoEmit"])
    res2 = tlc(os.path.join(specdir, mod + "MC.tla"), cfg2, sc, timeout=900)
    tlc_must_pass(res2, mod + " DupNoChange")
    ck.part("action_property_DupNoChange", N=min(N, 7), states=res2.distinct)

    # 3. G: replay every emitted transition into the real code
    nb = 14
    r = vlib.run_harness([exe, "edges", edges_file, sc.path("g"), str(nb)], timeout=3000)
    summ = parse_summary(r)
    if r.returncode != 0 or summ is None:
        handle_crash(ck, r, "edge-replay")
        summ = summ or {"edges": 0, "events": 0, "mismatch": 0, "drift": 0, "nontrivial": 0, "cases": [0] * 20}
    report_mismatches(ck, r)
    ck.cov["evaluations"] += summ["edges"]
    ck.cov["spec_drift"] += summ["drift"]
    ck.cov["distinct_nontrivial"] += summ["nontrivial"]
    cases = {c["labels"].get(i + 1, str(i + 1)): n for i, n in enumerate(summ["cases"]) if (i + 1) in c["labels"]}
    ck.part("edge_replay", edges=summ["edges"], native_mismatches=summ["mismatch"], spec_drift=summ["drift"], case_counts=cases)
    if res.generated - 1 != summ["edges"] and r.returncode == 0:
        raise Broken("emitted %d transitions but replayed %d" % (res.generated - 1, summ["edges"]))
    req = c["required"] + (c["required_thorough"] if N >= 12 else [])
    missing = [c["labels"][i] for i in req if summ["cases"][i - 1] == 0]
    if missing and r.returncode == 0:
        raise Broken("vacuity: cases never exercised by the model: %s" % missing)

    # 3b. the same transitions on the second node layout (separate parent / tag fields, selected by A_SIZE_POINTER on small targets)
    exe_s = vlib.cc_build(sc.path("tree_split_" + c["kind"]), [os.path.join(vlib.HARNESS, "tree_h.c")] + vlib.repo_src(c["src"]),
                          sc, defs=tuple(c["defs"]) + ("SPLIT_LAYOUT", "A_SIZE_POINTER=1"))
    rs = vlib.run_harness([exe_s, "edges", edges_file, sc.path("s"), str(nb)], timeout=3000)
    summ_s = parse_summary(rs)
    if rs.returncode != 0 or summ_s is None:
        handle_crash(ck, rs, "edge-replay-split-layout")
    report_mismatches(ck, rs, "split-layout:")
    if summ_s:
        ck.cov["evaluations"] += summ_s["edges"]
        ck.cov["spec_drift"] += summ_s["drift"]
        ck.part("edge_replay_split_layout", edges=summ_s["edges"], native_mismatches=summ_s["mismatch"], spec_drift=summ_s["drift"],
                build="-DA_SIZE_POINTER=1: parent pointer and balance factor / colour in separate fields")
        if res.generated - 1 != summ_s["edges"] and rs.returncode == 0:
            raise Broken("split layout: emitted %d transitions but replayed %d" % (res.generated - 1, summ_s["edges"]))

    # 4. long random histories on the real code (beyond the exhaustive universe)
    nh, nk, no = (12, 40, 300) if tier == "quick" else (96, 60, 800)
    r2 = vlib.run_harness([exe, "random", str(ck.seed), str(nh), str(nk), str(no), sc.path("r"), str(nb)], timeout=1200)
    summ2 = parse_summary(r2)
    if r2.returncode != 0 or summ2 is None:
        handle_crash(ck, r2, "random-history")
    report_mismatches(ck, r2)
    if summ2:
        ck.cov["evaluations"] += summ2["edges"]
        ck.part("random_histories", histories=nh, keys=nk, ops_each=no, native_mismatches=summ2["mismatch"])

    # 5. V: TLC validates everything the real code produced
    r3 = vlib.run_harness([exe_s, "random", str(ck.seed + 1), str(nh), str(nk), str(no), sc.path("q"), str(nb)], timeout=1200)
    summ3 = parse_summary(r3)
    if r3.returncode != 0 or summ3 is None:
        handle_crash(ck, r3, "random-history-split-layout")
    report_mismatches(ck, r3, "split-layout:")
    if summ3:
        ck.cov["evaluations"] += summ3["edges"]
        ck.part("random_histories_split_layout", histories=nh, keys=nk, ops_each=no, native_mismatches=summ3["mismatch"])
    files = sorted(glob.glob(sc.path("g-*.ndjson")) + glob.glob(sc.path("r-*.ndjson")) + glob.glob(sc.path("s-*.ndjson")) + glob.glob(sc.path("q-*.ndjson")))
    files = vlib.drop_partial_lines(files)
    nev, bad = vlib.validate_collect(os.path.join(specdir, mod + "Trace.tla"), os.path.join(specdir, mod + "Trace.cfg"), files, sc)
    for f, idx, ev in bad:
        key = "trace:" + {1: "insert", 2: "remove", 3: "search"}.get(ev.get("op"), "?")
        ck.violation(key, {"what": "TLC rejected the recorded call: the property invariants do not hold on the structure the real code produced",
                           "batch": os.path.basename(f), "index": idx, "event": ev})
    ck.cov["traces_validated_against_impl"] += nev
    ck.part("trace_validation", batches=len(files), events_accepted=nev)
    with open(files[0]) as fh:
        ck.sample(json.loads(fh.readline()))
    if len(files) > nb:
        with open(files[-1]) as fh:
            ck.sample(json.loads(fh.readline()))
    ck.cov["rule"] = ("every transition (state x insert/remove/search x key) of the TLC state graph over N=%d keys is replayed into the real code; "
                      "non-trivial = the model went through a rotation / recolouring case (distinct (pre-state, op, key) triples); "
                      "plus seeded random histories; every post-structure validated by TLC against the property invariants" % N)
    exhaustive = (not ck.violations) and summ["drift"] == 0 and summ["mismatch"] == 0 and r.returncode == 0
    return ck.finish(exhaustive=exhaustive)


def parse_summary(r):
    m = re.search(r"^SUMMARY (\{.*\})$", r.stdout or "", re.M)
    return json.loads(m.group(1)) if m else None


def report_mismatches(ck, r, prefix=""):
    for m in re.finditer(r"^MISMATCH (\{.*\})$", r.stdout or "", re.M):
        d = json.loads(m.group(1))
        key = "replay:%s%s:%s" % (prefix, {1: "insert", 2: "remove", 3: "search"}.get(d.get("op"), "?"), d["what"])
        ck.violation(key, d)


def handle_crash(ck, r, phase):
    err = (r.stderr or "")[-3000:]
    if err.startswith("TIMEOUT") or r.returncode == 95 or "TIMEOUT:" in err:
        # the harness finishes in well under a minute on a correct tree and bounds its own loops: a library call did not return
        ck.violation("hang:" + phase, {"what": "a library call (or an iteration built on it) did not terminate while replaying a specification behaviour", "detail": err})
        return
    if r.returncode in (98, 99) or "Sanitizer" in err or "runtime error" in err or r.returncode < 0:
        ck.violation("crash:" + phase, {"what": "sanitizer abort / crash inside a library call while replaying a specification behaviour",
                                        "rc": r.returncode, "stderr": err})
    else:
        raise Broken("harness failed in %s rc=%s: %s" % (phase, r.returncode, err))


def offending_event(f, tr):
    m = re.findall(r"TRACE-POS\D+(\d+)", tr.out)
    if not m:
        return None
    d = int(m[-1])  # diameter = matched events + 1  -> offending line index d (1-based) 
    try:
        with open(f) as fh:
            for i, line in enumerate(fh, 1):
                if i == d:
                    return json.loads(line)
    except Exception:
        return None
    return None
