"""C06: dynamic string (Str / StrTrace)."""
import os, glob, json, re
import vlib
from vlib import Check, Broken, tlc, tlc_must_pass
from checks.seqs import replay_with_resume

SPECDIR = os.path.join(vlib.SPECS, "str")
OPS = ["?", "catc", "catc_", "catn", "catn_", "cats", "cats_", "cat", "cat_", "catf", "utf_catc", "getc", "getc_", "getn", "getn_",
       "rtrim", "rtrim_", "ltrim", "ltrim_", "trim", "trim_", "setn", "setn_", "setm", "setm_", "exit", "cmpn", "cmps", "cmp", "utf_len", "acc"]


def configs(tier):
    q = tier == "quick"
    return [
        ("short", ["Bytes = {97, 32, 0, 200}", "Blocks <- BlocksShort", "Lmax = %d" % (3 if q else 4), "TrimSets <- TrimSetsDef",
                   "CPs = {65, 233, 8364, 128512, 1048576, 1114111, 2097151, 2097152, 67108863, 67108864, 2147483647}", "Fmts = {1, 2}", "PopCounts = {0, 1, 2, 1000000}", "CmpSet <- CmpShort"]),
        ("utf", ["Bytes = {97}", "Blocks <- BlocksLong", "Lmax = 8", "TrimSets <- TrimSetsDef",
                 "CPs = {65, 233, 8364, 128512, 1048576, 1114111, 2097151, 2097152, 67108863, 67108864, 2147483647}", "Fmts = {1}", "PopCounts = {1}", "CmpSet <- BlocksLong"]),
        ("mid", ["Bytes = {97, 32}", "Blocks <- BlocksMid", "Lmax = %d" % (9 if q else 10), "TrimSets <- TrimSetsDef",
                 "CPs = {97}", "Fmts = {1, 6, 8}", "PopCounts = {0, 1, 9, 1000000}", "CmpSet <- BlocksMid"]),
        ("long", ["Bytes = {97}", "Blocks <- BlocksLong", "Lmax = %d" % (17 if q else 23), "TrimSets <- TrimSetsDef",
                  "CPs = {97}", "Fmts = {1, 6, 7, 8}", "PopCounts = {0, 1, 9, 1000000}", "CmpSet <- BlocksLong"]),
    ]


def keyfn(d, how):
    return "%s:str:%s:%s" % (how, d.get("op", "?"), d.get("what", "crash"))


def run(pid, tier, replay=None):
    ck = Check(pid, tier, "model_checking")
    sc = ck.scratch
    exe = vlib.cc_build(sc.path("str_h"), [os.path.join(vlib.HARNESS, "str_h.c")] + vlib.repo_src("str.c", "utf.c", "a.c"), sc)
    ck.assumptions += [
        "the formatter (vsnprintf) and strlen are environment functions; their outputs for the format cases used are part of the specification (FmtOut)",
        "pops return the byte as a plain C char converted to int: compared modulo 256 (0xFF is then indistinguishable from the ~0 failure value; not claimed by C06)",
        "a terminating pop/trim that removes nothing is not required to write a terminator (a string built only with the non-terminating twins may have no room for one)",
        "the unchecked variants setn_/setm_ are only called within the capacity / not below the length; bytes exposed by a growing setn are written by the harness",
    ]
    exhaustive = True
    opc = [0] * 31
    for name, consts in configs(tier):
        cfg = vlib.write_cfg(sc.path(name + ".cfg"), ["CONSTANTS"] + [" " + c for c in consts] + ["INIT Init", "NEXT Next", "VIEW view", "INVARIANT Inv", "ACTION_CONSTRAINT Emit"])
        out = sc.path("edges-%s.out" % name)
        res = tlc(os.path.join(SPECDIR, "StrMC.tla"), cfg, sc, timeout=2400, heap="12g", capture_prefix="3333333", stdout_path=out)
        tlc_must_pass(res, "StrMC " + name)
        ck.add_tlc(res, "model_" + name)
        summ, crashes = replay_with_resume(ck, exe, out, sc.path("g-" + name), 14 if tier == "quick" else 60, keyfn)
        if summ is None or crashes or summ["mismatch"] or summ["drift"]:
            exhaustive = False
        if summ:
            if res.generated - res.init_states != summ["edges"]:
                raise Broken("emitted %d transitions but replayed %d (%s)" % (res.generated - res.init_states, summ["edges"], name))
            ck.cov["evaluations"] += summ["edges"]; ck.cov["distinct_nontrivial"] += summ["nontrivial"]; ck.cov["spec_drift"] += summ["drift"]
            ck.part("replay_" + name, edges=summ["edges"], native_mismatches=summ["mismatch"], capacity_drift=summ["drift"], crashes=crashes, constants=consts)
            opc = [a + b for a, b in zip(opc, summ["ops"])]
        files = vlib.drop_partial_lines(sorted(glob.glob(sc.path("g-%s-*.ndjson" % name))))
        nev, bad = vlib.validate_collect(os.path.join(SPECDIR, "StrTrace.tla"), os.path.join(SPECDIR, "StrTrace.cfg"), files, sc)
        for f, idx, ev in bad:
            ck.violation("trace:str:%s" % ev.get("op"), {"what": "TLC rejected the recorded call: content / capacity / terminator / result not what the abstract byte string allows", "event": ev})
            exhaustive = False
        ck.cov["traces_validated_against_impl"] += nev
        ck.part("trace_validation_" + name, batches=len(files), events_accepted=nev)
        if files:
            with open(files[-1]) as fh:
                ck.sample(json.loads(fh.readline()))
    # long random histories on one live string (lengths to several hundred bytes, all byte classes incl. stray continuation
    # bytes and code points of every length): each step judged by StrTrace on its own
    nh, no = (12, 800) if tier == "quick" else (150, 2000)
    rr = vlib.run_harness([exe, "random", str(ck.seed), str(nh), str(no), sc.path("rnd"), "14"], timeout=1800)
    mrr = re.search(r"^SUMMARY (\{.*\})$", rr.stdout or "", re.M)
    if rr.returncode != 0 or not mrr:
        if rr.returncode in (96, 97, 98, 99, -6, -11) or "Sanitizer" in (rr.stderr or ""):
            ck.violation("crash:str:random-history", {"what": "sanitizer abort during a long random string history", "stderr": (rr.stderr or "")[-1500:], "stdout": (rr.stdout or "")[-600:]})
        else:
            raise Broken("random string history failed rc=%s: %s" % (rr.returncode, (rr.stderr or "")[-800:]))
    else:
        rfiles = vlib.drop_partial_lines(sorted(glob.glob(sc.path("rnd-*.ndjson"))))
        rn, rbad = vlib.validate_collect(os.path.join(SPECDIR, "StrTrace.tla"), os.path.join(SPECDIR, "StrTrace.cfg"), rfiles, sc)
        for f, idx, ev in rbad:
            ck.violation("trace:str:%s:random-history" % ev.get("op"), {"what": "TLC rejected a step of a long random string history", "op": ev.get("op"), "a1": ev.get("a1"), "blk": ev.get("blk"),
                                                                          "pre_len": len(ev.get("pre", {}).get("s", [])), "ret": ev.get("ret"), "post": str(ev.get("post"))[:500]})
        ck.cov["traces_validated_against_impl"] += rn
        ck.cov["evaluations"] += rn + len(rbad)
        ck.part("random_histories", histories=nh, steps_each=no, events_accepted=rn)
    ck.part("coverage_by_operation", **{OPS[i]: n for i, n in enumerate(opc) if 0 < i < len(OPS)})
    missing = [OPS[i] for i in range(1, len(OPS)) if opc[i] == 0]
    if missing and not ck.violations:      # (a crashed replay has its own violation; its counters are empty)
        raise Broken("vacuity: operations never exercised: %s" % missing)
    ck.cov["rule"] = ("every transition of the TLC state graphs of Str: short strings over the byte classes {a, space, NUL, >=0x80} with all operations and code points of every UTF-8 length; "
                      "medium strings over 2 bytes and long single-byte strings crossing the 8/16(/24) capacity boundaries with one- and two-pass formatted appends; "
                      "non-trivial = capacity changed, terminator required, or trim/length/compare operation")
    return ck.finish(exhaustive=exhaustive)
