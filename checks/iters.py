"""C03: iterators and tear-down on every shape reachable in the AVL / red-black state graphs."""
import os, glob, json, re
import vlib
from vlib import Check, Broken, tlc, tlc_must_pass
from checks.trees import parse_summary, handle_crash, offending_event, report_mismatches


def run(pid, tier, replay=None):
    ck = Check(pid, tier, "model_checking")
    sc = ck.scratch
    specdir = os.path.join(vlib.SPECS, "tree")
    Ns = {"avl": 10, "rbt": 10} if tier == "quick" else {"avl": 12, "rbt": 11}
    if os.environ.get("VERIF_TREE_N"):
        Ns = {k: int(os.environ["VERIF_TREE_N"]) for k in Ns}
    ck.assumptions += ["iteration depends on the shape only (keys appear through their rank), so shapes are canonicalised by key rank",
                       "shapes are those reachable by insert/remove histories over N keys (all of them, from the TLC state graph)"]
    files_all = []
    tot_shapes = 0
    for kind, mod, src, defs in (("avl", "Avl", "avl.c", ()), ("rbt", "Rbt", "rbt.c", ("RBT",))):
        N = Ns[kind]
        exe = vlib.cc_build(sc.path("tree_" + kind), [os.path.join(vlib.HARNESS, "tree_h.c")] + vlib.repo_src(src), sc, defs=defs)
        # design level: IterInv on every reachable tree (transcribed step functions vs reference orders), and emit the graph
        cfg = vlib.write_cfg(sc.path(mod + "IT.cfg"), ["CONSTANT N = %d" % N, "INIT Init", "NEXT Next", "VIEW view",
                                                        "INVARIANT Inv", "INVARIANT IterOK", "ACTION_CONSTRAINT Emit"])
        out = sc.path("edges-%s.out" % kind)
        res = tlc(os.path.join(specdir, mod + "MC.tla"), cfg, sc, timeout=3000, heap="12g", capture_prefix="7777777", stdout_path=out)
        tlc_must_pass(res, "%sMC IterOK N=%d" % (mod, N))
        ck.add_tlc(res, "design_%s" % kind)
        ck.part("design_%s" % kind, N=N, invariant="IterInv (6 orders = reference; next/prev inverse; tear: once each, children first, no read after hand-out, remainder linked, ends empty) on every reachable tree")
        # both node layouts: tag packed into the parent pointer, and separate parent / tag fields (small-pointer targets)
        exe_s = vlib.cc_build(sc.path("tree_split_" + kind), [os.path.join(vlib.HARNESS, "tree_h.c")] + vlib.repo_src(src), sc, defs=tuple(defs) + ("SPLIT_LAYOUT", "A_SIZE_POINTER=1"))
        for lay, ex in (("packed", exe), ("split", exe_s)):
            r = vlib.run_harness([ex, "iter", out, sc.path("it-%s-%s" % (kind, lay)), "7", str(N)], timeout=300 if tier == "quick" else 1500)
            summ = parse_summary(r)
            report_mismatches(ck, r, "%s-%s:" % (kind, lay))
            if r.returncode != 0 or summ is None:
                handle_crash(ck, r, "iterate-%s%s" % (kind, "" if lay == "packed" else "-split-layout"))
            if summ:
                tot_shapes += summ["edges"]
                ck.cov["evaluations"] += summ["edges"]
                ck.cov["distinct_nontrivial"] += summ["nontrivial"]
                ck.part("iterate_%s_%s" % (kind, lay), shapes=summ["edges"], shapes_with_3plus_nodes=summ["nontrivial"])
            files_all += glob.glob(sc.path("it-%s-%s-*.ndjson" % (kind, lay)))
    files = vlib.drop_partial_lines(sorted(files_all))
    spec = os.path.join(specdir, "TreeIterTrace.tla"); cfgt = os.path.join(specdir, "TreeIterTrace.cfg")
    nev, bad = vlib.validate_collect(spec, cfgt, files, sc)
    for f, idx, ev in bad:
        kind = ev.get("kind", "?")
        ev = {k: ev[k] for k in ev if k != "tears"} | {"tears": ev.get("tears", [])[:3]}
        ck.violation("trace:iter-%s" % kind, {"what": "TLC rejected the sequences produced by the real iterators / tear-down for this shape", "event": ev})
    ck.cov["traces_validated_against_impl"] += nev
    ck.part("trace_validation", batches=len(files), events_accepted=nev)
    if files:
        with open(files[0]) as fh:
            e = json.loads(fh.readline()); e["tears"] = e["tears"][:2]
            ck.sample(e)
    ck.cov["rule"] = ("one case = one canonical shape (keys renumbered by rank, colours/factors kept) occurring in the TLC state graph of Avl (N=%d) or Rbt (N=%d); "
                      "on each: 6 foreach macros, 6 single-step functions from every node, tear-down from the root with the remainder logged after every step, "
                      "tear-down started at every node, tear-down interrupted after every k and restarted; non-trivial = shape with >= 3 nodes" % (Ns["avl"], Ns["rbt"]))
    return ck.finish(exhaustive=not ck.violations)
