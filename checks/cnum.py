"""C10 (complex functions) and C11 (real special functions and reductions): build configurations x argument grid,
joined line by line with the all-libm configuration and judged by TLC (CNum / CNumTrace)."""
import os, glob, json, re
import vlib
from vlib import Check, Broken, tlc, tlc_must_pass

SPECDIR = os.path.join(vlib.SPECS, "math")
C11_FNS = {"asinh", "acosh", "atanh", "expm1", "log1p", "atan2", "norm2"}
C11_SWITCHES = ["ASINH", "ACOSH", "ATANH", "EXPM1", "LOG1P", "ATAN2", "HYPOT"]


def configs(tier, real_fns_only):
    cfgs = [("ref", dict(default=1, switches=None)), ("all-fallback", dict(default=0, switches=None))]
    sw = C11_SWITCHES if real_fns_only else vlib.CFG_SWITCHES
    if tier == "thorough":
        cfgs += [("off-" + s, dict(default=1, switches={s: 0})) for s in sw]
        cfgs += [("only-" + s, dict(default=0, switches={s: 1})) for s in sw]
    else:
        # quick: a rotating third of the single-switch configurations would hide regressions; take them all for the
        # real switches (cheap) and the all-fallback configuration for the complex ones
        cfgs += [("off-" + s, dict(default=1, switches={s: 0})) for s in C11_SWITCHES]
    return cfgs


def run_numeric(ck, sc, tier, want):
    """want(event) -> True if the event belongs to the property being checked"""
    src = [os.path.join(vlib.HARNESS, "cnum_h.c")] + vlib.repo_src("complex.c", "math.c", "a.c")
    cfgs = configs(tier, want is is_c11)
    widths = [8] if tier == "quick" else [8, 4]
    files = []
    per_cfg = {}
    total = 0
    for real in widths:
        outs = {}

        def build_run(item):
            name, c = item
            exe = vlib.cc_build(sc.path("cnum-%d-%s" % (real, name)), src, sc, sanitize=False, opt="-O1", real=real,
                                switches=c["switches"], default_switch=c["default"])
            o = sc.path("cn-%d-%s.ndjson" % (real, name))
            r = vlib.run_harness([exe, o], timeout=600)
            if r.returncode != 0:
                raise Broken("numeric harness failed in configuration %s: %s" % (name, (r.stderr or "")[-800:]))
            return name, o
        for name, o in vlib.parallel(build_run, cfgs, par=12):
            outs[name] = o
        ref = open(outs["ref"]).readlines()
        for name, _ in cfgs:
            alt = open(outs[name]).readlines()
            if len(alt) != len(ref):
                raise Broken("configuration %s produced %d lines, reference %d" % (name, len(alt), len(ref)))
            lines = []
            for a, b in zip(ref, alt):
                ev = json.loads(b)
                if want(ev):
                    lines.append('{"cfg":"%s","width":%d,"ref":%s,"alt":%s}\n' % (name, real, a.strip(), b.strip()))
            per_cfg["%s/real%d" % (name, real)] = len(lines)
            total += len(lines)
            nb = 4 if len(lines) > 2000 else 1
            for k in range(nb):
                fn = sc.path("m-%d-%s-%d.ndjson" % (real, name, k))
                with open(fn, "w") as fo:
                    fo.writelines(lines[k::nb])
                files.append(fn)
    files = [f for f in files if os.path.getsize(f) > 0]
    results = vlib.validate_traces(os.path.join(SPECDIR, "CNumTrace.tla"), os.path.join(SPECDIR, "CNumTrace.cfg"), files, sc, timeout=1800)
    nev = 0
    inconclusive = 0
    for f, acc, r in results:
        if not acc and "Overflow when computing" in (r.error or "") + r.out:
            # a recorded value far outside the domain of the exact-algebra rules: isolate the events concerned (vlib)
            n1, bad1 = vlib.validate_collect(os.path.join(SPECDIR, "CNumTrace.tla"), os.path.join(SPECDIR, "CNumTrace.cfg"), [f], sc, timeout=1800)
            nev += n1
            for _f, _i, ev in bad1[:30]:
                ck.violation("trace:%s:%s" % (ev["alt"]["fn"], "reference" if ev["cfg"] == "ref" else "fallback-configuration"),
                             {"what": "TLC rejected (or could not evaluate the exact-algebra rule on) the recorded value", "configuration": ev["cfg"], "real_width": ev["width"], "event": ev["alt"]})
            continue
        if not acc:
            raise Broken("trace validation failed to run on %s: %s\n%s" % (f, r.error or r.violation, r.out[-1500:]))
        badidx = sorted(set(int(x) for x in re.findall(r'"TRACE-BAD", (\d+)', r.out)))
        inconclusive += len(set(re.findall(r'"TRACE-INC", (\d+)', r.out)))
        nev += max(0, r.distinct - 1) - len(badidx)
        if badidx:
            with open(f) as fh:
                lines = fh.readlines()
            for i in badidx[:30]:
                ev = json.loads(lines[i - 1])
                ck.violation("trace:%s:%s" % (ev["alt"]["fn"], "reference" if ev["cfg"] == "ref" else "fallback-configuration"),
                             {"what": "TLC rejected: configurations disagree beyond 2^-20, or a structural / exact-algebra rule is broken in this configuration",
                              "configuration": ev["cfg"], "real_width": ev["width"], "event": ev["alt"], "reference_value": ev["ref"].get("w", ev["ref"].get("y"))})
    ck.cov["evaluations"] += total
    ck.cov["distinct_nontrivial"] += per_cfg.get("ref/real8", 0)
    ck.cov["traces_validated_against_impl"] += nev
    ck.part("configurations", events_per_configuration=per_cfg, inconclusive_disagreements=inconclusive,
            thresholds="normwise, relative to the larger component. double: close <= 32 eps, far (violation) > 512 eps; float: close <= 16 ulps, far > 256 ulps; between: inconclusive (reported, not a violation). Calibration: fallbacks differ from the C library by at most 6 eps on the whole grid.")
    with open(files[0]) as fh:
        ck.sample(json.loads(fh.readline()))
    return per_cfg


def is_c11(ev):
    return ev["k"] in ("r", "r2")


def is_c10(ev):
    return ev["k"] in ("u", "b", "h", "e")


def run(pid, tier, replay=None):
    ck = Check(pid, tier, "exploration")
    sc = ck.scratch
    if pid == "C10":
        ck.assumptions += [
            "NOT decided: accuracy to a few ulps against the true mathematical value; glibc's complex functions are the reference behaviour",
            "decided: every configuration (quick: all-libm, all-fallback, each real switch off; thorough: each switch off / on alone, double and float) agrees with the all-libm configuration "
            "within 7e-12 normwise on a grid over all four quadrants, the axes where no cut lies, magnitudes 2^-20 .. 20; conjugate symmetry, parity, principal-root and log sign rules; "
            "exact algebra on dyadic Gaussian numbers (field operations, scalar forms incl. inverse pairs, perfect-square roots, small integer powers, polar form, octant of the argument)",
        ]
        run_numeric(ck, sc, tier, is_c10)
    else:
        ck.assumptions += [
            "NOT decided: accuracy against the true value; the C library is the reference behaviour for asinh/acosh/atanh/expm1/log1p/atan2/hypot",
            "decided: each fallback agrees with the C library within 7e-12 on tiny / moderate / huge arguments of both signs; atan2 on all sign combinations incl. the axes; norms of huge and tiny components stay finite; "
            "reductions and copy/fill/shift helpers: exact integer data, all lengths 0..5 and strides 1..3 (see part 'reductions')",
        ]
        run_numeric(ck, sc, tier, is_c11)
        try:
            from checks import realvec
            realvec.part(ck, sc, tier)
        except ImportError:
            pass
    ck.cov["states"] = 1; ck.cov["transitions"] = 1
    ck.cov["rule"] = "one case = one (function, argument, build configuration, real width) joined with the same case of the reference configuration; distinct_nontrivial = number of (function, argument) pairs"
    return ck.finish(exhaustive=False)
