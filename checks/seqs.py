"""C04: vector and fixed buffer as an indexable sequence (SeqAbs / Seq / SeqTrace)."""
import os, glob, json, re
import vlib
from vlib import Check, Broken, tlc, tlc_must_pass

SPECDIR = os.path.join(vlib.SPECS, "seq")
OPS = ["?", "push_back", "push_fore", "insert", "pull_back", "pull_fore", "remove", "store", "erase", "setn", "setm",
       "setz", "sort", "sort_fore", "sort_back", "push_sort", "search", "at", "of", "top", "create", "walk", "push", "pull"]
CASES = ["none", "spare-capacity-path", "exactly-full-path", "growth", "refused", "index-beyond-end", "empty"]


def configs(tier):
    short = dict(Vals="{10, 20, 21}", Lmax=4, Sizes="{1, 3, 8}", Idx="IdxShort", BufMems="{0, 1, 2, 3, 5}")
    long_ = dict(Vals="{0, 10}", Lmax=9, Sizes="{1}", Idx="IdxLong", BufMems="{9}", Blocks="BlocksLong")
    if tier == "thorough":
        short = dict(Vals="{10, 20, 21}", Lmax=5, Sizes="{1, 2, 3, 8, 24}", Idx="IdxShort", BufMems="{0, 1, 2, 3, 4, 5, 6}")
        long_ = dict(Vals="{0, 10, 11}", Lmax=9, Sizes="{1}", Idx="IdxLong", BufMems="{8, 9, 10}", Blocks="BlocksLong")
    out = []
    for kind in ("vec", "buf"):
        out.append((kind + "-short", dict(short, Kind=kind)))
        out.append((kind + "-long", dict(long_, Kind=kind)))
    return out


def write_mc_cfg(path, c):
    return vlib.write_cfg(path, [
        "CONSTANTS", ' Kind = "%s"' % c["Kind"], " Vals = %s" % c["Vals"], " Lmax = %d" % c["Lmax"], " Sizes = %s" % c["Sizes"],
        " Idx <- %s" % c["Idx"], " BufMems = %s" % c["BufMems"], " Blocks <- %s" % c.get("Blocks", "BlocksDef"),
        "INIT Init", "NEXT Next", "VIEW view", "INVARIANT Inv", "ACTION_CONSTRAINT Emit"])


def replay_with_resume(ck, exe, edges_file, prefix, nb, keyfn, max_crashes=40, timeout=3000):
    """Run the edge-replay harness; on a sanitizer abort record the violation and resume after the crashing edge."""
    skip = 0
    totals = None
    crashes = 0
    while True:
        r = vlib.run_harness([exe, "edges", edges_file, prefix, str(nb), str(skip)], timeout=timeout)
        for m in re.finditer(r"^MISMATCH (\{.*\})$", r.stdout or "", re.M):
            d = json.loads(m.group(1))
            ck.violation(keyfn(d, "mismatch"), d)
        m = re.search(r"^SUMMARY (\{.*\})$", r.stdout or "", re.M)
        if m:
            return json.loads(m.group(1)), crashes
        mc = re.search(r"^CRASH (\{.*\})$", r.stdout or "", re.M)
        if not mc:
            raise Broken("harness failed rc=%s: %s" % (r.returncode, (r.stderr or "")[-2000:]))
        d = json.loads(mc.group(1))
        san = re.findall(r"ERROR: AddressSanitizer: (\S+)|runtime error: ([^\n]*)", r.stderr or "")
        d["sanitizer"] = [a or b for a, b in san][:2]
        d["what"] = "sanitizer abort inside a library call while replaying a specification behaviour"
        if re.search(r"^HANG$", r.stdout or "", re.M):
            d["what"] = "a library call (or the walk of the structure it left) did not finish within 30 s while replaying a specification behaviour"
            d["hang"] = 1
        ck.violation(keyfn(d, "hang" if d.get("hang") else "crash"), d)
        crashes += 1
        hangs = getattr(replay_with_resume, "_hangs", {})
        if d.get("hang"):
            hangs[prefix] = hangs.get(prefix, 0) + 1
            replay_with_resume._hangs = hangs
            if hangs[prefix] >= 3:
                ck.notes.append("stopped after 3 hanging calls (30 s each); remaining edges of this configuration not replayed")
                return None, crashes
        skip = d["edge"]
        vlib.drop_partial_lines(glob.glob(prefix + "-*.ndjson"))
        if crashes >= max_crashes:
            ck.notes.append("stopped after %d crashes; remaining edges not replayed" % crashes)
            return None, crashes


def keyfn(d, how):
    return "%s:%s:%s:%s" % (how, d.get("kind"), d.get("op"), d.get("what") if how == "mismatch" else d.get("class"))


def run(pid, tier, replay=None):
    ck = Check(pid, tier, "model_checking")
    sc = ck.scratch
    exe = vlib.cc_build(sc.path("seq_h"), [os.path.join(vlib.HARNESS, "seq_h.c")] + vlib.repo_src("vec.c", "buf.c", "a.c"), sc)
    ck.assumptions += [
        "element values matter only through memcpy and the comparison callback: 2-3 (key,tag) values stand for arbitrary payloads of the tested element sizes",
        "each call is a deterministic function of (contents, num, mem, siz); pre-states are materialised in the public fields with an allocation of exactly mem*siz bytes",
        "store() is only called with a block of the stated length (a count of SIZE_MAX cannot be backed by caller memory); erase/remove/insert take every index class including SIZE_MAX-1 and SIZE_MAX",
        "slots exposed by a growing setn are unspecified; the harness fills them before comparing",
    ]
    files = []
    nb = 14
    exhaustive = True
    opcount = [0] * 24
    casecount = [0] * 8
    for name, c in configs(tier):
        cfg = write_mc_cfg(sc.path("SeqMC-%s.cfg" % name), c)
        out = sc.path("edges-%s.out" % name)
        res = tlc(os.path.join(SPECDIR, "SeqMC.tla"), cfg, sc, timeout=3000, heap="12g", capture_prefix="8888888", stdout_path=out)
        tlc_must_pass(res, "SeqMC " + name)
        ck.add_tlc(res, "model_" + name)
        summ, crashes = replay_with_resume(ck, exe, out, sc.path("g-" + name), nb, keyfn)
        if summ is None or crashes or summ["mismatch"]:
            exhaustive = False
        if summ:
            ck.cov["evaluations"] += summ["edges"]
            ck.cov["distinct_nontrivial"] += summ["nontrivial"]
            ck.cov["spec_drift"] += summ["drift"]
            if summ["drift"]:
                exhaustive = False
            ck.part("replay_" + name, edges=summ["edges"], native_mismatches=summ["mismatch"], capacity_policy_drift=summ["drift"], crashes=crashes, constants=c)
            opcount = [a + b for a, b in zip(opcount, summ["ops"])]
            casecount = [a + b for a, b in zip(casecount, summ["cases"])]
            if res.generated - res.init_states != summ["edges"]:
                raise Broken("emitted %d transitions but replayed %d (%s)" % (res.generated - res.init_states, summ["edges"], name))
        files += glob.glob(sc.path("g-%s-*.ndjson" % name))
    # long random histories on one live object (lengths up to ~250, several growth steps): each step judged by SeqTrace on its own
    rexe = exe
    nh, no = (16, 600) if tier == "quick" else (200, 1500)
    rr = vlib.run_harness([rexe, "random", str(ck.seed), str(nh), str(no), sc.path("rnd"), "14"], timeout=1800)
    mrr = re.search(r"^SUMMARY (\{.*\})$", rr.stdout or "", re.M)
    if rr.returncode != 0 or not mrr:
        if rr.returncode in (96, 97, 98, 99, -6, -11) or "Sanitizer" in (rr.stderr or ""):
            ck.violation("crash:seq:random-history", {"what": "sanitizer abort during a long random history", "stderr": (rr.stderr or "")[-1500:], "stdout": (rr.stdout or "")[-600:]})
        else:
            raise Broken("random-history run failed rc=%s: %s" % (rr.returncode, (rr.stderr or "")[-800:]))
    else:
        rfiles = vlib.drop_partial_lines(sorted(glob.glob(sc.path("rnd-*.ndjson"))))
        rn, rbad = vlib.validate_collect(os.path.join(SPECDIR, "SeqTrace.tla"), os.path.join(SPECDIR, "SeqTrace.cfg"), rfiles, sc)
        for f, idx, ev in rbad:
            ck.violation("trace:%s:%s:random-history" % ("vec" if ev.get("kind") == 1 else "buf", ev.get("op")),
                         {"what": "TLC rejected a step of a long random history", "event": {k: ev[k] for k in ev if k not in ("pre", "post")}, "pre_len": len(ev.get("pre", {}).get("seq", [])), "post_len": len(ev.get("post", {}).get("seq", []))})
        ck.cov["traces_validated_against_impl"] += rn
        ck.cov["evaluations"] += rn + len(rbad)
        ck.part("random_histories", histories=nh, steps_each=no, events_accepted=rn)
    ck.part("coverage_by_operation", **{OPS[i]: n for i, n in enumerate(opcount) if i and i < 24})
    ck.part("coverage_by_case", **{CASES[i]: n for i, n in enumerate(casecount) if i < len(CASES)})
    missing = [OPS[i] for i in range(1, 24) if opcount[i] == 0] + [CASES[i] for i in range(1, 7) if casecount[i] == 0]
    if missing and not ck.violations:      # (a crashed replay has its own violation; its counters are empty)
        raise Broken("vacuity: never exercised: %s" % missing)
    files = vlib.drop_partial_lines(sorted(files))
    spec = os.path.join(SPECDIR, "SeqTrace.tla"); cfgt = os.path.join(SPECDIR, "SeqTrace.cfg")
    nev, bad = vlib.validate_collect(spec, cfgt, files, sc)
    for f, idx, ev in bad:
        huge = ev["a1"] >= 999999 or ev["a2"] >= 999999
        key = "trace:%s:%s:%s" % ("vec" if ev["kind"] == 1 else "buf", ev["op"], "huge-index" if huge else "any")
        ck.violation(key, {"what": "TLC rejected the recorded call: the post-state / result is not what the abstract sequence allows", "event": ev})
    if bad:
        exhaustive = False
    ck.cov["traces_validated_against_impl"] += nev
    ck.part("trace_validation", batches=len(files), events_accepted=nev)
    for f in files[:1] + files[-1:]:
        with open(f) as fh:
            ck.sample(json.loads(fh.readline()))
    ck.cov["rule"] = ("every transition of the TLC state graphs of Seq (vector and buffer; short sequences over 3 (key,tag) values with several element sizes and "
                      "every capacity state reachable through setz/create; long sequences crossing the 8->16 growth boundary) x every operation x every index class "
                      "(in range, boundary, beyond, SIZE_MAX-1, SIZE_MAX); non-trivial = exactly-full path, growth, refusal, index beyond end or empty-container case")
    return ck.finish(exhaustive=exhaustive)
