"""C14: trapezoidal and bell-shaped velocity profiles (Traj / TrajMC / TrajTrace)."""
import os, glob, json, re
import vlib
from vlib import Check, Broken, tlc, tlc_must_pass

SPECDIR = os.path.join(vlib.SPECS, "traj")


def run(pid, tier, replay=None):
    ck = Check(pid, tier, "exploration")
    sc = ck.scratch
    q = tier == "quick"
    ck.assumptions += [
        "relational judgement on fixed-point observations (2^-16, tolerance 3.7e-4): limits and continuity are checked at the sampled instants "
        "(24-point grid, every phase boundary and 2^-8 either side of it, before the start, after the end) and, through the Lipschitz form, between consecutive samples; not for every real instant",
        "requests are integers: all limits / distances / boundary velocities from small sets, both directions; trapezoid start velocity also against the direction of travel",
        "requests for which the generator reports duration 0 carry no claim",
        "besides the enumerated requests, seeded random feasible integer requests from much wider ranges (limits to 20, distances to 300): 3000 quick, 60000 thorough",
    ]
    consts = ["CONSTANTS VM = %s" % ("{1, 2, 3}" if q else "{1, 2, 3, 5, 8, 13}"), " AC = %s" % ("{1, 2}" if q else "{1, 2, 4, 7}"), " DE = %s" % ("{1, 3}" if q else "{1, 2, 3, 5}"),
              " DIST = %s" % ("{1, 2, 5, 9}" if q else "{1, 2, 3, 4, 5, 7, 9, 20, 50, 100}"), " VB = %s" % ("{0, 1, 2}" if q else "{0, 1, 2, 3, 5}"),
              " JM = %s" % ("{1, 3}" if q else "{1, 2, 3, 8}"), " AM = %s" % ("{1, 2}" if q else "{1, 2, 3, 5}")]
    cfg = vlib.write_cfg(sc.path("traj.cfg"), consts + ["INIT Init", "NEXT Next", "ACTION_CONSTRAINT Emit", "CHECK_DEADLOCK FALSE"])
    out = sc.path("traj.out")
    res = tlc(os.path.join(SPECDIR, "TrajMC.tla"), cfg, sc, timeout=1800, heap="8g", capture_prefix="10[12]0[12]0[12]", stdout_path=out, workers=8)
    tlc_must_pass(res, "TrajMC")
    exe = vlib.cc_build(sc.path("traj_h"), [os.path.join(vlib.HARNESS, "traj_h.c")] + vlib.repo_src("trajtrap.c", "trajbell.c", "math.c", "a.c"), sc)
    r = vlib.run_harness([exe, out, sc.path("g"), "14", "3000" if q else "60000", str(ck.seed)], timeout=1800)
    m = re.search(r"^SUMMARY (\{.*\})$", r.stdout or "", re.M)
    if r.returncode != 0 or not m:
        mh = re.search(r"^HANG (\{.*\})$", r.stdout or "", re.M)
        if r.returncode == 96 and mh:
            ck.violation("hang:planner", {"what": "a planner call did not return within 20 s", "request": mh.group(1)[:300]})
            return ck.finish()
        if r.returncode in (96, 97, 98, 99, -6, -11) or "Sanitizer" in (r.stderr or ""):
            ck.violation("crash", {"what": "sanitizer abort in the trajectory routines", "stderr": (r.stderr or "")[-1500:]})
            return ck.finish()
        raise Broken("harness failed rc=%s: %s" % (r.returncode, (r.stderr or "")[-1500:]))
    summ = json.loads(m.group(1))
    ck.part("requests", tlc_generated=res.generated, **summ)
    # which planning branches the implementation took is an outcome of the code under test: a planner that declines a class of
    # feasible requests (duration 0) makes no claim about them, so an empty branch is recorded, not an error of the check
    not_taken = [k for k in ("trap_cruise", "trap_accel_only", "trap_decel_only", "trap_accel_decel", "bell_cruise", "bell_no_cruise") if summ[k] == 0]
    if not_taken:
        ck.cov["planning_branches_never_taken"] = not_taken
        vlib.log("NOTE property=%s: planning branches never taken by the implementation on the generated requests: %s" % (pid, ", ".join(not_taken)))
    if res.generated < 100 or summ["events"] < 100:
        raise Broken("vacuity: only %d requests generated / %d run" % (res.generated, summ["events"]))
    files = sorted(glob.glob(sc.path("g-*.ndjson")))
    nev, bad = vlib.validate_collect(os.path.join(SPECDIR, "TrajTrace.tla"), os.path.join(SPECDIR, "TrajTrace.cfg"), files, sc, timeout=3000)
    for f, idx, ev in bad:
        ev2 = {k: ev[k] for k in ev if k != "samples"}
        ev2["samples_head"] = ev.get("samples", [])[:4]
        ck.violation("trace:%s" % ev.get("f"), {"what": "TLC rejected the planned motion: limit, continuity, boundary state or duration relation violated", "event": ev2})
    ck.cov["evaluations"] = summ["events"]
    ck.cov["distinct_nontrivial"] = summ["trap_planned"] + summ["bell_planned"]
    ck.cov["traces_validated_against_impl"] = nev
    ck.cov["states"] = res.distinct
    ck.cov["transitions"] = res.generated
    with open(files[0]) as fh:
        e = json.loads(fh.readline()); e["samples"] = e.get("samples", [])[:3]
        ck.sample(e)
    ck.cov["rule"] = "one case = one feasible integer request (limits, distance, boundary velocities, direction) enumerated by TLC; non-trivial = requests for which a positive duration is planned (all four trapezoid branches and both bell variants must occur)"
    # the C++ member functions of the same structures must behave like the C functions (Facade.tla)
    from checks import facade
    facade.part(ck, sc, ['trajtrap', 'trajbell'])
    ck.assumptions.append('C++ member functions of a_trajtrap, a_trajbell: each compared with the C function it stands for on identically prepared objects with pairwise distinct arguments (object bytes, result, written arrays)')
    return ck.finish(exhaustive=False)
