"""Reductions / array helpers / coordinate conversions (second half of C11): RealVec.tla."""
import os, json, re
import vlib
from vlib import Broken

SPECDIR = os.path.join(vlib.SPECS, "math")


def part(ck, sc, tier):
    src = [os.path.join(vlib.HARNESS, "rvec_h.c")] + vlib.repo_src("math.c", "a.c")
    files = []
    total = 0
    cfgs = [("libm", 8, 1), ("fallback", 8, 0)] + ([("libm-float", 4, 1), ("fallback-float", 4, 0)] if tier == "thorough" else [])
    for name, real, dflt in cfgs:
        exe = vlib.cc_build(sc.path("rvec-" + name), src, sc, real=real, default_switch=dflt)
        o = sc.path("rv-%s.ndjson" % name)
        r = vlib.run_harness([exe, o], timeout=600)
        m = re.search(r"^SUMMARY (\{.*\})$", r.stdout or "", re.M)
        if r.returncode != 0 or not m:
            if r.returncode in (96, 97, 98, 99, -6, -11) or "Sanitizer" in (r.stderr or ""):
                ck.violation("crash:reductions", {"what": "sanitizer abort in the reductions / array helpers", "stderr": (r.stderr or "")[-1200:]})
                continue
            raise Broken("rvec harness failed (%s): %s" % (name, (r.stderr or "")[-800:]))
        total += json.loads(m.group(1))["events"]
        files.append(o)
    nev, bad = vlib.validate_collect(os.path.join(SPECDIR, "RealVec.tla"), os.path.join(SPECDIR, "RealVec.cfg"), files, sc)
    for f, idx, ev in bad:
        ck.violation("trace:%s" % ev.get("f"), {"what": "TLC rejected: a reduction / helper / conversion differs from its defining formula", "configuration": os.path.basename(f), "event": ev})
    ck.part("reductions", events=total, configurations=[c[0] for c in cfgs])
    ck.cov["evaluations"] += total
    ck.cov["distinct_nontrivial"] += total
    ck.cov["traces_validated_against_impl"] += nev
