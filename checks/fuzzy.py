"""C13: membership functions, fuzzy operators, gain scheduling (Fuzzy / FuzzyMC / FuzzyTrace)."""
import json
import vlib
from vlib import Check, Broken
from checks import pidfuzzy


def run(pid, tier, replay=None):
    ck = Check(pid, tier, "model_checking")
    sc = ck.scratch
    ck.assumptions += [
        "piecewise-linear families (tri, trap, lins, linz): all ordered parameter tuples over a small integer grid including zero-width shoulders, x in quarters; "
        "spline families (s, z, pi) with non-zero flank widths (they are smooth families in the sense of the property's quantifier); values compared exactly when dyadic, else within 2^-13",
        "smooth families (gauss, gauss2, gbell, sig, dsig, psig) and the irrational operator: relational facts on order-coded doubles over a 41-point grid (range, monotone flanks, exact core values, dispatcher = specific function)",
        "gain scheduling: rule base of order 3 with triangular sets and integer consequents, all seven operators, three modes; scratch buffer of A_PID_FUZZY_BFUZZ(2) bytes between canaries",
        "membership tables: each of the 13 kinds of set as first entry of the e-table (the next kind in the ec-table) followed by two triangles, steep parameters and inputs where every membership is an exact dyadic; expected gains computed from the memberships a_mf reports per entry; buffer of A_PID_FUZZY_BFUZZ(3)",
    ]
    summ, bad, files = pidfuzzy.run_fuzzy(ck, sc, tier)
    if summ is None:
        for k, d in bad:
            ck.violation("crash:fuzzy", d)
        return ck.finish()
    n = 0
    for f, idx, ev in bad:
        fam = ev.get("f")
        if fam in ("mf", "opr", "sweep"):
            ck.violation("trace:%s:%s" % (fam, ev.get("kind", "")), {"what": "TLC rejected the recorded value: range / shape / core / complement / dispatcher / operator law", "event": ev})
            n += 1
        elif fam in ("fpid", "fpidk"):
            # gain scheduling and scratch buffer belong to C13 as well
            ck.violation("trace:%s:opr%s" % (fam, ev.get("opr")), {"what": "TLC rejected the fuzzy controller run: scheduled gains not base + weighted mean of the firing rules' consequents, or buffer overrun", "event": ev})
            n += 1
        elif fam not in ("npid", "npidx", "npidl"):
            raise Broken("rejected event of an unknown family %r" % fam)
    ck.part("recorded", **summ)
    ck.part("rejected", count=n)
    ck.cov["evaluations"] = summ["events"]
    ck.cov["distinct_nontrivial"] = summ["mf"] + summ["opr"]
    ck.cov["traces_validated_against_impl"] = summ["events"] - len(bad)
    if files:
        with open(files[0]) as fh:
            ck.sample(json.loads(fh.readline()))
    ck.cov["rule"] = "one case = one (family, ordered parameter tuple, x), one operator pair on the grid of eighths, one smooth-family sweep, or one controller scenario; non-trivial = membership and operator cases"
    return ck.finish(exhaustive=False)
