"""C16: transfer function and RC filters (Filters / FiltersMC / FiltersTrace)."""
import os, glob, json, re
import vlib
from vlib import Check, Broken, tlc, tlc_must_pass

SPECDIR = os.path.join(vlib.SPECS, "ctrl")


def run(pid, tier, replay=None):
    ck = Check(pid, tier, "model_checking")
    sc = ck.scratch
    q = tier == "quick"
    ck.assumptions += [
        "coefficients and inputs are small integers (alpha = k/8 for the RC filters), so every intermediate value is an exact integer/dyadic rational in double arithmetic and equality is demanded",
        "coefficient generators: alpha = f(fc, ts) judged on order-preserving codes of the doubles for fc*ts = 10^e, e = -20..20 (strict interior required for |e| <= 12)",
    ]
    consts = ["CONSTANTS Coefs <- %s" % ("CoefsQ" if q else "CoefsT"), " Inputs <- %s" % ("InputsQ" if q else "InputsT"),
              " MaxOrder = %d" % 2, " HistLen = %d" % (4 if q else 5), " Alphas = {0, 1, 3, 4, 7, 8}"]
    cfg = vlib.write_cfg(sc.path("filt.cfg"), consts + ["INIT Init", "NEXT Next", "INVARIANT Inv", "INVARIANT FiltInv", "ACTION_CONSTRAINT Emit", "CHECK_DEADLOCK FALSE"])
    out = sc.path("filt.out")
    res = tlc(os.path.join(SPECDIR, "FiltersMC.tla"), cfg, sc, timeout=2400, heap="12g", capture_prefix="9090909", stdout_path=out)
    tlc_must_pass(res, "FiltersMC")
    ck.add_tlc(res, "design_delay_lines_realise_definition_LTI")
    exe = vlib.cc_build(sc.path("filt_h"), [os.path.join(vlib.HARNESS, "filt_h.c")] + vlib.repo_src("tf.c", "math.c", "a.c"), sc)
    r = vlib.run_harness([exe, out, sc.path("g"), "14"], timeout=1800)
    m = re.search(r"^SUMMARY (\{.*\})$", r.stdout or "", re.M)
    if r.returncode != 0 or not m:
        if r.returncode in (97, 98, 99, -6, -11):
            ck.violation("crash", {"what": "sanitizer abort in the filter routines", "stderr": (r.stderr or "")[-1500:]})
            return ck.finish()
        raise Broken("harness failed rc=%s: %s" % (r.returncode, (r.stderr or "")[-1500:]))
    summ = json.loads(m.group(1))
    ck.part("replay", **summ)
    if summ["mismatch"]:
        ck.violation("replay:tf", {"what": "outputs of a_tf_iter differ from the specification's outputs for some emitted history", "count": summ["mismatch"]})
    files = sorted(glob.glob(sc.path("g-*.ndjson")))
    nev, bad = vlib.validate_collect(os.path.join(SPECDIR, "FiltersTrace.tla"), os.path.join(SPECDIR, "FiltersTrace.cfg"), files, sc)
    for f, idx, ev in bad:
        ck.violation("trace:%s" % ev.get("f"), {"what": "TLC rejected the recorded filter behaviour", "event": ev})
    ck.cov["traces_validated_against_impl"] = nev
    ck.cov["evaluations"] = summ["events"]
    ck.cov["distinct_nontrivial"] = summ["tf_cases"]
    with open(files[0]) as fh:
        ck.sample(json.loads(fh.readline()))
    ck.cov["rule"] = ("one case = one (numerator, denominator, input history) of the TLC enumeration (orders 0..2, coefficients and inputs from small integer sets, history length %d), "
                      "run on the real a_tf from zero state, again after zeroing, with the input delayed and scaled; the RC filters for alpha = k/8 on every history" % (4 if q else 5))
    return ck.finish(exhaustive=not ck.violations)
