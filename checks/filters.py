"""C16: transfer function and RC filters (Filters / FiltersMC / FiltersTrace)."""
import os, glob, json, re
import vlib
from vlib import Check, Broken, tlc, tlc_must_pass

SPECDIR = os.path.join(vlib.SPECS, "ctrl")


def run(pid, tier, replay=None):
    ck = Check(pid, tier, "model_checking")
    sc = ck.scratch
    q = tier == "quick"
    ck.assumptions += [
        "coefficients and inputs are small integers (alpha = k/8 for the RC filters), so every intermediate value is an exact integer/dyadic rational in double arithmetic and equality is demanded",
        "coefficient generators: alpha = f(fc, ts) judged on order-preserving codes of the doubles for fc*ts = 10^e, e = -20..20 (strict interior required for |e| <= 12)",
    ]
    # (coefficient set, input set, highest order, history length): thorough = wider sets at order <= 2, and order 3 over the quick sets
    runs = [("CoefsQ", "InputsQ", 2, 4, "Init"), ("CoefsQ", "InputsBig", 17, 7 if q else 10, "InitBig")] if q else \
           [("CoefsT", "InputsT", 2, 4, "Init"), ("CoefsQ", "InputsQ", 3, 5, "Init"), ("CoefsQ", "InputsBig", 17, 8, "InitBig")]
    out = sc.path("filt.out")
    open(out, "w").close()

    def one(item):
        i, (cs, ins, mo, hl, init) = item
        consts = ["CONSTANTS Coefs <- %s" % cs, " Inputs <- %s" % ins, " MaxOrder = %d" % mo, " HistLen = %d" % hl, " Alphas = {0, 1, 3, 4, 7, 8}"]
        cfg = vlib.write_cfg(sc.path("filt%d.cfg" % i), consts + ["INIT %s" % init, "NEXT Next", "INVARIANT Inv", "INVARIANT FiltInv", "ACTION_CONSTRAINT Emit", "CHECK_DEADLOCK FALSE"])
        o = sc.path("filt%d.out" % i)
        res = tlc(os.path.join(SPECDIR, "FiltersMC.tla"), cfg, sc, timeout=3000, heap="12g", capture_prefix="9090909", stdout_path=o, workers=8, tag="r%d" % i)
        tlc_must_pass(res, "FiltersMC run %d" % i)
        return res, o
    for res, o in vlib.parallel(one, list(enumerate(runs)), par=2):
        ck.add_tlc(res, "design_delay_lines_realise_definition_LTI")
        with open(out, "a") as fo, open(o) as fi:
            for line in fi:
                fo.write(line)
        os.remove(o)
    exe = vlib.cc_build(sc.path("filt_h"), [os.path.join(vlib.HARNESS, "filt_h.c")] + vlib.repo_src("tf.c", "math.c", "a.c"), sc)
    r = vlib.run_harness([exe, out, sc.path("g"), "14"], timeout=1800)
    m = re.search(r"^SUMMARY (\{.*\})$", r.stdout or "", re.M)
    if r.returncode != 0 or not m:
        if r.returncode in (96, 97, 98, 99, -6, -11):
            ck.violation("crash", {"what": "sanitizer abort in the filter routines", "stderr": (r.stderr or "")[-1500:]})
            return ck.finish()
        raise Broken("harness failed rc=%s: %s" % (r.returncode, (r.stderr or "")[-1500:]))
    summ = json.loads(m.group(1))
    ck.part("replay", **summ)
    if summ["mismatch"]:
        ck.violation("replay:tf", {"what": "outputs of a_tf_iter differ from the specification's outputs for some emitted history", "count": summ["mismatch"]})
    files = sorted(glob.glob(sc.path("g-*.ndjson")))
    nev, bad = vlib.validate_collect(os.path.join(SPECDIR, "FiltersTrace.tla"), os.path.join(SPECDIR, "FiltersTrace.cfg"), files, sc)
    for f, idx, ev in bad:
        ck.violation("trace:%s" % ev.get("f"), {"what": "TLC rejected the recorded filter behaviour", "event": ev})
    ck.cov["traces_validated_against_impl"] = nev
    ck.cov["evaluations"] = summ["events"]
    ck.cov["distinct_nontrivial"] = summ["tf_cases"]
    with open(files[0]) as fh:
        ck.sample(json.loads(fh.readline()))
    ck.cov["rule"] = ("one case = one (numerator, denominator, input history) of the TLC enumeration (%s), "
                      "run on the real a_tf from zero state, again after zeroing, with the input delayed and scaled; the RC filters for alpha = k/8 on every history" % ("orders 0..2, 3 coefficient and 3 input values, history length 4" if q else "orders 0..2 over 5 coefficient and 5 input values with history length 4; orders 0..3 over 3 values with history length 5"))
    # the C++ member functions of the same structures must behave like the C functions (Facade.tla)
    from checks import facade
    facade.part(ck, sc, ['tf', 'lpf', 'hpf'])
    ck.assumptions.append('C++ member functions of a_tf, a_lpf, a_hpf: each compared with the C function it stands for on identically prepared objects with pairwise distinct arguments (object bytes, result, written arrays)')
    return ck.finish(exhaustive=not ck.violations)
