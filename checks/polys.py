"""C15: polynomial evaluation and polynomial trajectories (Poly / PolyMC / PolyTrace)."""
import os, glob, json, re
import vlib
from vlib import Check, Broken, tlc, tlc_must_pass

SPECDIR = os.path.join(vlib.SPECS, "traj")


def run(pid, tier, replay=None):
    ck = Check(pid, tier, "model_checking")
    sc = ck.scratch
    q = tier == "quick"
    ck.assumptions += [
        "durations are powers of two (1/2..2 quick, 1/4..8 thorough) and boundary data small integers with even accelerations and jerks that are multiples of 6, "
        "so that every coefficient and every sampled value is an exactly representable dyadic rational: equality is demanded",
        "the rounding behaviour for general (non-dyadic) durations and data - 'rounding error proportional to the size of the boundary data' - is a floating-point question a TLA+ model cannot decide",
    ]
    consts = ["CONSTANTS Durations <- %s" % ("DursQ" if q else "DursT"), " PV <- %s" % ("PVq" if q else "PVt"), " DV <- %s" % ("DVq" if q else "DVt"),
              " CoefVals <- %s" % ("CoefQ" if q else "CoefT"), " MaxLen = %d" % (5 if q else 6), " XVals <- %s" % ("Xq" if q else "Xt"), " Degrees = {3, 5, 7}"]
    cfg = vlib.write_cfg(sc.path("poly.cfg"), consts + ["INIT Init", "NEXT Next", "ACTION_CONSTRAINT Emit", "CHECK_DEADLOCK FALSE"])
    out = sc.path("poly.out")
    res = tlc(os.path.join(SPECDIR, "PolyMC.tla"), cfg, sc, timeout=2400, heap="8g", stdout_path=out, capture_prefix="0706050")
    tlc_must_pass(res, "PolyMC")
    ck.add_tlc(res, "enumeration")
    exe = vlib.cc_build(sc.path("poly_h"), [os.path.join(vlib.HARNESS, "poly_h.c")] + vlib.repo_src("poly.c", "trajpoly3.c", "trajpoly5.c", "trajpoly7.c", "math.c", "a.c"), sc)
    r = vlib.run_harness([exe, out, sc.path("g"), "14"], timeout=1800)
    m = re.search(r"^SUMMARY (\{.*\})$", r.stdout or "", re.M)
    if r.returncode != 0 or not m:
        if r.returncode in (96, 97, 98, 99, -6, -11):
            ck.violation("crash", {"what": "sanitizer abort in the polynomial routines", "stderr": (r.stderr or "")[-1500:]})
            return ck.finish()
        raise Broken("harness failed rc=%s: %s" % (r.returncode, (r.stderr or "")[-1500:]))
    summ = json.loads(m.group(1))
    ck.part("replay", **summ)
    if summ["traj"] == 0 or summ["poly"] == 0:
        raise Broken("vacuity: no trajectory or polynomial case generated")
    files = sorted(glob.glob(sc.path("g-*.ndjson")))
    nev, bad = vlib.validate_collect(os.path.join(SPECDIR, "PolyTrace.tla"), os.path.join(SPECDIR, "PolyTrace.cfg"), files, sc)
    for f, idx, ev in bad:
        key = "trace:%s%s" % (ev.get("f"), ev.get("deg", ""))
        ck.violation(key, {"what": "TLC rejected: boundary condition / derivative consistency / Horner value not met exactly", "event": ev})
    ck.cov["traces_validated_against_impl"] = nev
    ck.cov["evaluations"] = summ["events"]
    ck.cov["distinct_nontrivial"] = summ["traj"] + summ["poly"]
    with open(files[0]) as fh:
        ck.sample(json.loads(fh.readline()))
    ck.cov["rule"] = "one case = one (degree, duration, boundary data with non-zero derivatives) or one (coefficient vector of length 0..5(6), evaluation point); every case is non-trivial"
    # precision of the evaluation in each of the three element types (float, double, long double)
    xfiles = []
    for real in (4, 8, 16):
        xexe = vlib.cc_build(sc.path("polyx_%d" % real), [os.path.join(vlib.HARNESS, "polyx_h.c")] + vlib.repo_src("poly.c", "trajpoly3.c", "trajpoly5.c", "trajpoly7.c", "a.c"), sc, real=real, opt="-O1")
        xo = sc.path("px-%d.ndjson" % real)
        rx = vlib.run_harness([xexe, xo], timeout=300)
        if rx.returncode != 0:
            if rx.returncode in (96, 97, 98, 99, -6, -11):
                ck.violation("crash:polyx", {"what": "sanitizer abort in the polynomial routines (real width %d)" % real, "stderr": (rx.stderr or "")[-1200:]})
                continue
            raise Broken("polyx harness failed (width %d): %s" % (real, (rx.stderr or "")[-800:]))
        xfiles.append(xo)
    nx, xbad = vlib.validate_collect(os.path.join(SPECDIR, "PolyTrace.tla"), os.path.join(SPECDIR, "PolyTrace.cfg"), xfiles, sc)
    for f_, idx, ev in xbad:
        ck.violation("trace:%s:width%s" % (ev.get("f"), ev.get("width")), {"what": "evaluation is not the Horner value in the element type: the part of the result below 2^-K is lost or wrong", "event": ev})
    ck.cov["traces_validated_against_impl"] += nx
    ck.cov["evaluations"] += nx + len(xbad)
    ck.part("precision_in_element_type", widths=[4, 8, 16], events=nx + len(xbad), rejected=len(xbad))
    ck.assumptions.append("precision part: coefficients A + m*2^-K with K = 16 / 45 / 56 for float / double / long double, integer evaluation points: every intermediate exactly representable in the element type, exact expectation H + M*2^-K")
    # the C++ member functions of the same structures must behave like the C functions (Facade.tla)
    from checks import facade
    facade.part(ck, sc, ['trajpoly3', 'trajpoly5', 'trajpoly7'])
    ck.assumptions.append('C++ member functions of a_trajpoly3/5/7: each compared with the C function it stands for on identically prepared objects with pairwise distinct arguments (object bytes, result, written arrays)')
    return ck.finish(exhaustive=not ck.violations)
