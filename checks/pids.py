"""C12: PID controllers (Pid / PidMC / PidTrace; Apalache one-step action invariant; fuzzy and neuro parts in PidFuzzy)."""
import os, glob, json, re, subprocess, time
import vlib
from vlib import Check, Broken, tlc, tlc_must_pass

SPECDIR = os.path.join(vlib.SPECS, "ctrl")


def apalache_step(ck, sc):
    """Unbounded one-step claim: from ANY integer state and any integer inputs/gains satisfying the side conditions,
    one positional step keeps the output in its limits and never moves the integrator further beyond a clamp."""
    spec = os.path.join(SPECDIR, "PidInd.tla")
    outdir = sc.sub("apalache")
    cmd = ["apalache-mc", "check", "--cinit=ConstInit", "--init=InitAny", "--inv=ActInv", "--length=1", "--out-dir=" + outdir, spec]
    t0 = time.time()
    try:
        p = subprocess.run(cmd, stdout=subprocess.PIPE, stderr=subprocess.STDOUT, text=True, timeout=300, cwd=outdir)
    except subprocess.TimeoutExpired:
        ck.part("apalache_one_step", result="timeout (the TLC bound still stands)")
        return
    ok = "The outcome is: NoError" in p.stdout
    ck.part("apalache_one_step", result="NoError" if ok else "not proved", wall_s=round(time.time() - t0, 1),
            claim="ActInv: outmin <= out' <= outmax, sum >= summax => sum' <= sum, sum <= summin => sum' >= sum; from any state, unbounded integers")
    if not ok:
        if "The outcome is: Error" in p.stdout:
            raise Broken("Apalache found a counter-example to the one-step action invariant of the model:\n" + p.stdout[-1500:])
        ck.notes.append("apalache did not finish: " + p.stdout[-300:])


def run(pid, tier, replay=None):
    ck = Check(pid, tier, "model_checking")
    sc = ck.scratch
    q = tier == "quick"
    ck.assumptions += [
        "gains, limits, set-points and feedback are integers: every operation of the controllers is then exact in double arithmetic and equality of all state fields is demanded",
        "side conditions of the property: ki >= 0, summin <= 0 <= summax, outmin <= outmax, magnitudes far from overflow",
    ]
    consts = ["CONSTANTS ParamSets <- %s" % ("ParamsQ" if q else "ParamsT"), " InVals <- %s" % ("InQ" if q else "InT"), " MaxSteps = %d" % (4 if q else 4)]
    cfg = vlib.write_cfg(sc.path("pid.cfg"), consts + ["INIT Init", "NEXT Next", "VIEW view", "INVARIANT Inv", "ACTION_CONSTRAINT Emit", "CHECK_DEADLOCK FALSE"])
    out = sc.path("pid.out")
    res = tlc(os.path.join(SPECDIR, "PidMC.tla"), cfg, sc, timeout=2400, heap="12g", capture_prefix="5050505", stdout_path=out)
    tlc_must_pass(res, "PidMC")
    ck.add_tlc(res, "plain_pid_model")
    ck.part("plain_pid_model", invariants=["OutInLimits", "IntegratorBounded", "PosEqualsInc (two shadow controllers in lock-step)", "ZeroIsFresh"])
    apalache_step(ck, sc)
    exe = vlib.cc_build(sc.path("pid_h"), [os.path.join(vlib.HARNESS, "pid_h.c")] + vlib.repo_src("pid.c", "a.c"), sc)
    r = vlib.run_harness([exe, out, sc.path("g"), "14", str(ck.seed), "30" if q else "300", "1" if q else "16"], timeout=1800)
    m = re.search(r"^SUMMARY (\{.*\})$", r.stdout or "", re.M)
    if r.returncode != 0 or not m:
        raise Broken("harness failed rc=%s: %s" % (r.returncode, (r.stderr or "")[-1500:]))
    summ = json.loads(m.group(1))
    for mm in re.finditer(r"^MISMATCH (\{.*\})$", r.stdout or "", re.M):
        d = json.loads(mm.group(1))
        ck.violation("replay:pid:%s" % d["op"], dict(d, what="state after the real call differs from the model's"))
    if res.generated - res.init_states != summ["edges"]:
        raise Broken("emitted %d transitions, replayed %d" % (res.generated - res.init_states, summ["edges"]))
    ck.part("replay_plain_pid", trace_validated_share="all edges" if q else "every 16th edge (all edges are compared natively with the model's successor state) and all random histories", **summ)
    files = sorted(glob.glob(sc.path("g-*.ndjson")))
    nev, bad = vlib.validate_collect(os.path.join(SPECDIR, "PidTrace.tla"), os.path.join(SPECDIR, "PidTrace.cfg"), files, sc)
    for f, idx, ev in bad:
        ck.violation("trace:pid:%s" % ev.get("op"), {"what": "TLC rejected the recorded controller step", "event": ev})
    ck.cov["traces_validated_against_impl"] += nev
    ck.cov["evaluations"] += max(summ["events"], summ["edges"])      # every edge is executed and compared natively
    ck.cov["distinct_nontrivial"] += summ["edges"]
    with open(files[0]) as fh:
        ck.sample(json.loads(fh.readline()))
    # fuzzy-tuned and single-neuron controllers
    try:
        from checks import pidfuzzy
    except ImportError:
        pidfuzzy = None
    if pidfuzzy:
        pidfuzzy.part_c12(ck, sc, tier)
    ck.cov["rule"] = ("one case = one transition (controller state, operation run/pos/inc/zero, set-point, feedback) of the TLC state graph for each parameter set "
                      "(with and without active output/integrator limits), replayed on the real a_pid with all five state fields compared; plus seeded 200-step integer histories; "
                      "fuzzy/neuro controllers: see parts")
    # the C++ member functions of the same structures must behave like the C functions (Facade.tla)
    from checks import facade
    facade.part(ck, sc, ['pid', 'pid_neuro', 'pid_fuzzy'])
    ck.assumptions.append('C++ member functions of a_pid, a_pid_neuro, a_pid_fuzzy: each compared with the C function it stands for on identically prepared objects with pairwise distinct arguments (object bytes, result, written arrays)')
    return ck.finish(exhaustive=not ck.violations)
