"""C08: LU / LDL^T / Cholesky (Plu design model, Factor / FactorMC / FactorTrace)."""
import os, glob, json, re
import vlib
from vlib import Check, Broken, tlc, tlc_must_pass

SPECDIR = os.path.join(vlib.SPECS, "linalg")


def run(pid, tier, replay=None):
    ck = Check(pid, tier, "model_checking")
    sc = ck.scratch
    q = tier == "quick"
    ck.assumptions += [
        "decided on the exact domain only: inputs built from dyadic factors (multipliers 0 or +-1/2, pivots +-2^k) so that every floating-point intermediate is exact and equality can be demanded; "
        "the componentwise rounding bound for general, badly scaled or ill-conditioned real matrices is NOT decided (TLA+ has no floating-point semantics)",
        "exactly singular / not positive definite inputs: zero pivot at every position, zero column, duplicated rows, Cholesky pivot 0 or -1 at every position",
        "log-determinant: recorded as lndet/ln2 and compared with log2|det| where |det| is a power of two",
    ]
    # design level: elimination with partial pivoting over exact rationals, all 3x3 matrices over a small alphabet
    cfg = vlib.write_cfg(sc.path("plu.cfg"), ["CONSTANTS n = 3", " Vals <- %s" % ("ValsQ" if q else "ValsT"), "INIT Init", "NEXT Next", "INVARIANT Inv", "CHECK_DEADLOCK FALSE"])
    res = tlc(os.path.join(SPECDIR, "PluMC.tla"), cfg, sc, timeout=2400, heap="12g")
    tlc_must_pass(res, "Plu design model")
    ck.add_tlc(res, "plu_design_all_3x3")
    ck.part("plu_design_all_3x3", invariants=["Recon (P*A = L*U)", "MultBound", "Perm", "SignIsParity", "DetOK (Leibniz)", "FailIffSingular"])
    cfg2 = vlib.write_cfg(sc.path("fac.cfg"), ["CONSTANTS NSet = %s" % ("{2, 3}" if q else "{2, 3, 4}"), " NPlu = {2, 3}", " LNum <- %s" % ("Lq" if q else "Lt"), " DNum <- %s" % ("Dq" if q else "Dt"),
                                                " ONum <- %s" % ("Oq" if q else "Ot"), "INIT Init", "NEXT Next", "ACTION_CONSTRAINT Emit", "CHECK_DEADLOCK FALSE"])
    out = sc.path("fac.out")
    res2 = tlc(os.path.join(SPECDIR, "FactorMC.tla"), cfg2, sc, timeout=3000, heap="12g", capture_prefix="2020202", stdout_path=out)
    tlc_must_pass(res2, "FactorMC")
    ck.add_tlc(res2, "constructed_inputs")
    exe = vlib.cc_build(sc.path("fact_h"), [os.path.join(vlib.HARNESS, "fact_h.c")] +
                        vlib.repo_src("linalg.c", "linalg_plu.c", "linalg_ldl.c", "linalg_llt.c", "math.c", "a.c"), sc)
    r = vlib.run_harness([exe, out, sc.path("g"), "14"], timeout=1800)
    m = re.search(r"^SUMMARY (\{.*\})$", r.stdout or "", re.M)
    if r.returncode != 0 or not m:
        if r.returncode in (96, 97, 98, 99, -6, -11) or "Sanitizer" in (r.stderr or ""):
            ck.violation("crash", {"what": "sanitizer abort in the factorization routines", "stderr": (r.stderr or "")[-1500:]})
            return ck.finish()
        raise Broken("harness failed rc=%s: %s" % (r.returncode, (r.stderr or "")[-1500:]))
    summ = json.loads(m.group(1))
    ck.part("recorded", **summ)
    for k in ("plu", "plu_singular", "ldl", "ldl_singular", "llt", "llt_not_pd"):
        if summ[k] == 0:
            raise Broken("vacuity: no %s case generated" % k)
    # every fourth case again in the float and long double builds (same exact expectations; the badly scaled variants use
    # 2^+-60 resp. 2^+-4000, beyond the range of the next narrower type)
    for real in (4, 16):
        exe_w = vlib.cc_build(sc.path("fact_h%d" % real), [os.path.join(vlib.HARNESS, "fact_h.c")] +
                              vlib.repo_src("linalg.c", "linalg_plu.c", "linalg_ldl.c", "linalg_llt.c", "math.c", "a.c"), sc, real=real)
        rw = vlib.run_harness([exe_w, out, sc.path("g%d" % real), "4", "4"], timeout=1800)
        mw = re.search(r"^SUMMARY (\{.*\})$", rw.stdout or "", re.M)
        if rw.returncode != 0 or not mw:
            if rw.returncode in (96, 97, 98, 99, -6, -11) or "Sanitizer" in (rw.stderr or ""):
                ck.violation("crash", {"what": "sanitizer abort in the factorization routines (real width %d)" % real, "stderr": (rw.stderr or "")[-1500:]})
                continue
            raise Broken("harness (real width %d) failed rc=%s: %s" % (real, rw.returncode, (rw.stderr or "")[-1500:]))
        summ["events"] += json.loads(mw.group(1))["events"]
    files = sorted(glob.glob(sc.path("g*-*.ndjson")))
    nev, bad = vlib.validate_collect(os.path.join(SPECDIR, "FactorTrace.tla"), os.path.join(SPECDIR, "FactorTrace.cfg"), files, sc, timeout=3000)
    names = {1: "plu", 2: "plu-singular", 3: "ldl", 4: "ldl-singular", 5: "llt", 6: "llt-not-pd"}
    for f, idx, ev in bad:
        ck.violation("trace:%s" % names.get(ev.get("kind"), "?"), {"what": "TLC rejected the recorded factorization / derived results (exact rational check)", "event": ev})
    ck.cov["traces_validated_against_impl"] = nev
    ck.cov["evaluations"] = summ["events"]
    ck.cov["distinct_nontrivial"] = summ["events"]
    with open(files[0]) as fh:
        ck.sample(json.loads(fh.readline()))
    ck.cov["rule"] = "one case = one distinct input matrix (n = 2, 3; 4 thorough) built from enumerated factors and permutations, or a structurally singular integer matrix; every case checks the whole family of routines derived from the factorization"
    return ck.finish(exhaustive=False)
