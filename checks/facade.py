"""The C++ member functions in include/a/*.h are a second face of the same operations: each one must behave exactly like
the C function it stands for, with the arguments in the member's own parameter order (Facade.tla).
A test program is generated from the headers of /repo's working tree: for every member function of the selected
structures the C function is called on one instance and the member on an identically prepared second instance, with
pairwise distinct arguments; object bytes, result and every array handed in are recorded after each and compared by TLC.
Shared by the checks whose properties these structures belong to (C12 pid*, C14 trajtrap/bell, C15 trajpoly*, C16 tf/lpf/hpf)."""
import os, re, json, glob
import vlib
from vlib import Broken

SPECDIR = os.path.join(vlib.SPECS, "ffi")

# how to prepare a valid instance X of a structure (default: fill every a_real slot with distinct values)
FIXTURES = {
    "tf": "a_tf_init(&X, 3, RA[2], WA[2], 2, RA[3], WA[3]); for (int i = 0; i < 3; ++i) { WA[2][i] = (a_real)(i + 1); WA[3][i] = (a_real)(2 * i - 1); }",
    "pid_fuzzy": ("memset(&X, 0, sizeof(X)); X.pid.summax = 6; X.pid.summin = -6; X.pid.outmax = 10; X.pid.outmin = -10; "
                  "a_pid_fuzzy_set_opr(&X, A_PID_FUZZY_CAP_ALGEBRA); a_pid_fuzzy_set_rule(&X, 3, ME3, ME3, MK1, MK2, MK3); "
                  "a_pid_fuzzy_set_kpid(&X, 2, 1, 1); a_pid_fuzzy_set_bfuzz(&X, BUF[3], 2); a_pid_fuzzy_zero(&X); X.pid.err = (a_real)0.5;"),
    "regress_linear": "a_regress_linear_init(&X, WA[3], 3, (a_real)0.5); WA[3][0] = 1; WA[3][1] = -2; WA[3][2] = (a_real)0.25;",
    "version": "X.major = 1; X.minor = 2; X.third = 3; X.extra = 4; X.alpha_[0] = '.'; X.alpha_[1] = 'r'; X.alpha_[2] = 'c'; X.alpha_[3] = 0;",
}
ALLREAL = {"pid", "pid_neuro", "lpf", "hpf", "trajpoly3", "trajpoly5", "trajpoly7", "trajtrap", "trajbell", "regress_simple"}
# members that are not a call of one C function with the same parameters: (structure, member) -> statement pair (C side, member side)
CUSTOM = {
    ("lpf", "gen"): ("X.alpha = a_lpf_gen({0}, {1});", "X.gen({0}, {1});"),
    ("hpf", "gen"): ("X.alpha = a_hpf_gen({0}, {1});", "X.gen({0}, {1});"),
    ("lpf", "operator()"): ("R = a_lpf_iter(&X, {0});", "R = X({0});"),
    ("hpf", "operator()"): ("R = a_hpf_iter(&X, {0});", "R = X({0});"),
    ("lpf", "zero"): ("a_lpf_zero(&X);", "X.zero();"),
    ("hpf", "zero"): ("a_hpf_zero(&X);", "X.zero();"),
}


# what a member function called without its trailing arguments means (stated here, not read from the headers): boundary
# derivatives of the trajectory generators that are left out are zero; a simple regression starts as the identity line
# (slope 1, intercept 0); a linear regression starts with bias 0
DEFAULTS = {
    ("trajtrap", "gen"): ["0", "0"], ("trajbell", "gen"): ["0", "0"], ("trajpoly3", "gen"): ["0", "0"],
    ("trajpoly5", "gen"): ["0", "0", "0", "0"], ("trajpoly7", "gen"): ["0", "0", "0", "0", "0", "0"],
    ("regress_simple", "init"): ["1", "0"], ("regress_linear", "init"): ["0"],
}


def split_top(s):
    out, depth, cur = [], 0, ""
    for ch in s:
        if ch in "([{":
            depth += 1
        elif ch in ")]}":
            depth -= 1
        if ch == "," and depth == 0:
            out.append(cur); cur = ""
        else:
            cur += ch
    if cur.strip():
        out.append(cur)
    return [x.strip() for x in out]


def match_close(text, i, open_ch, close_ch):
    depth = 0
    for j in range(i, len(text)):
        if text[j] == open_ch:
            depth += 1
        elif text[j] == close_ch:
            depth -= 1
            if depth == 0:
                return j
    return -1


def parse_header(path):
    """-> {struct name: [method dict]}"""
    text = open(path, errors="replace").read()
    text = re.sub(r"/\*.*?\*/", " ", text, flags=re.S)
    text = re.sub(r"//[^\n]*", " ", text)
    res = {}
    for m in re.finditer(r"\bstruct a_(\w+)\s*\{", text):
        name = m.group(1)
        end = match_close(text, m.end() - 1, "{", "}")
        if end < 0:
            continue
        body = text[m.end():end]
        if "A_INLINE" not in body:
            continue
        methods = []
        pos = 0
        while True:
            k = body.find("A_INLINE", pos)
            if k < 0:
                break
            p0 = body.find("(", k)
            head = body[k + 8:p0].strip()
            if head.endswith("operator"):
                # operator()(params)
                p0 = body.find("(", p0 + 2)
                mname = "operator()"
                ret = head[:-len("operator")].strip()
            else:
                mm = re.match(r"(.*?)(\w+)$", head, re.S)
                if not mm or p0 < 0:
                    pos = k + 8
                    continue
                ret, mname = mm.group(1).strip(), mm.group(2)
            p1 = match_close(body, p0, "(", ")")
            b0 = body.find("{", p1)
            b1 = match_close(body, b0, "{", "}")
            params = []
            ndefault = 0
            for prm in split_top(body[p0 + 1:p1]):
                ndefault += 1 if "=" in prm else 0
                prm = prm.split("=")[0].strip()
                if not prm or prm == "void":
                    continue
                am = re.match(r"(.*?)(\w+)\s*((?:\[\w*\])*)$", prm, re.S)
                ptype = " ".join(am.group(1).split()) + ("*" if am.group(3) else "")
                params.append((ptype.replace(" *", "*").strip(), am.group(2)))
            mbody = body[b0 + 1:b1]
            cm = re.search(r"\b(a_\w+)\s*\(\s*this\b", mbody)
            methods.append({"name": mname, "ret": " ".join(ret.split()), "params": params, "callee": cm.group(1) if cm else None,
                            "const": "const" in body[p1:b0], "ndefault": ndefault})
            pos = b1
        res[name] = methods
    return res


def c_arities():
    """name -> number of parameters, for every function / function-like macro a_* declared in the headers"""
    ar = {}
    for h in glob.glob(os.path.join(vlib.REPO, "include", "a", "*.h")):
        t = open(h, errors="replace").read()
        t = re.sub(r"/\*.*?\*/", " ", t, flags=re.S)
        for m in re.finditer(r"\b(?:A_EXTERN|A_INTERN)\b[^;{(]*?\b(a_\w+)\s*\(([^)]*)\)", t):
            ps = m.group(2).strip()
            ar.setdefault(m.group(1), 0 if ps in ("", "void") else len(split_top(ps)))
        for m in re.finditer(r"#define\s+(a_\w+)\(([^)]*)\)", t):
            ar.setdefault(m.group(1), len([x for x in m.group(2).split(",") if x.strip()]))
    return ar


def arg_for(ptype, k, struct):
    t = ptype.replace("const", "").replace(" ", "")
    if t == "a_real":
        return "(a_real)%s" % ((1.25 + 0.75 * k) * (-1 if k % 2 else 1))
    if t in ("unsignedint", "a_uint", "a_size", "int", "a_u32", "unsigned", "a_int"):
        return "(%s)%d" % (ptype.replace("const", "").strip(), 2 + k)        # pairwise distinct, small enough to index the arrays
    if t == "a_real*":
        return ("RA[%d]" if "const" in ptype else "WA[%d]") % (k % 2)
    if t == "void*":
        return "(void *)BUF[%d]" % (k % 2)
    if t == "char*":
        return '"1.2.3-rc"' if "const" in ptype else "(char *)BUF[%d]" % (k % 2)
    if t in ("a_%s*" % struct, "%s*" % struct):
        return "&OTHER"
    if t in ("a_%s&" % struct, "%s&" % struct):
        return ("&OTHER", "OTHER")          # the C function takes the address, the member a reference
    return None


def generate(structs, parsed, out_cpp):
    arity = c_arities()
    L = ['#include <cstdio>', '#include <cstring>', '#include <vector>', '#include "a/mf.h"', '#include "a/pid_fuzzy.h"']
    for h in sorted(set(h for s, (h, _) in parsed.items() if s in structs)):
        L.append('#include "a/%s"' % h)
    L.append('''
static a_real RA[4][256], WA[4][256];
static unsigned char BUF[4][1024];
static a_real ME3[] = {A_MF_TRI, -4, -2, 0, A_MF_TRI, -2, 0, 2, A_MF_TRI, 0, 2, 4};
static a_real MK1[] = {1, 2, 3, 2, 4, -1, 0, -2, 5}, MK2[] = {0, 1, 0, 1, 2, 1, 0, 1, 3}, MK3[] = {2, 0, -2, 0, 1, 0, -2, 0, 2};
static void reset_arrays(void)
{
    for (int a = 0; a < 4; ++a)
    {
        for (int i = 0; i < 256; ++i) { RA[a][i] = (a_real)(0.5 + 0.25 * ((i * 7 + a * 3) % 11) - 1); WA[a][i] = (a_real)(100 + a * 10 + i % 7); }
        for (int i = 0; i < 1024; ++i) { BUF[a][i] = (unsigned char)(0x40 + (i + a) % 23); }
    }
}
template <class T> static void fill_reals(T &x)
{
    a_real *w = (a_real *)&x;
    for (unsigned i = 0; i < sizeof(T) / sizeof(a_real); ++i) { w[i] = (a_real)(0.5 + 0.25 * i); }
}
static void put_bytes(void const *p, size_t n)
{
    unsigned char const *b = (unsigned char const *)p;
    putchar('[');
    for (size_t i = 0; i < n; ++i) { printf(i ? ",%u" : "%u", b[i]); }
    putchar(']');
}
static void put_digest(void)
{
    /* position-sensitive digests of every array a call may have written */
    putchar('[');
    for (int a = 0; a < 4; ++a)
    {
        unsigned long h = 5381, g = 5381;
        unsigned char const *w = (unsigned char const *)WA[a];
        for (size_t i = 0; i < sizeof(WA[a]); ++i) { h = (h * 33 + w[i]) % 1000003; }
        for (size_t i = 0; i < sizeof(BUF[a]); ++i) { g = (g * 33 + BUF[a][i]) % 1000003; }
        printf(a ? ",%lu,%lu" : "%lu,%lu", h, g);
    }
    putchar(']');
}
template <class T> static void snapshot(char const *side, T const &x, void const *ret, size_t nret)
{
    printf("\\"%s\\":{\\"state\\":", side);
    put_bytes(&x, sizeof(T));
    printf(",\\"ret\\":");
    put_bytes(ret, nret);
    printf(",\\"arrays\\":");
    put_digest();
    putchar('}');
}
''')
    tests = []
    skipped = []
    for s in structs:
        if s not in parsed:
            skipped.append((s, "*", "structure has no member functions in the headers"))
            continue
        _, methods = parsed[s]
        if s in FIXTURES:
            fix = FIXTURES[s]
        elif s in ALLREAL:
            fix = "fill_reals(X);"
        else:
            skipped.append((s, "*", "no fixture for this structure"))
            continue
        L.append("static void setup_%s(a_%s &X) { reset_arrays(); %s }" % (s, s, fix))
        for mi, m in enumerate(methods):
            args2 = [arg_for(t, k, s) for k, (t, _) in enumerate(m["params"])]
            args = [a[0] if isinstance(a, tuple) else a for a in args2]
            margs = [a[1] if isinstance(a, tuple) else a for a in args2]
            if any(a is None for a in args):
                skipped.append((s, m["name"], "parameter type not supported: %s" % [t for t, _ in m["params"]]))
                continue
            nonvoid = m["ret"] not in ("void", "")
            rtype = m["ret"].replace("A_INLINE", "").strip()
            if (s, m["name"]) in CUSTOM:
                cs, ms = CUSTOM[(s, m["name"])]
                cs = cs.format(*args); ms = ms.format(*margs)
                rdecl = "a_real R = 0;"
                retexpr = ("&R", "sizeof(R)") if "R =" in cs else ("0", "0")
                callee = "(inline body)"
            elif m["callee"]:
                # the C function a member stands for is named after it (a_<structure>_<member>, call operator = iter); the call
                # written in the member's body is only trusted when no function of that name and arity exists
                conv = "a_%s_%s" % (s, "iter" if m["name"] == "operator()" else m["name"])
                if arity.get(conv) == len(args) + 1:
                    m = dict(m, callee=conv)
                call_c = "%s(&X%s)" % (m["callee"], "".join(", " + a for a in args))
                call_m = ("X(%s)" % ", ".join(margs)) if m["name"] == "operator()" else "X.%s(%s)" % (m["name"], ", ".join(margs))
                if nonvoid:
                    rdecl = "%s R;" % rtype
                    cs = "R = %s;" % call_c; ms = "R = %s;" % call_m
                    retexpr = ("&R", "sizeof(R)")
                else:
                    rdecl = ""; cs = call_c + ";"; ms = call_m + ";"
                    retexpr = ("0", "0")
                callee = m["callee"]
            else:
                skipped.append((s, m["name"], "inline body without a C counterpart (not a forwarder)"))
                continue
            fn = "test_%s_%d" % (s, mi)
            L.append("static void %s(void)\n{\n    a_%s X, OTHER;\n    %s\n" % (fn, s, rdecl))
            L.append('    printf("{\\"cls\\":\\"%s\\",\\"m\\":\\"%s\\",\\"callee\\":\\"%s\\",\\"nargs\\":%d,");' % (s, m["name"], callee, len(args)))
            for side, stmt in (("c", cs), ("cpp", ms)):
                L.append("    setup_%s(OTHER); setup_%s(X); %s" % (s, s, ("memset(&R, 0, sizeof(R));" if rdecl else "")))
                L.append("    %s" % stmt)
                L.append('    snapshot("%s", X, %s, %s);%s' % (side, retexpr[0], retexpr[1], ' putchar(\',\');' if side == "c" else ""))
            L.append('    printf("}\\n");\n}')
            tests.append(fn)
            # the same member called without its defaulted trailing arguments = the C function with the stated defaults
            nd = m.get("ndefault", 0)
            if nd and m["callee"] and (s, m["name"]) not in CUSTOM:
                dv = DEFAULTS.get((s, m["name"]))
                if dv is None or len(dv) != nd:
                    skipped.append((s, m["name"] + "/defaults", "default arguments without a stated meaning"))
                    continue
                keep = len(args) - nd
                call_c = "%s(&X%s)" % (m["callee"], "".join(", " + a for a in args[:keep] + ["(a_real)%s" % v for v in dv]))
                call_m = "X.%s(%s)" % (m["name"], ", ".join(margs[:keep]))
                if nonvoid:
                    cs = "R = %s;" % call_c; ms = "R = %s;" % call_m
                else:
                    cs = call_c + ";"; ms = call_m + ";"
                fn = "test_%s_%d_dflt" % (s, mi)
                L.append("static void %s(void)\n{\n    a_%s X, OTHER;\n    %s\n" % (fn, s, rdecl))
                L.append('    printf("{\\"cls\\":\\"%s\\",\\"m\\":\\"%s/defaults\\",\\"callee\\":\\"%s\\",\\"nargs\\":%d,");' % (s, m["name"], callee, keep))
                for side, stmt in (("c", cs), ("cpp", ms)):
                    L.append("    setup_%s(OTHER); setup_%s(X); %s" % (s, s, ("memset(&R, 0, sizeof(R));" if rdecl else "")))
                    L.append("    %s" % stmt)
                    L.append('    snapshot("%s", X, %s, %s);%s' % (side, retexpr[0], retexpr[1], ' putchar(\',\');' if side == "c" else ""))
                L.append('    printf("}\\n");\n}')
                tests.append(fn)
    L.append("int main(void)\n{")
    for t in tests:
        L.append("    %s();" % t)
    L.append('    return 0;\n}')
    with open(out_cpp, "w") as f:
        f.write("\n".join(L) + "\n")
    return len(tests), skipped


def part(ck, sc, structs, keyprefix="facade"):
    """run the facade comparison for the given structures and report violations on ck"""
    parsed = {}
    for h in sorted(glob.glob(os.path.join(vlib.REPO, "include", "a", "*.h"))):
        for s, methods in parse_header(h).items():
            parsed[s] = (os.path.basename(h), methods)
    cpp = sc.path("facade_%s.cpp" % structs[0])
    ntests, skipped = generate(structs, parsed, cpp)
    if ntests == 0:
        raise Broken("facade: no member function found for %s (header layout changed?)" % structs)
    srcs = [os.path.join(vlib.REPO, "src", f) for f in ("a.c", "math.c", "mf.c", "fuzzy.c", "pid.c", "pid_fuzzy.c", "pid_neuro.c", "poly.c", "tf.c", "trajbell.c", "trajtrap.c",
                                                         "trajpoly3.c", "trajpoly5.c", "trajpoly7.c", "regress_linear.c", "regress_simple.c", "regress.c", "version.c")]
    # C sources are compiled as C, the generated test as C++
    objs = []
    cfgdir = sc.sub("facade-cfg")
    vlib.write_config_header(os.path.join(cfgdir, "a.verif.h"))
    common = ["-g", "-O1", "-w", "-fsanitize=address,undefined", "-fno-sanitize-recover=all", "-I" + os.path.join(vlib.REPO, "include"), "-I" + cfgdir, '-DA_HAVE_H="a.verif.h"', "-DA_EXPORTS"]
    import subprocess

    def cc(src):
        o = sc.path("fo-" + os.path.basename(src) + ".o")
        p = subprocess.run(["gcc"] + common + ["-c", src, "-o", o], stdout=subprocess.PIPE, stderr=subprocess.STDOUT, text=True)
        if p.returncode:
            raise Broken("facade: cannot compile %s: %s" % (src, p.stdout[-800:]))
        return o
    objs = vlib.parallel(cc, [s for s in srcs if os.path.exists(s)])
    exe = sc.path("facade_%s" % structs[0])
    p = subprocess.run(["g++", "-std=gnu++17"] + common + [cpp] + objs + ["-lm", "-o", exe], stdout=subprocess.PIPE, stderr=subprocess.STDOUT, text=True)
    if p.returncode:
        raise Broken("facade: generated test does not compile (a member function and the C function no longer take the same arguments?):\n" + p.stdout[-2500:])
    env = dict(os.environ, ASAN_OPTIONS="detect_leaks=0:abort_on_error=0", UBSAN_OPTIONS="print_stacktrace=1")
    r = subprocess.run([exe], stdout=subprocess.PIPE, stderr=subprocess.PIPE, text=True, timeout=300, env=env)
    out = sc.path("facade_%s.ndjson" % structs[0])
    with open(out, "w") as f:
        f.write(r.stdout)
    files = vlib.drop_partial_lines([out])
    if r.returncode != 0:
        ck.violation("crash:%s" % keyprefix, {"what": "sanitizer abort / crash while calling a member function or its C counterpart", "stderr": (r.stderr or "")[-1500:]})
    nev, bad = vlib.validate_collect(os.path.join(SPECDIR, "Facade.tla"), os.path.join(SPECDIR, "Facade.cfg"), files, sc)
    for f_, idx, ev in bad:
        ck.violation("%s:%s:%s" % (keyprefix, ev.get("cls"), ev.get("m")),
                     {"what": "the C++ member function does not behave like the C function it stands for (object bytes, result or written arrays differ for pairwise distinct arguments)",
                      "class": ev.get("cls"), "member": ev.get("m"), "c_function": ev.get("callee"),
                      "c_result": ev.get("c", {}).get("ret"), "member_result": ev.get("cpp", {}).get("ret")})
    ck.cov["evaluations"] += ntests
    ck.cov["traces_validated_against_impl"] += nev
    ck.part("cxx_member_functions", structures=structs, members_compared=ntests, rejected=len(bad),
            not_compared=["%s::%s: %s" % s for s in skipped])
    return ntests
