"""C20: the Rust binding's mirrored types and foreign declarations against the C ABI (Ffi.tla)."""
import os, re, json, shutil, subprocess, glob
import vlib
from vlib import Check, Broken

SPECDIR = os.path.join(vlib.SPECS, "ffi")
RUST_ONLY = {"crc8", "crc16", "crc32", "crc64"}      # wrappers around a lookup table, no C structure behind them


def split_top(s, sep=","):
    out, depth, cur = [], 0, ""
    prev = ""
    for ch in s:
        if ch in "([<":
            depth += 1
        elif ch in ")]" or (ch == ">" and prev != "-"):
            depth -= 1
        prev = ch
        if ch == sep and depth == 0:
            out.append(cur); cur = ""
        else:
            cur += ch
    if cur.strip():
        out.append(cur)
    return [x.strip() for x in out]


def K(kind, bits=0, sign=0, dims="", name=""):
    """machine type class: [kind, bits, signed, array dimensions, structure name]"""
    return [kind, bits, sign, dims, name]


SCALARS = {"f64": K("float", 64), "f32": K("float", 32), "u8": K("int", 8), "u16": K("int", 16), "u32": K("int", 32), "u64": K("int", 64), "usize": K("int", 64),
           "i8": K("int", 8, 1), "i16": K("int", 16, 1), "i32": K("int", 32, 1), "i64": K("int", 64, 1), "isize": K("int", 64, 1), "void": K("void"), "ptr": K("ptr", 64), "bool": K("int", 8)}


def arr(cls, n):
    c = list(cls); c[3] = str(n) + ("x" + c[3] if c[3] else ""); return c


def rust_class(t, width):
    t = t.strip()
    if t.startswith(("*const", "*mut")) or "fn(" in t or t.startswith(("&", "Option<")):
        return SCALARS["ptr"]
    m = re.match(r"\[(.+);\s*(\w+)\]$", t)
    if m:
        return arr(rust_class(m.group(1), width), int(m.group(2), 0))
    table = {"real": "f64" if width == 8 else "f32", "c_uint": "u32", "c_int": "i32", "c_char": "i8", "()": "void", "": "void"}
    t = table.get(t, t)
    if t in SCALARS:
        return SCALARS[t]
    return K("struct", 0, 0, "", t)


def c_class(t, width):
    t = t.strip()
    t = re.sub(r"\b(const|volatile|struct|restrict|__restrict)\b", "", t).strip()
    if "*" in t or "(" in t:
        return SCALARS["ptr"]
    table = {"a_real": "f64" if width == 8 else "f32", "double": "f64", "float": "f32", "unsigned int": "u32", "a_uint": "u32", "a_u32": "u32", "int": "i32", "a_int": "i32",
             "a_size": "usize", "size_t": "usize", "unsigned long": "usize", "a_u8": "u8", "unsigned char": "u8", "a_byte": "u8", "a_u16": "u16", "unsigned short": "u16",
             "a_u64": "u64", "unsigned long long": "u64", "char": "i8", "signed char": "i8", "short": "i16", "void": "void", "a_bool": "bool", "_Bool": "bool", "a_diff": "isize", "long": "isize", "long long": "i64",
             "a_i32": "i32", "a_i64": "i64", "a_f32": "f32", "a_f64": "f64"}
    if t in table:
        return SCALARS[table[t]]
    return K("struct", 0, 0, "", re.sub(r"^a_", "", t))


def parse_rust(librs):
    src = open(librs).read()
    src_nc = re.sub(r"//[^\n]*", "", src)
    structs = []
    for m in re.finditer(r"#\[repr\(C\)\]\s*(?:#\[[^\]]*\]\s*)*pub struct (\w+)\s*\{(.*?)\n\}", src_nc, re.S):
        fields = []
        for f in split_top(m.group(2)):
            f = re.sub(r"#\[[^\]]*\]", "", f).strip()
            if not f:
                continue
            fm = re.match(r"(?:pub(?:\([^)]*\))?\s+)?(\w+)\s*:\s*(.+)$", f, re.S)
            if not fm:
                raise Broken("cannot parse field %r of struct %s" % (f, m.group(1)))
            fields.append((fm.group(1), " ".join(fm.group(2).split())))
        structs.append((m.group(1), fields))
    fns = []
    for blk in re.finditer(r'extern "C" \{(.*?)\n\s*\}', src_nc, re.S):
        for fm in re.finditer(r"fn (\w+)\s*\((.*?)\)\s*(?:->\s*([^;]+?))?\s*;", blk.group(1), re.S):
            params = []
            for p in split_top(fm.group(2)):
                if not p:
                    continue
                pm = re.match(r"\w+\s*:\s*(.+)$", p, re.S)
                params.append(" ".join((pm.group(1) if pm else p).split()))
            fns.append((fm.group(1), params, " ".join((fm.group(3) or "()").split())))
    return structs, fns


def gdb_batch(obj, cmds):
    args = ["gdb", "-batch", "-nx"]
    for c in cmds:
        args += ["-ex", c]
    p = subprocess.run(args + [obj], stdout=subprocess.PIPE, stderr=subprocess.STDOUT, text=True, timeout=300)
    return p.stdout


def c_facts(sc, width, structs, fns):
    """DWARF of the C library compiled from /repo with the given real width."""
    hdrs = sorted(os.path.basename(h) for h in glob.glob(os.path.join(vlib.REPO, "include", "a", "*.h")))
    stub = sc.path("stub%d.c" % width)
    with open(stub, "w") as f:
        for h in hdrs:
            f.write('#include "a/%s"\n' % h)
        f.write("#include <stdio.h>\n#include <stddef.h>\n")
        for i, (name, _) in enumerate(structs):
            if name not in RUST_ONLY:
                f.write("#ifdef HAVE_%s\nstruct a_%s verif_var_%d;\n#endif\n" % (name, name, i))
    so = sc.path("liba_dbg%d.so" % width)
    srcs = sorted(glob.glob(os.path.join(vlib.REPO, "src", "*.c")))
    # which structures exist at all: try each with a tiny compile of the stub
    present = []
    for name, _ in structs:
        if name in RUST_ONLY:
            continue
        t = sc.path("probe.c")
        with open(t, "w") as f:
            for h in hdrs:
                f.write('#include "a/%s"\n' % h)
            f.write("struct a_%s probe_v; int probe_s = (int)sizeof(struct a_%s);\n" % (name, name))
        p = subprocess.run(["gcc", "-fsyntax-only", "-w", "-I" + os.path.join(vlib.REPO, "include"), "-DA_SIZE_REAL=%d" % width, t], stdout=subprocess.PIPE, stderr=subprocess.STDOUT, text=True)
        if p.returncode == 0:
            present.append(name)
    defs = ["-DHAVE_%s" % n for n in present]
    p = subprocess.run(["gcc", "-g", "-O0", "-w", "-shared", "-fPIC", "-I" + os.path.join(vlib.REPO, "include"), "-DA_EXPORTS", "-DA_SIZE_REAL=%d" % width] + defs + srcs + [stub, "-o", so, "-lm"],
                       stdout=subprocess.PIPE, stderr=subprocess.STDOUT, text=True, timeout=600)
    if p.returncode != 0:
        raise Broken("C library build (width %d) failed: %s" % (width, p.stdout[-2000:]))
    # alignment: a small program
    al = sc.path("align%d.c" % width)
    with open(al, "w") as f:
        for h in hdrs:
            f.write('#include "a/%s"\n' % h)
        f.write("#include <stdio.h>\nint main(void){\n")
        for name in present:
            f.write('printf("%s %%d %%d\\n", (int)_Alignof(struct a_%s), (int)sizeof(struct a_%s));\n' % (name, name, name))
        f.write("return 0;}\n")
    exe = sc.path("align%d" % width)
    p = subprocess.run(["gcc", "-w", "-I" + os.path.join(vlib.REPO, "include"), "-DA_SIZE_REAL=%d" % width, al, "-o", exe], stdout=subprocess.PIPE, stderr=subprocess.STDOUT, text=True)
    if p.returncode != 0:
        raise Broken("alignment probe failed: " + p.stdout[-1500:])
    aligns = {}
    for line in subprocess.run([exe], stdout=subprocess.PIPE, text=True).stdout.splitlines():
        n, a, s = line.split()
        aligns[n] = (int(a), int(s))
    cmds = []
    for name in present:
        cmds += ["echo @@S %s\\n" % name, "ptype /o struct a_%s" % name]
    for name, _, _ in fns:
        cmds += ["echo @@F %s\\n" % name, "ptype %s" % name]
    out = gdb_batch(so, cmds)
    cstructs, cfns = {}, {}
    cur = None
    for line in out.splitlines():
        if line.startswith("@@S "):
            cur = ("S", line[4:].strip()); cstructs[cur[1]] = []
            continue
        if line.startswith("@@F "):
            cur = ("F", line[4:].strip())
            continue
        if not cur:
            continue
        if cur[0] == "S":
            m = re.match(r"/\*\s*(\d+)\s*\|\s*(\d+)\s*\*/\s{4}(\S.*);$", line)
            if m:
                decl = m.group(3)
                am = re.match(r"(.*?)(\w+)((?:\[\d+\])*)$", decl) if "(*" not in decl else None
                if "(*" in decl:
                    fname = re.search(r"\(\*(\w+)\)", decl).group(1); cls = SCALARS["ptr"]
                else:
                    fname = am.group(2); base = am.group(1).strip(); dims = re.findall(r"\[(\d+)\]", am.group(3))
                    cls = c_class(base, width)
                    for d in reversed(dims):
                        cls = arr(cls, d)
                cstructs[cur[1]].append([fname.rstrip("_"), int(m.group(1)), int(m.group(2)), cls])
        else:
            m = re.match(r"type = .*?\(\*\((.*?)\)\)\(.*\)\s*$", line)          # a function returning a function pointer
            if m:
                ps = [] if m.group(1).strip() in ("", "void") else [c_class(x, width) for x in split_top(m.group(1))]
                cfns[cur[1]] = (SCALARS["ptr"], ps)
                continue
            m = re.match(r"type = (.*?)\s*\((.*)\)\s*$", line)
            if m:
                ret = c_class(m.group(1), width)
                ps = [] if m.group(2).strip() in ("", "void") else [c_class(x, width) for x in split_top(m.group(2))]
                cfns[cur[1]] = (ret, ps)
    return present, aligns, cstructs, cfns


def rust_facts(sc, width, structs):
    """size / align / offsets as rustc sees them: a scratch copy of the crate with a layout module appended."""
    crate = sc.sub("crate%d" % width)
    for d in ("include", "src"):
        shutil.copytree(os.path.join(vlib.REPO, d), os.path.join(crate, d), dirs_exist_ok=True)
    for f in ("Cargo.toml", "build.rs"):
        shutil.copy(os.path.join(vlib.REPO, f), crate)
    L = ["\n/// layout facts for the ABI conformance check (appended to a scratch copy by /verif/checks/ffi.py)", "#[allow(missing_docs)]", "pub mod verif_layout {", "    use super::*;",
         "    extern crate std;", "    use std::println;", "    pub fn dump() {"]
    for name, fields in structs:
        L.append('        println!("STRUCT %s {} {}", core::mem::size_of::<%s>(), core::mem::align_of::<%s>());' % (name, name, name))
        for fn_, ty in fields:
            L.append('        println!("FIELD %s %s {} {}", core::mem::offset_of!(%s, %s), core::mem::size_of::<%s>());' % (name, fn_, name, fn_, ty))
    L += ["    }", "}"]
    with open(os.path.join(crate, "src", "lib.rs"), "a") as f:
        f.write("\n".join(L) + "\n")
    os.makedirs(os.path.join(crate, "examples"), exist_ok=True)
    with open(os.path.join(crate, "examples", "layout.rs"), "w") as f:
        f.write("fn main() { liba::verif_layout::dump(); }\n")
    env = dict(os.environ, CARGO_NET_OFFLINE="true", CARGO_TARGET_DIR=os.path.join(crate, "target"))
    cmd = ["cargo", "run", "--offline", "--quiet", "--example", "layout"] + (["--features", "float"] if width == 4 else [])
    p = subprocess.run(cmd, cwd=crate, env=env, stdout=subprocess.PIPE, stderr=subprocess.PIPE, text=True, timeout=900)
    if p.returncode != 0:
        raise Broken("cargo build of the scratch crate failed (width %d): %s" % (width, p.stderr[-2500:]))
    rs, rf = {}, {}
    for line in p.stdout.splitlines():
        t = line.split()
        if t and t[0] == "STRUCT":
            rs[t[1]] = (int(t[2]), int(t[3])); rf[t[1]] = []
        elif t and t[0] == "FIELD":
            rf[t[1]].append((t[2], int(t[3]), int(t[4])))
    shutil.rmtree(os.path.join(crate, "target"), ignore_errors=True)
    return rs, rf


def run(pid, tier, replay=None):
    ck = Check(pid, tier, "other")
    sc = ck.scratch
    structs, fns = parse_rust(os.path.join(vlib.REPO, "src", "lib.rs"))
    if len(structs) < 10 or len(fns) < 60:
        raise Broken("parsed only %d structs / %d foreign functions from src/lib.rs" % (len(structs), len(fns)))
    ck.assumptions += [
        "C facts come from the DWARF gcc emits for /repo's headers and sources (gdb ptype /o) and from _Alignof; Rust facts from size_of / align_of / offset_of! evaluated by rustc inside a scratch copy of the crate",
        "machine type classes on x86-64 SysV: a type change that keeps the class (e.g. unsigned int -> a_u32) is not a difference; crc8/16/32/64 are Rust-only wrappers without a C structure",
        "foreign declarations are parsed from src/lib.rs textually (extern \"C\" blocks)",
    ]
    events = []
    for width in (8, 4):
        present, aligns, cstructs, cfns = c_facts(sc, width, structs, fns)
        rs, rf = rust_facts(sc, width, structs)
        for name, fields in structs:
            if name in RUST_ONLY:
                continue
            rfields = [[fn_.rstrip("_"), off, size, rust_class(ty, width)] for (fn_, ty), (fn2, off, size) in zip(fields, rf.get(name, []))]
            ev = {"k": "struct", "name": name, "width": width, "exists": 1 if name in present else 0,
                  "csize": aligns.get(name, (0, 0))[1], "calign": aligns.get(name, (0, 0))[0], "rsize": rs.get(name, (0, 0))[0], "ralign": rs.get(name, (0, 0))[1],
                  "cfields": cstructs.get(name, []), "rfields": rfields}
            events.append(ev)
        for name, params, ret in fns:
            c = cfns.get(name)
            events.append({"k": "fn", "name": name, "width": width, "exists": 1 if c else 0,
                           "cret": c[0] if c else K("missing"), "cparams": c[1] if c else [],
                           "rret": rust_class(ret, width), "rparams": [rust_class(p, width) for p in params]})
    tf = sc.path("ffi.ndjson")
    with open(tf, "w") as f:
        for e in events:
            f.write(json.dumps(e) + "\n")
    nev, bad = vlib.validate_collect(os.path.join(SPECDIR, "Ffi.tla"), os.path.join(SPECDIR, "Ffi.cfg"), [tf], sc)
    for f_, idx, ev in bad:
        ck.violation("abi:%s:%s" % (ev["k"], ev["name"]), {"what": "the Rust declaration and the C definition disagree (size / alignment / field name, offset, size, class / parameter or return class / missing symbol)", "event": ev})
    ns = sum(1 for e in events if e["k"] == "struct"); nf = len(events) - ns
    ck.cov["evaluations"] = len(events)
    ck.cov["distinct_nontrivial"] = len(events)
    ck.cov["traces_validated_against_impl"] = nev
    ck.cov["explanation"] = ("%d structure comparisons and %d foreign-function comparisons (both real widths), each a record of facts obtained from gcc's DWARF and from rustc, "
                             "judged by TLC against Ffi.tla (StructOK / FnOK)" % (ns, nf))
    ck.cov["states"] = 1; ck.cov["transitions"] = 1
    ck.part("compared", structs=ns, functions=nf, widths=[8, 4])
    ck.sample(events[0]); ck.sample(events[-1])
    ck.cov["rule"] = "one case = one mirrored structure or one foreign function declaration, for one real width"
    return ck.finish(exhaustive=not ck.violations)
