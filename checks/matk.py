"""C09: matrix product / transpose / structure kernels (MatKernels / MatTrace)."""
import os, glob, json, re
import vlib
from vlib import Check, Broken, tlc, tlc_must_pass

SPECDIR = os.path.join(vlib.SPECS, "linalg")


def run(pid, tier, replay=None):
    ck = Check(pid, tier, "model_checking")
    sc = ck.scratch
    D = 5 if tier == "quick" else 10
    ck.assumptions += [
        "contents are index-coded small integers (four codings: positive, with negative entries, with scattered exact zeros, with a zero first column / row): every product and sum is exact, any misplaced element changes the result",
        "all dimension triples in 1..%d (rectangular, inner dimension one included); larger dimensions are not enumerated" % D,
        "writes outside the result array: guard cells around the result inside an exactly sized heap block under ASan",
    ]
    cfg = vlib.write_cfg(sc.path("mk.cfg"), ["CONSTANT D = %d" % D, "INIT Init", "NEXT Next", "ACTION_CONSTRAINT Emit", "CHECK_DEADLOCK FALSE"])
    out = sc.path("mk.out")
    res = tlc(os.path.join(SPECDIR, "MatKernels.tla"), cfg, sc, timeout=1800, heap="8g", capture_prefix="3030303", stdout_path=out, workers=8)
    tlc_must_pass(res, "MatKernels D=%d" % D)
    ck.add_tlc(res, "definitions_and_identities")
    exe = vlib.cc_build(sc.path("mat_h"), [os.path.join(vlib.HARNESS, "mat_h.c")] + vlib.repo_src("linalg.c", "a.c"), sc)
    r = vlib.run_harness([exe, out, sc.path("g"), "14"], timeout=1200)
    m = re.search(r"^SUMMARY (\{.*\})$", r.stdout or "", re.M)
    if r.returncode != 0 or not m:
        if r.returncode in (96, 97, 98, 99, -6, -11) or "Sanitizer" in (r.stderr or ""):
            ck.violation("crash:kernel", {"what": "sanitizer abort: a kernel wrote or read outside the arrays it was given", "stderr": (r.stderr or "")[-1500:]})
            return ck.finish()
        raise Broken("harness failed rc=%s: %s" % (r.returncode, (r.stderr or "")[-1500:]))
    summ = json.loads(m.group(1))
    for mm in re.finditer(r"^MISMATCH (\{.*\})$", r.stdout or "", re.M):
        d = json.loads(mm.group(1))
        ck.violation("replay:kernel%d" % d["k"], dict(d, what="result differs from the specification's expected array or guard cell overwritten"))
    if summ["events"] != res.generated - res.init_states:
        raise Broken("emitted %d cases, ran %d" % (res.generated - res.init_states, summ["events"]))
    # the same cases in the float and long double builds; kernels that only move data get contents that need the whole
    # mantissa of the element type (integer code times 1 + 2^-20 resp. 1 + 2^-60), reported in units of that factor
    for real in (4, 16):
        exe_w = vlib.cc_build(sc.path("mat_h%d" % real), [os.path.join(vlib.HARNESS, "mat_h.c")] + vlib.repo_src("linalg.c", "a.c"), sc, real=real)
        rw = vlib.run_harness([exe_w, out, sc.path("g%d" % real), "4"], timeout=1200)
        mw = re.search(r"^SUMMARY (\{.*\})$", rw.stdout or "", re.M)
        if rw.returncode != 0 or not mw:
            if rw.returncode in (96, 97, 98, 99, -6, -11) or "Sanitizer" in (rw.stderr or ""):
                ck.violation("crash:kernel", {"what": "sanitizer abort in a kernel (real width %d)" % real, "stderr": (rw.stderr or "")[-1500:]})
                continue
            raise Broken("harness (real width %d) failed rc=%s: %s" % (real, rw.returncode, (rw.stderr or "")[-1500:]))
        for mm in re.finditer(r"^MISMATCH (\{.*\})$", rw.stdout or "", re.M):
            d = json.loads(mm.group(1))
            ck.violation("replay:kernel%d:width%d" % (d["k"], real), dict(d, what="result differs from the specification's expected array (real width %d)" % real))
        summ["events"] += json.loads(mw.group(1))["events"]
        summ["scaled"] = summ.get("scaled", 0) + json.loads(mw.group(1)).get("scaled", 0)
    files = sorted(glob.glob(sc.path("g*-*.ndjson")))
    nev, bad = vlib.validate_collect(os.path.join(SPECDIR, "MatTrace.tla"), os.path.join(SPECDIR, "MatTrace.cfg"), files, sc)
    for f, idx, ev in bad:
        ck.violation("trace:kernel%d" % ev.get("k"), {"what": "TLC rejected the recorded result", "event": ev})
    ck.cov["traces_validated_against_impl"] = nev
    ck.cov["evaluations"] = summ["events"]
    ck.cov["distinct_nontrivial"] = summ["events"]
    ck.part("scaled_products", runs=summ.get("scaled", 0), note="every product case again with operands scaled by 2^-70 / 2^70 and 2^70 / 2^-70: the same array is required")
    with open(files[0]) as fh:
        ck.sample(json.loads(fh.readline()))
    ck.cov["rule"] = "one case = one (kernel, dimensions, coding); 19 kernels; every case has distinct position-identifying contents"
    return ck.finish(exhaustive=not ck.violations)
