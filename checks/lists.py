"""C05: intrusive lists, singly linked list, queue (List / Slist / Que specs)."""
import os, glob, json, re
import vlib
from vlib import Check, Broken, tlc, tlc_must_pass
from checks.seqs import replay_with_resume

SPECDIR = os.path.join(vlib.SPECS, "list")
LOPS = ["?", "add_next", "add_node", "add_", "add_prev", "del_node", "del_", "del_next", "del_prev", "set_node", "set_",
        "mov_next", "mov_prev", "rot_next", "rot_prev", "swap_node", "swap_"]
SOPS = ["?", "add", "add_head", "add_tail", "del", "del_head", "mov", "rot"]
QOPS = ["?", "push_back", "push_fore", "insert", "pull_back", "pull_fore", "remove", "at", "fore", "back",
        "sort_fore", "sort_back", "push_sort", "swap_elems", "swap_queues", "drop", "setz", "walk"]


def keyfn(d, how):
    return "%s:%s:%s:%s" % (how, d.get("kind"), d.get("op"), d.get("what", "crash"))


def run(pid, tier, replay=None):
    ck = Check(pid, tier, "model_checking")
    sc = ck.scratch
    exe = vlib.cc_build(sc.path("list_h"), [os.path.join(vlib.HARNESS, "list_h.c")] + vlib.repo_src("que.c", "a.c"), sc)
    quick = tier == "quick"
    runs = [
        ("list", "ListMC", "5555555", ["CONSTANTS K = %d" % (3 if quick else 4)], "ListTrace"),
        ("slist", "SlistMC", "4444444", ["CONSTANTS K = %d" % (4 if quick else 5)], "ListTrace"),
        ("que-short", "QueMC", "6666666", ["CONSTANTS", " Vals = {10, 30, 31}", " MaxNodes = %d" % (4 if quick else 5), " Sizes = {1, 8}", " Idx <- IdxShort"], "QueTrace"),
        ("que-long", "QueMC", "6666666", ["CONSTANTS", " Vals = {10}", " MaxNodes = %d" % (18 if quick else 26), " Sizes = {1}", " Idx <- IdxLong"], "QueTrace"),
    ]
    ck.assumptions += [
        "list primitives are called only inside their documented preconditions (detached nodes added, enqueued nodes deleted, sections disjoint and not adjacent, moved list non-empty, emptied head re-initialised by the caller)",
        "queue element values stand for arbitrary payloads; node identity = address, numbered per recorded call",
        "each call is a deterministic function of the linked fields / (contents, pool size, element size)",
    ]
    exhaustive = True
    opc = {"list": [0] * 18, "slist": [0] * 18, "que": [0] * 18}
    for name, mod, marker, consts, trace in runs:
        cfg = vlib.write_cfg(sc.path(name + ".cfg"), consts + ["INIT Init", "NEXT Next", "VIEW view", "INVARIANT Inv", "ACTION_CONSTRAINT Emit"])
        out = sc.path("edges-%s.out" % name)
        res = tlc(os.path.join(SPECDIR, mod + ".tla"), cfg, sc, timeout=3000, heap="12g", capture_prefix=marker, stdout_path=out)
        tlc_must_pass(res, mod + " " + name)
        ck.add_tlc(res, "model_" + name)
        summ, crashes = replay_with_resume(ck, exe, out, sc.path("g-" + name), 14, keyfn)
        if summ is None or crashes or summ["mismatch"] or summ["drift"]:
            exhaustive = False
        if summ:
            if res.generated - res.init_states != summ["edges"]:
                raise Broken("emitted %d transitions but replayed %d (%s)" % (res.generated - res.init_states, summ["edges"], name))
            ck.cov["evaluations"] += summ["edges"]
            ck.cov["distinct_nontrivial"] += summ["nontrivial"]
            ck.cov["spec_drift"] += summ["drift"]
            ck.part("replay_" + name, edges=summ["edges"], native_mismatches=summ["mismatch"], drift=summ["drift"], crashes=crashes, constants=consts)
            for fam, row in zip(("list", "slist", "que"), summ["ops"]):
                opc[fam] = [a + b for a, b in zip(opc[fam], row)]
        files = vlib.drop_partial_lines(sorted(glob.glob(sc.path("g-%s-*.ndjson" % name))))
        nev, bad = vlib.validate_collect(os.path.join(SPECDIR, trace + ".tla"), os.path.join(SPECDIR, trace + ".cfg"), files, sc)
        for f, idx, ev in bad:
            fam = name.split("-")[0]
            ck.violation("trace:%s:%s" % (fam, ev.get("op")), {"what": "TLC rejected the structure / result the real code produced", "event": ev})
            exhaustive = False
        ck.cov["traces_validated_against_impl"] += nev
        ck.part("trace_validation_" + name, batches=len(files), events_accepted=nev)
        if files:
            with open(files[0]) as fh:
                ck.sample(json.loads(fh.readline()))
    ck.part("coverage_by_operation", list={LOPS[i]: n for i, n in enumerate(opc["list"]) if 0 < i < len(LOPS)},
            slist={SOPS[i]: n for i, n in enumerate(opc["slist"]) if 0 < i < len(SOPS)},
            que={QOPS[i]: n for i, n in enumerate(opc["que"]) if 0 < i < len(QOPS)})
    # long random histories on two live queues (lengths to ~100): each step judged by QueTrace on its own
    nh, no = (12, 600) if quick else (150, 1500)
    rr = vlib.run_harness([exe, "random", str(ck.seed), str(nh), str(no), sc.path("rnd"), "14"], timeout=1800)
    mrr = re.search(r"^SUMMARY (\{.*\})$", rr.stdout or "", re.M)
    if rr.returncode != 0 or not mrr:
        if rr.returncode in (96, 97, 98, 99, -6, -11) or "Sanitizer" in (rr.stderr or ""):
            ck.violation("crash:que:random-history", {"what": "sanitizer abort during a long random queue history", "stderr": (rr.stderr or "")[-1500:], "stdout": (rr.stdout or "")[-600:]})
        elif (rr.stderr or "").startswith("TIMEOUT"):
            ck.violation("hang:que:random-history", {"what": "a queue operation or a walk of the ring did not terminate during a long random history", "detail": rr.stderr})
        else:
            raise Broken("random queue history failed rc=%s: %s" % (rr.returncode, (rr.stderr or "")[-800:]))
    else:
        rfiles = vlib.drop_partial_lines(sorted(glob.glob(sc.path("rnd-*.ndjson"))))
        rn, rbad = vlib.validate_collect(os.path.join(SPECDIR, "QueTrace.tla"), os.path.join(SPECDIR, "QueTrace.cfg"), rfiles, sc)
        for f, idx, ev in rbad:
            ck.violation("trace:que:%s:random-history" % ev.get("op"), {"what": "TLC rejected a step of a long random queue history", "op": ev.get("op"), "a1": ev.get("a1"), "a2": ev.get("a2"),
                                                                          "pre_len": len(ev.get("pre", {}).get("q1", {}).get("fwd", [])), "post": str(ev.get("post"))[:600]})
        ck.cov["traces_validated_against_impl"] += rn
        ck.cov["evaluations"] += rn + len(rbad)
        ck.part("random_queue_histories", histories=nh, steps_each=no, events_accepted=rn)
    missing = [LOPS[i] for i in range(1, 17) if opc["list"][i] == 0] + [SOPS[i] for i in range(1, 8) if opc["slist"][i] == 0] + \
              [QOPS[i] for i in range(1, 18) if opc["que"][i] == 0]
    if missing and not ck.violations:      # (a crashed replay has its own violation; its counters are empty)
        raise Broken("vacuity: operations never exercised: %s" % missing)
    ck.cov["rule"] = ("every transition of the TLC state graphs of List (K nodes on two heads, all ring configurations and detached chains), Slist (K nodes, two lists) "
                      "and Que (two queues, sequences over 3 (key,tag) values, pool sizes, element sizes; long single-value configuration crossing the 8-slot pool growth) "
                      "is replayed into the real code; non-trivial = section/replace/move/rotate/swap primitives, deleting/moving slist operations, queue operations with a non-empty pool or sorted/swap/drop/resize")
    return ck.finish(exhaustive=exhaustive)
