"""C07: allocation failure at every request position (Alloc / AllocTrace + the container models)."""
import os, glob, json, re, collections
import vlib
from vlib import Check, Broken, tlc, tlc_must_pass
from checks import seqs, strs


def classify(ev):
    f, pre = ev["fail"], ev["pre"]
    if ev.get("badfree") or ev.get("leak"):
        return "leak-or-double-free"
    if f["seq"] != pre["seq"] or f["num"] != len(pre["seq"]) or f["num"] > f["mem"]:
        return "contents-lost"
    if "after" in pre and pre["after"] == 0 and f.get("after") != 0:
        return "terminator-lost"
    if not f["ret_fail"]:
        return "failure-not-reported"
    if not ev["retry"]["ok"] or ev["retry"]["seq"] != ev["expected"]:
        return "retry-fails"
    return "ledger-discipline"


def run(pid, tier, replay=None):
    ck = Check(pid, tier, "fault_enumeration")
    sc = ck.scratch
    q = tier == "quick"
    ck.assumptions += [
        "a_alloc is replaced by a ledger shim (it is a replaceable function pointer); allocation requests (size > 0) made during the public call are numbered; frees never fail",
        "fault plans: request k fails (single) and every request from k on fails (from), for every k up to the number of requests the call makes without faults",
        "histories = the transitions of the C04-C06 state graphs that make at least one allocation request; pre-states are materialised, so every (state, operation) pair stands for all histories reaching it",
    ]
    # 0. the protocol design: grow first, modify afterwards
    adir = os.path.join(vlib.SPECS, "alloc")
    res = tlc(os.path.join(adir, "Alloc.tla"), os.path.join(adir, "AllocMC.cfg"), sc, timeout=300)
    tlc_must_pass(res, "Alloc protocol")
    ck.add_tlc(res, "alloc_protocol_design")
    jobs = []
    # vector / buffer
    for name, c in seqs.configs(tier):
        if name in ("vec-short", "buf-short", "vec-long"):
            jobs.append(("seq-" + name, "seq_h.c", ["vec.c", "buf.c", "a.c"], os.path.join(vlib.SPECS, "seq", "SeqMC.tla"), "8888888",
                         lambda p, c=c: seqs.write_mc_cfg(p, c)))
    # queue
    for name, consts in (("que-short", ["CONSTANTS", " Vals = {10, 20, 21}", " MaxNodes = %d" % (3 if q else 4), " Sizes = {1, 8}", " Idx <- IdxShort"]),
                         ("que-long", ["CONSTANTS", " Vals = {10}", " MaxNodes = 10", " Sizes = {1}", " Idx <- IdxLong"])):
        jobs.append((name, "list_h.c", ["que.c", "a.c"], os.path.join(vlib.SPECS, "list", "QueMC.tla"), "6666666",
                     lambda p, consts=consts: vlib.write_cfg(p, consts + ["INIT Init", "NEXT Next", "VIEW view", "INVARIANT Inv", "ACTION_CONSTRAINT Emit"])))
    # string
    for name, consts in strs.configs(tier):
        if name in ("short", "long"):
            jobs.append(("str-" + name, "str_h.c", ["str.c", "utf.c", "a.c"], os.path.join(vlib.SPECS, "str", "StrMC.tla"), "3333333",
                         lambda p, consts=consts: vlib.write_cfg(p, ["CONSTANTS"] + [" " + c for c in consts] + ["INIT Init", "NEXT Next", "VIEW view", "INVARIANT Inv", "ACTION_CONSTRAINT Emit"])))
    exes = {}
    total_runs = 0
    byop = collections.Counter()
    nontrivial = set()
    for name, hsrc, libsrc, spec, marker, mkcfg in jobs:
        if hsrc not in exes:
            exes[hsrc] = vlib.cc_build(sc.path(hsrc.replace(".c", "")), [os.path.join(vlib.HARNESS, hsrc)] + vlib.repo_src(*libsrc), sc)
        cfg = mkcfg(sc.path(name + ".cfg"))
        out = sc.path("edges-%s.out" % name)
        res = tlc(spec, cfg, sc, timeout=2400, heap="12g", capture_prefix=marker, stdout_path=out)
        tlc_must_pass(res, name)
        ck.add_tlc(res, "model_" + name)
        fpath = sc.path("faults-%s.ndjson" % name)
        r = vlib.run_harness([exes[hsrc], "edges", out, sc.path("g-" + name), "4", "0", fpath], timeout=1800)
        m = re.search(r"^FAULTS (\{.*\})$", r.stdout or "", re.M)
        if r.returncode != 0 or not m:
            mc = re.search(r"^CRASH (\{.*\})$", r.stdout or "", re.M)
            if mc:
                d = json.loads(mc.group(1))
                d["what"] = "sanitizer abort while an allocation fault was being injected (or in the normal replay)"
                d["stderr"] = (r.stderr or "")[-1200:]
                ck.violation("crash:%s:%s" % (name.split("-")[0], d.get("op")), d)
                continue
            if r.returncode in (96, 97, 98, 99, -6, -11) or "runtime error" in (r.stderr or "") or "Sanitizer" in (r.stderr or ""):
                ck.violation("crash:%s:?" % name.split("-")[0], {"what": "sanitizer abort during fault injection", "stderr": (r.stderr or "")[-1500:]})
                continue
            raise Broken("harness failed on %s rc=%s: %s" % (name, r.returncode, (r.stderr or "")[-2000:]))
        fs = json.loads(m.group(1))
        total_runs += fs["runs"]
        ck.part("faults_" + name, allocating_transitions=fs["edges"], faulted_runs=fs["runs"])
        if fs["runs"] == 0:
            continue
        # split into batches for parallel validation
        files = vlib.split_file_lines(fpath, 14, sc.dir, "fb-" + name, max_lines=20000)
        nev, bad = vlib.validate_collect(os.path.join(adir, "AllocTrace.tla"), os.path.join(adir, "AllocTrace.cfg"), files, sc, max_bad=100000)
        ck.cov["traces_validated_against_impl"] += nev
        with open(fpath) as fh:
            for i, line in enumerate(fh):
                ev = json.loads(line)
                byop["%s:%s" % (ev["fam"], ev["op"])] += 1
                if len(ev["reqs"]) > 1:
                    nontrivial.add((ev["fam"], ev["op"], ev["plan"], ev["k"], json.dumps(ev["pre"])))
                if i == 0:
                    ck.sample(ev)
        for f, idx, ev in bad:
            ck.violation("fault:%s:%s:%s" % (ev["fam"], ev["op"], classify(ev)),
                         {"what": "TLC rejected the fault-injection run (FailureIsReported / FailureIsAtomic / RetrySucceeds / NoLeak / LedgerOK)", "event": ev})
    # lifecycle: heap constructors under a failing request, whole-object swaps, destruction with a counting destructor
    lexe = vlib.cc_build(sc.path("life_h"), [os.path.join(vlib.HARNESS, "life_h.c")] + vlib.repo_src("vec.c", "buf.c", "que.c", "str.c", "utf.c", "a.c"), sc)
    lpath = sc.path("life.ndjson")
    lr = vlib.run_harness([lexe, lpath], timeout=600)
    lm = re.search(r"^SUMMARY (\{.*\})$", lr.stdout or "", re.M)
    if lr.returncode != 0 or not lm:
        if lr.returncode in (96, 97, 98, 99, -6, -11) or "runtime error" in (lr.stderr or "") or "Sanitizer" in (lr.stderr or ""):
            ck.violation("crash:life", {"what": "sanitizer abort in a heap constructor / destructor / whole-object swap", "stderr": (lr.stderr or "")[-1500:]})
        else:
            raise Broken("lifecycle harness failed rc=%s: %s" % (lr.returncode, (lr.stderr or "")[-1500:]))
    else:
        ln, lbad = vlib.validate_collect(os.path.join(adir, "AllocTrace.tla"), os.path.join(adir, "AllocTrace.cfg"), [lpath], sc)
        for f, idx, ev in lbad:
            ck.violation("life:%s:%s" % (ev.get("fam"), "null" if ev.get("null") else "swap-or-destroy"),
                         {"what": "TLC rejected a lifecycle run: failing constructor not reported / something left behind, swap did not exchange the contents, destructor not handed every owned element once, or the ledger not empty", "event": ev})
        ck.cov["traces_validated_against_impl"] += ln
        total_runs += json.loads(lm.group(1))["events"]
        ck.part("lifecycle_runs", events=json.loads(lm.group(1))["events"], accepted=ln)
    ck.cov["evaluations"] = total_runs
    ck.cov["distinct_nontrivial"] = len(nontrivial)
    ck.part("faulted_runs_by_operation", **dict(sorted(byop.items())))
    need = ["vec:push_back", "vec:insert", "vec:store", "vec:setn", "vec:setm", "vec:push_sort", "buf:setm", "que:push_back", "que:pull_back", "que:remove",
            "que:drop", "que:setz", "str:catc", "str:catn", "str:catf", "str:utf_catc", "str:setm", "str:exit"]
    missing = [x for x in need if byop[x] == 0]
    if missing and not ck.violations:
        raise Broken("vacuity: no fault was injected into: %s" % missing)
    ck.cov["rule"] = ("one case = one public call on one materialised container state executed under one fault plan (single k / from k, k ranging over the allocation requests "
                      "the call makes), followed by the retry with a healthy allocator and destruction; non-trivial = distinct (container, op, plan, k, pre-state) whose faulted call made more than one allocator request")
    return ck.finish(exhaustive=not ck.violations and not ck.known_hits)
